"""Canonical 'bytes consumed so far' model of the data loops of a bulk function (C07.R1 / C09.R3).

A bulk function walks caller buffers with one or more loops in sequence (vector batches, then a scalar tail).
Sources spell the walk in several ways:  cursors that advance while a remaining-size counter decreases;  a byte
index that increases and is added to fixed base pointers;  mixtures.  All of them are the same walk, so each
loop h gets ONE ghost quantity C_h = bytes this loop has consumed when control is at its header, and every
loop-carried value is rewritten as  start + k * C_h  (k = +1 for cursors and indexes, -1 for remaining sizes),
which requires every loop-carried value to move by the same amount d_h per iteration.  Values that merge after a
loop that may be skipped are equal on the skipping path with C_h = 0 (the loop did not run), so the merge takes
the form that mentions C_h.  After this rewriting a buffer argument of the per-iteration call reads
`parameter + T` and the loop guard reads `size - T >= d`, whatever the spelling."""
from .ir import CASTS
from .initflow import lf_add, lf_const, lf_is_const, lf_scale, lf_str
from .mem import AddrMap


def lf_atom(a, k=1):
    return (0, ((a, k),))


def lf_terms(l):
    return dict(l[1])


class Consume:
    def __init__(self, f, P, loop_paths):
        self.f = f
        self.P = P                      # linear-form evaluator (lf / ptr) with header phis as atoms
        self.am = AddrMap(f)
        self.loops = {}                 # header -> info
        self.order = []
        self.problems = {}              # header -> message
        rpo = {b: n for n, b in enumerate(f.rpo())}
        self._canon = {}
        self._busy = set()
        for header, body in sorted(f.loops().items(), key=lambda kv: rpo.get(kv[0], 0)):
            self.order.append(header)
            self.loops[header] = self._loop(header, body, loop_paths)

    # ------------------------------------------------------------------ per loop
    def _loop(self, header, body, loop_paths):
        f, P = self.f, self.P
        hphis = [i for i in f.bbmap[header]["insts"] if i["op"] == "phi"]
        info = {"header": header, "body": body, "phis": hphis, "paths": [], "d": None, "k": {}, "start": {}}
        for ph in hphis:
            outs = [v for v, pb in zip(ph["ops"], ph["inblocks"]) if pb not in body]
            info["start"][ph["id"]] = outs[0] if len(outs) == 1 or (outs and all(o == outs[0] for o in outs)) else None
        deltas_all = []
        for (path, kind, tgt) in loop_paths(f, header, body):
            if kind != "latch":
                continue
            env = {}
            calls = []
            conds = []
            for n, bb in enumerate(path):
                prev = path[n - 1] if n else None
                for i in f.bbmap[bb]["insts"]:
                    if i["op"] == "phi" and prev is not None and bb != header:
                        for v, pb in zip(i["ops"], i["inblocks"]):
                            if pb == prev:
                                env[i["id"]] = v
                    elif i["op"] == "call" and not (i.get("intrinsic") or "").startswith("llvm."):
                        calls.append(i)
                t = f.term(bb)
                nxt = path[n + 1] if n + 1 < len(path) else header
                if t["op"] == "br" and len(t["succs"]) == 2 and t["succs"][0] != t["succs"][1] and not calls:
                    conds.append((t, t["succs"][0] == nxt))
            deltas = {}
            for ph in hphis:
                nv = None
                for v, pb in zip(ph["ops"], ph["inblocks"]):
                    if pb == path[-1]:
                        nv = v
                if nv is None:
                    continue
                if ph["type"].endswith("*"):
                    p = P.ptr(nv, env)
                    deltas[ph["id"]] = p[1] if p is not None and p[0] == ("phi", ph["id"]) else None
                else:
                    l = P.lf(nv, env)
                    deltas[ph["id"]] = lf_add(l, lf_atom(("i", ph["id"])), -1) if l is not None else None
            info["paths"].append({"path": path, "env": env, "calls": calls, "conds": conds, "deltas": deltas})
            deltas_all.append(deltas)
        # one amount per iteration, the same on every path
        d = None
        for deltas in deltas_all:
            for ph in hphis:
                x = deltas.get(ph["id"])
                if x is None:
                    self.problems[header] = "loop-carried value `%s` does not move by a recognisable amount" % ph.get("name", "?")
                    return info
                if lf_is_const(x) and x[0] == 0:
                    self.problems[header] = "loop-carried value `%s` does not move" % ph.get("name", "?")
                    return info
                neg = lf_scale(x, -1)
                # orientation: a pointer or index moves by +d, a remaining size by -d; d is positive when constant
                # and has a positive leading coefficient when symbolic
                pos = x if self._positive(x) else neg
                k = 1 if pos == x else -1
                if d is None:
                    d = pos
                elif d != pos:
                    self.problems[header] = "loop-carried values move by different amounts per iteration: %s" % \
                        {p.get("name", "?"): (lf_str(deltas[p["id"]]) if deltas.get(p["id"]) else "?") for p in hphis}
                    return info
                if info["k"].get(ph["id"], k) != k:
                    self.problems[header] = "`%s` moves in different directions on different paths" % ph.get("name", "?")
                    return info
                info["k"][ph["id"]] = k
        info["d"] = d
        return info

    @staticmethod
    def _positive(l):
        if lf_is_const(l):
            return l[0] > 0
        return l[1][0][1] > 0

    # ------------------------------------------------------------------ canonical forms
    def _field_atom(self, inst):
        a = self.am.of(inst["ops"][0])
        if a is not None and a.root[0] == "arg" and len(a.segs) == 1 and a.segs[0].off is not None:
            return ("fld", a.root[1], a.segs[0].off)
        return ("i", inst["id"])

    def header_of(self, phi_id):
        b = self.f.bb_of[phi_id]
        return b if b in self.loops else None

    def canon_lf(self, l):
        """substitute phi / load atoms of an evaluated linear form by their canonical forms."""
        if l is None:
            return None
        out = lf_const(l[0])
        for (atom, k) in l[1]:
            if atom[0] == "i":
                c = self.canon_val(atom[1])
                if c is None:
                    return None
                out = lf_add(out, lf_scale(c, k))
            else:
                out = lf_add(out, lf_atom(atom, k))
        return out

    def canon_val(self, iid):
        """canonical integer form of instruction iid (phi / load / other)."""
        key = ("v", iid)
        if key in self._canon:
            return self._canon[key]
        if key in self._busy:
            return None
        self._busy.add(key)
        i = self.f.insts[iid]
        r = None
        if i["op"] == "phi":
            h = self.header_of(iid)
            if h is not None:
                info = self.loops[h]
                st = info["start"].get(iid)
                k = info["k"].get(iid)
                if st is not None and k is not None and info["d"] is not None:
                    s = self.canon_lf(self.P.lf(st, {}))
                    if s is not None:
                        r = lf_add(s, lf_atom(("C", h), k))
            else:
                r = self._merge([(self.canon_lf(self.P.lf(v, {})), pb) for v, pb in zip(i["ops"], i["inblocks"])])
        elif i["op"] == "load":
            r = lf_atom(self._field_atom(i))
        else:
            r = lf_atom(("i", iid))
        self._busy.discard(key)
        self._canon[key] = r
        return r

    def canon_ptr(self, op, env=None):
        """(root, offset lf): root ('a', k) for a parameter."""
        p = self.P.ptr(op, env or {})
        if p is None:
            return None
        base, off = p
        off = self.canon_lf(off)
        if off is None:
            return None
        if base[0] == "a":
            return base, off
        if base[0] == "phi":
            q = self._canon_ptr_phi(base[1])
            if q is None:
                return None
            return q[0], lf_add(q[1], off)
        return base, off

    def _canon_ptr_phi(self, iid):
        key = ("p", iid)
        if key in self._canon:
            return self._canon[key]
        if key in self._busy:
            return None
        self._busy.add(key)
        i = self.f.insts[iid]
        r = None
        h = self.header_of(iid)
        if h is not None:
            info = self.loops[h]
            st = info["start"].get(iid)
            k = info["k"].get(iid)
            if st is not None and k is not None and info["d"] is not None:
                s = self.canon_ptr(st)
                if s is not None:
                    r = (s[0], lf_add(s[1], lf_atom(("C", h), k)))
        else:
            forms = [(self.canon_ptr(v), pb) for v, pb in zip(i["ops"], i["inblocks"])]
            if all(fp is not None for (fp, pb) in forms) and len({fp[0] for (fp, pb) in forms}) == 1:
                m = self._merge([(fp[1], pb) for (fp, pb) in forms])
                if m is not None:
                    r = (forms[0][0][0], m)
        self._busy.discard(key)
        self._canon[key] = r
        return r

    def _merge(self, forms):
        """join of canonical forms at a non-header phi: equal, or equal up to the C of loops the edge bypassed."""
        if not forms or any(x[0] is None for x in forms):
            return None
        best = max(forms, key=lambda x: sum(1 for (a, k) in x[0][1] if a[0] == "C"))[0]
        for (l, pb) in forms:
            if l == best:
                continue
            diff = lf_add(best, l, -1)
            if diff[0] != 0:
                return None
            for (a, k) in diff[1]:
                if a[0] != "C":
                    return None
                # the loop must not have run on this edge
                if pb == a[1] or pb in self.f.reachable_from(a[1]):
                    return None
        return best

    def total(self, header):
        """T at the header of loop `header`: its own C plus the C of every data loop that ran before it."""
        t = lf_atom(("C", header))
        for h in self.order:
            if h == header:
                break
            if header in self.f.reachable_from(h) and h not in self.loops[header]["body"]:
                t = lf_add(t, lf_atom(("C", h)))
        return t


def strip_casts(f, op):
    while op[0] == "i" and f.insts[op[1]]["op"] in CASTS:
        op = f.insts[op[1]]["ops"][0]
    return op
