"""Debug helper: print EGS summaries.  python3 -m sa.dump <function-name-substring>..."""
import sys, time
from .build import Workspace
from .ir import Program
from .summary import Analyzer, fact_str, term_str
from .mem import addr_str

def show(an, s):
    prog = an.prog
    print("=====", s.key, "retconsts", s.retconsts, "fresh" if s.ret_fresh else "")
    for cl, cs in s.cls.items():
        print("  class", cl, "exits", cs.exits)
        for g in sorted(cs.guards or [], key=str):
            print("     guard:", fact_str(g, s.addr_reg, prog))
        for k, (loc, t) in (cs.must or {}).items():
            print("     must :", addr_str(loc.addr, prog), loc.size, ":=", term_str(t, s.addr_reg, prog))
        for k, (loc, w) in cs.may.items():
            print("     may  :", addr_str(loc.addr, prog), loc.size, "@", w)
    for t, w in s.needs_nonnull.items():
        print("  needs_nonnull:", term_str(t, s.addr_reg, prog), "@", w)
    for a in s.allocs: print("  alloc:", a[1], term_str(a[2], s.addr_reg, prog), a[3])
    for a in s.frees: print("  free:", term_str(a[1], s.addr_reg, prog), addr_str(a[2], prog), a[3])
    if s.ext_calls: print("  ext:", s.ext_calls)
    if s.asms: print("  asm:", s.asms)
    for u in s.unknown_shapes: print("  UNKNOWN:", u)

if __name__ == "__main__":
    ws = Workspace()
    t = time.time()
    prog = Program(ws.facts())
    an = Analyzer(prog)
    print("analysed", len(an.summaries), "functions in %.2fs" % (time.time() - t))
    for pat in sys.argv[1:]:
        for k, s in an.summaries.items():
            if pat in k[1]:
                show(an, s)
