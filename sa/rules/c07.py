"""C07 — parallel ECB equals block-by-block ECB for every block count."""
from ..build import config_name, AnalysisBroken
from ..ir import CASTS, indirect_slot, indirect_targets
from ..lanes import Lanes
from ..summary import Analyzer
from ..initflow import lf_add, lf_const, lf_is_const, lf_str
from ..report import Report
from ..contract import block_size
from .common import public_functions, construct, fsite, handle_type, vtable_instances
from .c05 import Ctx5, loop_paths
from ..consume import Consume, lf_atom, lf_terms
from ..initflow import lf_scale
from .c13 import output_extent
from . import c13, c14
from .c14 import state_term

TITLE = ("Necessary conditions of 'parallel == block by block' (S-box values are not decided): (R1) consumed-bytes model "
         "of every data loop of the six public parallel functions: every loop-carried cursor, index or remaining size "
         "moves by one amount per iteration (parallel_size for the vtable slot, BLOCK for the scalar tail = what the "
         "callee consumes), every data buffer reaches the call as parameter + bytes consumed so far, and a test before the "
         "call implies size - consumed >= that amount; (R2) the advertised parallel_size equals the bytes the selected "
         "slot target writes; (R3) lane independence on the -O3 IR of every vector ECB function and full coverage of the "
         "batch; (R4) encrypt dispatches only to forward walkers, decrypt only to backward walkers; (R5) sizes that are "
         "not whole blocks are rejected, the zero-length call succeeds; (R6) GF(2) affine interpretation: every block of "
         "every parallel round function has the scalar function's linear layer, and output byte o bit b is written from "
         "the state bit loaded from input byte o bit b.")


class _NoTerms:
    termcache = {}


class PE(Ctx5):
    def __init__(self, f):
        self.f = f
        self.vals = {}
        self.fa = _NoTerms()

    def field(self, op):
        return None


def index_walk(prog, am, f, header, body):
    """index form of a schedule walk: schedule[iv + c] with an integer induction variable stepping by +1 or -1.
    Returns (direction, start_ok, detail) or None when the loop does not index the schedule that way."""
    P = PE(f)
    for bb in body:
        for i in f.bbmap[bb]["insts"]:
            if i["op"] != "getelementptr" or len(i["gep"]["vars"]) != 1:
                continue
            a = am.of(["i", i["id"]])
            if a is None or not a.segs[-1].ty or a.root[0] != "arg":
                continue
            seg = a.segs[-1]
            o = seg.off if seg.off is not None else (seg.rng[0] if seg.rng else None)
            if o is None or "schedule" not in prog.describe(seg.ty, o):
                continue
            l = P.lf(i["gep"]["vars"][0][0])
            if l is None or len(l[1]) != 1 or l[1][0][1] != 1 or l[1][0][0][0] != "i":
                continue
            ph = f.insts.get(l[1][0][0][1])
            if ph is None or ph["op"] != "phi" or f.bb_of[ph["id"]] != header:
                continue
            step = start = None
            for v, pb in zip(ph["ops"], ph["inblocks"]):
                if pb in body:
                    d = P.lf(v)
                    if d is not None:
                        dd = lf_add(d, (0, ((("i", ph["id"]), 1),)), -1)
                        if lf_is_const(dd):
                            step = dd[0]
                            bits = ph.get("bits", 32)
                            if step >= 1 << (bits - 1):
                                step -= 1 << bits
                else:
                    start = P.lf(v)
            if step not in (1, -1) or start is None:
                continue
            first = lf_add(start, lf_const(l[0]))          # index used in the first iteration
            if step == 1:
                ok = lf_is_const(first) and first[0] == 0
                return "forward", ok, "indexes schedule[%s] upwards from %s" % (lf_str(l), lf_str(first))
            # backward: first index must be rounds - 1 of the same key schedule
            ok = False
            if first[0] == -1 and len(first[1]) == 1 and first[1][0][1] == 1 and first[1][0][0][0] == "i":
                ld = f.insts.get(first[1][0][0][1])
                if ld is not None and ld["op"] == "load":
                    ra = am.of(ld["ops"][0])
                    if ra is not None and ra.segs[-1].ty and ra.segs[-1].off is not None and \
                            prog.describe(ra.segs[-1].ty, ra.segs[-1].off)[-1:] == ["rounds"] and ra.root == a.root:
                        ok = True
            return "backward", ok, "indexes schedule[%s] downwards from %s" % (lf_str(l), lf_str(first))
    return None


def schedule_direction(prog, an, f):
    """'forward' / 'backward' / None: how the function walks the key schedule array."""
    s = an.summaries[f.key]
    am = s.fa.am
    for header, body in f.loops().items():
        iw = index_walk(prog, am, f, header, body)
        if iw is not None:
            return iw[0]
    for header, body in f.loops().items():
        for i in f.bbmap[header]["insts"]:
            if i["op"] != "phi" or not i["type"].endswith("*"):
                continue
            start = step = None
            for v, pb in zip(i["ops"], i["inblocks"]):
                if pb in body:
                    g = f.insts.get(v[1]) if v[0] == "i" else None
                    if g and g["op"] == "getelementptr" and g["gep"]["base"] == ["i", i["id"]] and not g["gep"]["vars"]:
                        step = g["gep"]["coff"]
                else:
                    a = am.of(v)
                    if a is not None and a.segs[-1].ty:
                        seg = a.segs[-1]
                        o = seg.off if seg.off is not None else (seg.rng[0] if seg.rng else None)
                        if o is not None and "schedule" in prog.describe(seg.ty, o):
                            start = "first" if seg.off is not None else "indexed"
            if start and step:
                if start == "first" and step > 0:
                    return "forward"
                if start == "indexed" and step < 0:
                    return "backward"
                return "odd(%s,%d)" % (start, step)
        # indexed form: schedule[index] with index counting up
    # vector functions index the schedule through a cursor as well; Mantis has no schedule array
    return None


def reached_walkers(prog, an, f, depth=0):
    """schedule walkers a function reaches, context-sensitively for function-pointer arguments:
    [(walker Func, direction)].  A driver's calls through its own parameters are resolved from the
    actual arguments at this call site, never from other callers."""
    from ..ir import resolve_fnptr
    own = schedule_direction(prog, an, f)
    if own is not None:
        return [(f, own)]
    out = []
    if depth > 2:
        return out
    for i in f.all_insts():
        if i["op"] != "call":
            continue
        c = i["callee"]
        if c[0] == "f":
            g = prog.resolve(f.unit, c[1])
            if g is None:
                continue
            d = schedule_direction(prog, an, g)
            if d is not None:
                out.append((g, d))
                continue
            # function-pointer actuals handed to a driver
            for j, o in enumerate(i["ops"]):
                if j < len(g.params) and "(" in g.params[j]["type"]:
                    ts, complete = resolve_fnptr(prog, f, o)
                    for t in ts:
                        dt = schedule_direction(prog, an, t)
                        if dt is not None:
                            out.append((t, dt))
            out += reached_walkers(prog, an, g, depth + 1)
        elif c[0] == "i":
            for t in indirect_targets(prog, f, i):
                dt = schedule_direction(prog, an, t)
                if dt is not None:
                    out.append((t, dt))
        # c[0] == "a": a call through this function's own parameter - bound by the caller's actuals above
    uniq = []
    for x in out:
        if x not in uniq:
            uniq.append(x)
    return uniq


def locate_loops(prog, an, f, decl):
    """the function that holds the data loops: f itself, or (wrapper idiom) the single library callee that
    receives f's parameters unchanged.  Returns (g, {f param idx: g param idx}, {g param idx: [Func]})."""
    from ..ir import resolve_fnptr
    if f.loops():
        return f, {k: k for k in range(len(f.params))}, {}
    calls = [i for i in f.all_insts() if i["op"] == "call" and i["callee"][0] == "f" and prog.resolve(f.unit, i["callee"][1]) is not None]
    if len(calls) != 1:
        return f, {k: k for k in range(len(f.params))}, {}
    call = calls[0]
    g = prog.resolve(f.unit, call["callee"][1])
    amap, binds = {}, {}
    for j, o in enumerate(call["ops"]):
        o2 = o
        while o2[0] == "i" and f.insts[o2[1]]["op"] in CASTS:
            o2 = f.insts[o2[1]]["ops"][0]
        if o2[0] == "a":
            amap[o2[1]] = j
        elif j < len(g.params) and "(" in g.params[j]["type"]:
            ts, complete = resolve_fnptr(prog, f, o)
            binds[j] = ts
    if not g.loops():
        return f, {k: k for k in range(len(f.params))}, {}
    return g, amap, binds


def check_parallel(prog, an, rep, cn, name, f0, c, decl):
    f, amap, binds = locate_loops(prog, an, f0, decl)
    cons = construct(f)
    P = PE(f)
    B = block_size(name)
    pidx = {p["name"]: amap[k] for k, p in enumerate(decl["params"]) if k in amap}
    if "ecb" not in pidx:
        rep.inconclusive("C07.R1", construct(f0), fsite(f0), "the object handle is not passed on to the function holding the data loops", cfg=cn)
        return
    hidx = pidx["ecb"]
    ps_t = state_term(prog, f, hidx, "parallel_size")
    am = an.summaries[f.key].fa.am
    want_dir = "forward" if name.endswith("_encrypt") else ("backward" if name.endswith("_decrypt") else None)
    nloops = 0
    M = Consume(f, P, loop_paths)
    bufk = {pidx[pn]: pn for pn, sp in c["params"].items() if sp[0] == "BUF" and pn in pidx}
    sizek = pidx.get("size")
    size_atom = lf_atom(("a", sizek)) if sizek is not None else None
    ps_off = ps_t[1][1][0] if ps_t is not None else None
    for header in M.order:
        info = M.loops[header]
        nloops += 1
        label = "%s:loop@%s" % (cons, header)
        t_hdr = f.term(header)
        if header in M.problems:
            rep.violation("C07.R1", label, f.loc(t_hdr), "loop-carried cursors move by different amounts per iteration: %s" % M.problems[header], cfg=cn)
            continue
        if info["d"] is None or not info["paths"]:
            rep.inconclusive("C07.R1", label, f.loc(t_hdr), "no loop-carried cursor or index found in this data loop", cfg=cn)
            continue
        d = M.canon_lf(info["d"])
        T = M.total(header)
        for pth in info["paths"]:
            calls, env = pth["calls"], pth["env"]
            if len(calls) != 1:
                rep.inconclusive("C07.R1", label, f.loc(t_hdr), "%d calls in the loop body (expected one block-processing call)" % len(calls), cfg=cn)
                continue
            call = calls[0]
            # what the callee consumes
            if call["callee"][0] in ("i", "a"):
                cop = call["callee"]
                while cop[0] == "i" and f.insts[cop[1]]["op"] in CASTS:
                    cop = f.insts[cop[1]]["ops"][0]
                if cop[0] == "a" and cop[1] in binds:
                    targets = binds[cop[1]]        # function-pointer argument bound at this entry point's call
                else:
                    targets = indirect_targets(prog, f, call)
                exts = {output_extent(prog, an, g) for g in targets}
                kind_c = "slot" if not (exts and all(e == B for e in exts)) else "scalar"
            else:
                g = prog.resolve(f.unit, call["callee"][1])
                targets = [g] if g else []
                exts = {output_extent(prog, an, g)} if g else set()
                kind_c = "scalar"
            # every data buffer of the public function reaches the call as  parameter + T
            seen = {}
            for o in call["ops"]:
                if o[0] not in ("i", "a"):
                    continue
                cp = M.canon_ptr(o, env)
                if cp is not None and cp[0][0] == "a" and cp[0][1] in bufk:
                    seen[cp[0][1]] = cp[1]
                elif cp is None:
                    a = am.of(o)
                    if a is not None and a.root[0] == "arg" and a.root[1] in bufk and len(a.segs) == 1:
                        seen.setdefault(a.root[1], None)
            problem = None
            for k, pn in sorted(bufk.items()):
                if k not in seen:
                    problem = "cursor `%s` is not passed" % pn
                    break
                off = seen[k]
                if off is None:
                    problem = "the position inside `%s` is not a recognisable function of the bytes consumed" % pn
                    break
                if ("C", header) not in lf_terms(off):
                    rep.violation("C07.R1", label + ":args", f.loc(call), "buffer `%s` is passed to the block-processing call but is not advanced in this loop: every iteration processes the same %s bytes" % (pn, pn), cfg=cn)
                    problem = ""
                    break
                if off != T:
                    problem = "`%s` is passed at offset %s although %s bytes have been consumed" % (pn, lf_str(off), lf_str(T))
                    break
            if problem:
                rep.violation("C07.R1", label + ":args", f.loc(call), "the block-processing call does not receive every current cursor at offset 0 (%s)" % problem, cfg=cn)
            elif problem is None:
                rep.ok("C07.R1", label + ":args", f.loc(call), "callee receives %s, each at parameter + bytes consumed so far (%s)" % (", ".join(bufk[k] for k in sorted(bufk)), lf_str(T)), cfg=cn)
            # amount
            if kind_c == "scalar":
                if not lf_is_const(d) or exts != {d[0]} or d[0] != B:
                    rep.violation("C07.R1", label, f.loc(call), "scalar tail steps by %s but %s processes %s bytes per call (block size %d)" % (lf_str(d), [t.name for t in targets], sorted(exts), B), cfg=cn)
                else:
                    rep.ok("C07.R1", label, f.loc(call), "scalar tail: every cursor / index / remaining size steps by %d = bytes processed by %s" % (B, [t.name for t in targets]), cfg=cn)
            else:
                if ps_off is not None and d == lf_atom(("fld", hidx, ps_off)):
                    rep.ok("C07.R1", label, f.loc(call), "vector loop: every cursor / index / remaining size steps by ecb->parallel_size (= bytes the slot target processes, R2)", cfg=cn)
                else:
                    rep.violation("C07.R1", label, f.loc(call), "vector loop steps by %s, not by the advertised parallel_size the back end processes per call" % lf_str(d), cfg=cn)
            # guard: some test between the header and the call implies  size - T >= d
            gok = None
            for (tb, truth) in pth["conds"]:
                if tb["ops"][0][0] != "i":
                    continue
                cnd = f.insts[tb["ops"][0][1]]
                if cnd["op"] != "icmp":
                    continue
                pred = cnd["pred"] if truth else {"uge": "ult", "ugt": "ule", "ult": "uge", "ule": "ugt", "eq": "ne", "ne": "eq"}.get(cnd["pred"])
                x, y = M.canon_lf(P.lf(cnd["ops"][0], env)), M.canon_lf(P.lf(cnd["ops"][1], env))
                if x is None or y is None or size_atom is None:
                    continue
                if pred in ("ult", "ule"):
                    x, y, pred = y, x, {"ult": "ugt", "ule": "uge"}[pred]
                rem = lf_add(size_atom, T, -1)              # size - T
                df = lf_add(x, y, -1)
                if pred == "uge" and df == lf_add(rem, d, -1):
                    gok = "size - consumed >= %s" % lf_str(d)
                elif pred == "ugt" and lf_is_const(d) and df == lf_add(rem, lf_const(d[0] - 1), -1):
                    gok = "size - consumed > %d" % (d[0] - 1)
                elif pred in ("ugt", "ne") and lf_is_const(d) and d[0] == B and kind_c == "scalar" and (df == rem or (pred == "ne" and lf_scale(df, -1) == rem)):
                    # consumed < size: at least one whole block remains because size (R5) and every amount
                    # consumed (B, or parallel_size = whole blocks by R2/R3) are multiples of the block size
                    gok = "consumed < size, all multiples of the block size (R5, R2)"
                if gok:
                    break
            if gok:
                rep.ok("C07.R1", label + ":guard", f.loc(t_hdr), "each call is guarded by %s" % gok, cfg=cn)
            else:
                rep.violation("C07.R1", label + ":guard", f.loc(t_hdr), "loop guard does not ensure size >= %s bytes remain before a call that consumes them" % lf_str(d), cfg=cn)
            # R4 direction
            if want_dir:
                for g in targets:
                    dr = schedule_direction(prog, an, g)
                    inst = "%s:%s->%s" % (construct(f0), kind_c, g.name)
                    if dr == want_dir:
                        rep.ok("C07.R4", inst, f.loc(call), "%s dispatches to a %s schedule walker" % (name, dr), cfg=cn)
                    elif dr is None and not any(cs.may for cs in an.summaries[g.key].cls.values()):
                        rep.ok("C07.R4", inst, f.loc(call), "stub target (back end not compiled in)", cfg=cn)
                    else:
                        rep.violation("C07.R4", inst, f.loc(call), "%s reaches %s which walks the key schedule %s: blocks on this path are %s instead" %
                                      (name, g.name, dr, "encrypted" if dr == "forward" else "decrypted"), cfg=cn)
    if nloops != 2:
        rep.inconclusive("C07.R1", cons, fsite(f), "%d loops (expected the vector loop and the scalar tail)" % nloops, cfg=cn)
    # R5: zero-length path returns 1 and touches nothing: the only writes are inside the loops (guarded by size >= B)
    s = an.summaries[f0.key]
    cons = construct(f0)
    f = f0
    if 1 in s.retconsts and s.c("nz") is not None:
        rep.ok("C07.R5", cons + ":empty", fsite(f), "all data accesses are inside loops guarded by size >= block; size 0 falls through to return 1", cfg=cn)


def check_lanes(prog_ship, rep, cn, f, block, has_tweak, expect_bytes, lane_mode=False, elbytes=4, field_src=None, field_sink=None):
    cons = construct(f)
    if lane_mode and field_src:
        L = Lanes(f, {}, field_src=field_src, field_sink=field_sink)
    elif lane_mode:
        L = Lanes(f, {}, out_arg=0, lane_sources={1: ("ctr", elbytes)})
    else:
        srcs = {1: ("in", block)}
        if has_tweak:
            srcs[2] = ("tweak", block)
        L = Lanes(f, srcs, out_arg=0)
    if L.unknown:
        rep.inconclusive("C07.R3", cons, f.loc(L.unknown[0][0]), "lane analysis incomplete: %s" % L.unknown[0][1], cfg=cn)
        return
    covered = set()
    bad = None
    for (i, off, bs) in L.stores:
        if off is None:
            rep.inconclusive("C07.R3", cons, f.loc(i), "store to the output at a variable offset", cfg=cn)
            return
        for j, cols in enumerate(bs):
            b = (off + j) // block
            covered.add(off + j)
            allowed = {("ctr", b)} if lane_mode else ({("in", b), ("tweak", b)} if has_tweak else {("in", b)})
            need = ("ctr", b) if lane_mode else ("in", b)
            if not cols <= allowed or need not in cols:
                if bad is None:
                    bad = (i, off + j, b, sorted(cols, key=str))
    if bad:
        i, byte, b, cols = bad
        rep.violation("C07.R3", cons, f.loc(i), "output byte %d (block %d) may depend on %s: blocks are mixed or mis-routed in this back end" % (byte, b, cols), cfg=cn)
    elif covered != set(range(expect_bytes)):
        miss = sorted(set(range(expect_bytes)) - covered)
        rep.violation("C07.R3", cons, fsite(f), "output bytes %s.. of the %d-byte batch are never written" % (miss[:4], expect_bytes), cfg=cn)
    else:
        rep.ok("C07.R3", cons, fsite(f), "%d output bytes: byte of block b depends only on %s b (%d stores)" % (expect_bytes, "counter lane" if lane_mode else "input/tweak block", len(L.stores)), cfg=cn)


def run_config(ctx, rep, cfg):
    cn = config_name(cfg)
    prog = ctx.prog(cfg)
    an = ctx.an(cfg)
    pubs = public_functions(ctx, prog)
    npar = 0
    for name, f, c, decl in pubs:
        if c["kind"] == "process" and "ecb" in c["params"]:
            npar += 1
            check_parallel(prog, an, rep, cn, name, f, c, decl)
            # R5 guards from the contract check
            tmp = Report("C14", "sub")
            c14.check_function(prog, an, tmp, cn, name, f, c, decl)
            for o in tmp.obs:
                if o["rule"] == "C14.R2" and o["construct"].endswith(":size"):
                    rep.add("C07.R5", o["construct"], o["status"], o["site"], o["detail"], cfg=cn)
    # R2 via C13's path enumeration
    tmp = Report("C13", "sub")
    c13.run_config(ctx, tmp, cfg)
    for o in tmp.obs:
        if o["rule"] == "C13.R6":
            rep.add("C07.R2", o["construct"], o["status"], o["site"], o["detail"], cfg=cn)
    # R3 on the optimised IR
    ship = ctx.prog(cfg, "shipinl")
    nvec = 0
    for (st, unit, g, fs) in vtable_instances(prog):
        if fs is None or len(fs) > 3:
            continue
        for fn in fs:
            if fn is None:
                continue
            sf = ship.funcs.get((fn.unit, fn.name))
            if sf is None or sf.decl:
                rep.inconclusive("C07.R3", construct(fn), fsite(fn), "function missing from the optimised IR", cfg=cn)
                continue
            ext = output_extent(prog, an, fn)
            if ext == 0:
                continue      # stub
            nvec += 1
            B = block_size(fn.name.lstrip("_"))
            check_lanes(ship, rep, cn, sf, B, len(fn.params) == 4, ext)
    return npar, nvec


from . import affine_rules


def run(ctx, rep):
    rep.assume("not decided: that the vector round functions compute the same values as the scalar ones",
               "lane analysis runs on clang's -O3 IR (helpers inlined); a may-dependency over-approximation: no false 'independent'")
    for cfg in ctx.configs():
        npar, nvec = run_config(ctx, rep, cfg)
        nlay = affine_rules.check_layout(ctx, rep, cfg)
        affine_rules.check_siblings(ctx, rep, cfg, rule="C07.R6", only=lambda f: "parallel" in f.name)
        if cfg is None:
            rep.floor("C07.R6", "block functions with input/output layout decided", nlay, 6)
            rep.floor("C07.R1", "public parallel processing functions", npar, 5)
            rep.floor("C07.R3", "vector ECB functions analysed lane-wise", nvec, 5)
        else:
            ctx.release(cfg)
