"""C07 — parallel ECB equals block-by-block ECB for every block count."""
from ..build import config_name, AnalysisBroken
from ..ir import CASTS, indirect_slot, indirect_targets
from ..lanes import Lanes
from ..summary import Analyzer
from ..initflow import lf_add, lf_const, lf_is_const, lf_str
from ..report import Report
from ..contract import block_size
from .common import public_functions, construct, fsite, handle_type, vtable_instances
from .c05 import Ctx5, loop_paths
from .c13 import output_extent
from . import c13, c14
from .c14 import state_term

TITLE = ("Structural necessary conditions of 'parallel == block by block' (values are not decided): (R1) in every loop of "
         "the six public parallel functions all cursors (output, input, Mantis tweak) advance by exactly what size "
         "decreases by, that amount is what the callee consumes (parallel_size for the vtable slot, BLOCK for the scalar "
         "tail), the callee receives the current cursors, and the loop guard is size >= that amount; (R2) the advertised "
         "parallel_size equals the bytes the selected slot target writes; (R3) lane independence on the -O3 IR of every "
         "vector ECB function: each byte stored to output block b may depend only on input block b (and tweak block b), "
         "every output byte of the batch is written; (R4) encrypt dispatches only to forward walkers, decrypt only to "
         "backward walkers (slot and scalar tail), the Mantis tail passes the tweak cursor; (R5) sizes that are not a "
         "whole number of blocks are rejected and the zero-length call succeeds without touching memory.")


class _NoTerms:
    termcache = {}


class PE(Ctx5):
    def __init__(self, f):
        self.f = f
        self.vals = {}
        self.fa = _NoTerms()

    def field(self, op):
        return None


def schedule_direction(prog, an, f):
    """'forward' / 'backward' / None: how the function walks the key schedule array."""
    s = an.summaries[f.key]
    am = s.fa.am
    for header, body in f.loops().items():
        for i in f.bbmap[header]["insts"]:
            if i["op"] != "phi" or not i["type"].endswith("*"):
                continue
            start = step = None
            for v, pb in zip(i["ops"], i["inblocks"]):
                if pb in body:
                    g = f.insts.get(v[1]) if v[0] == "i" else None
                    if g and g["op"] == "getelementptr" and g["gep"]["base"] == ["i", i["id"]] and not g["gep"]["vars"]:
                        step = g["gep"]["coff"]
                else:
                    a = am.of(v)
                    if a is not None and a.segs[-1].ty:
                        seg = a.segs[-1]
                        o = seg.off if seg.off is not None else (seg.rng[0] if seg.rng else None)
                        if o is not None and "schedule" in prog.describe(seg.ty, o):
                            start = "first" if seg.off is not None else "indexed"
            if start and step:
                if start == "first" and step > 0:
                    return "forward"
                if start == "indexed" and step < 0:
                    return "backward"
                return "odd(%s,%d)" % (start, step)
        # indexed form: schedule[index] with index counting up
    # vector functions index the schedule through a cursor as well; Mantis has no schedule array
    return None


def reached_walkers(prog, an, f, depth=0):
    """schedule walkers a function reaches, context-sensitively for function-pointer arguments:
    [(walker Func, direction)].  A driver's calls through its own parameters are resolved from the
    actual arguments at this call site, never from other callers."""
    from ..ir import resolve_fnptr
    own = schedule_direction(prog, an, f)
    if own is not None:
        return [(f, own)]
    out = []
    if depth > 2:
        return out
    for i in f.all_insts():
        if i["op"] != "call":
            continue
        c = i["callee"]
        if c[0] == "f":
            g = prog.resolve(f.unit, c[1])
            if g is None:
                continue
            d = schedule_direction(prog, an, g)
            if d is not None:
                out.append((g, d))
                continue
            # function-pointer actuals handed to a driver
            for j, o in enumerate(i["ops"]):
                if j < len(g.params) and "(" in g.params[j]["type"]:
                    ts, complete = resolve_fnptr(prog, f, o)
                    for t in ts:
                        dt = schedule_direction(prog, an, t)
                        if dt is not None:
                            out.append((t, dt))
            out += reached_walkers(prog, an, g, depth + 1)
        elif c[0] == "i":
            for t in indirect_targets(prog, f, i):
                dt = schedule_direction(prog, an, t)
                if dt is not None:
                    out.append((t, dt))
        # c[0] == "a": a call through this function's own parameter - bound by the caller's actuals above
    uniq = []
    for x in out:
        if x not in uniq:
            uniq.append(x)
    return uniq


def locate_loops(prog, an, f, decl):
    """the function that holds the data loops: f itself, or (wrapper idiom) the single library callee that
    receives f's parameters unchanged.  Returns (g, {f param idx: g param idx}, {g param idx: [Func]})."""
    from ..ir import resolve_fnptr
    if f.loops():
        return f, {k: k for k in range(len(f.params))}, {}
    calls = [i for i in f.all_insts() if i["op"] == "call" and i["callee"][0] == "f" and prog.resolve(f.unit, i["callee"][1]) is not None]
    if len(calls) != 1:
        return f, {k: k for k in range(len(f.params))}, {}
    call = calls[0]
    g = prog.resolve(f.unit, call["callee"][1])
    amap, binds = {}, {}
    for j, o in enumerate(call["ops"]):
        o2 = o
        while o2[0] == "i" and f.insts[o2[1]]["op"] in CASTS:
            o2 = f.insts[o2[1]]["ops"][0]
        if o2[0] == "a":
            amap[o2[1]] = j
        elif j < len(g.params) and "(" in g.params[j]["type"]:
            ts, complete = resolve_fnptr(prog, f, o)
            binds[j] = ts
    if not g.loops():
        return f, {k: k for k in range(len(f.params))}, {}
    return g, amap, binds


def check_parallel(prog, an, rep, cn, name, f0, c, decl):
    f, amap, binds = locate_loops(prog, an, f0, decl)
    cons = construct(f)
    P = PE(f)
    B = block_size(name)
    pidx = {p["name"]: amap[k] for k, p in enumerate(decl["params"]) if k in amap}
    if "ecb" not in pidx:
        rep.inconclusive("C07.R1", construct(f0), fsite(f0), "the object handle is not passed on to the function holding the data loops", cfg=cn)
        return
    hidx = pidx["ecb"]
    ps_t = state_term(prog, f, hidx, "parallel_size")
    am = an.summaries[f.key].fa.am
    want_dir = "forward" if name.endswith("_encrypt") else ("backward" if name.endswith("_decrypt") else None)
    nloops = 0
    for header, body in sorted(f.loops().items()):
        nloops += 1
        hphis = [i for i in f.bbmap[header]["insts"] if i["op"] == "phi"]
        for (path, kind, tgt) in loop_paths(f, header, body):
            if kind != "latch":
                continue
            env = {}
            calls = []
            for n, bb in enumerate(path):
                prev = path[n - 1] if n else None
                for i in f.bbmap[bb]["insts"]:
                    if i["op"] == "phi" and prev is not None and bb != header:
                        for v, pb in zip(i["ops"], i["inblocks"]):
                            if pb == prev:
                                env[i["id"]] = v
                    elif i["op"] == "call" and not (i.get("intrinsic") or "").startswith("llvm."):
                        calls.append(i)
            label = "%s:loop@%s" % (cons, header)
            if len(calls) != 1:
                rep.inconclusive("C07.R1", label, f.loc(f.term(header)), "%d calls in the loop body (expected one block-processing call)" % len(calls), cfg=cn)
                continue
            call = calls[0]
            # what the callee consumes
            if call["callee"][0] in ("i", "a"):
                cop = call["callee"]
                while cop[0] == "i" and f.insts[cop[1]]["op"] in CASTS:
                    cop = f.insts[cop[1]]["ops"][0]
                if cop[0] == "a" and cop[1] in binds:
                    targets = binds[cop[1]]        # function-pointer argument bound at this entry point's call
                else:
                    targets = indirect_targets(prog, f, call)
                exts = {output_extent(prog, an, g) for g in targets}
                # the loop must step by the object's parallel_size field
                consumed = None
                psz_atom = None
                for ph in hphis:
                    pass
                kind_c = "slot" if not (exts and all(e == B for e in exts)) else "scalar"
            else:
                g = prog.resolve(f.unit, call["callee"][1])
                targets = [g] if g else []
                exts = {output_extent(prog, an, g)} if g else set()
                kind_c = "scalar"
            # deltas of the loop-carried values
            deltas = {}
            for ph in hphis:
                nv = None
                for v, pb in zip(ph["ops"], ph["inblocks"]):
                    if pb == path[-1]:
                        nv = v
                if nv is None:
                    continue
                if ph["type"].endswith("*"):
                    p = P.ptr(nv, env)
                    deltas[ph["id"]] = p[1] if p is not None and p[0] == ("phi", ph["id"]) else None
                else:
                    l = P.lf(nv, env)
                    deltas[ph["id"]] = lf_add((0, ((("i", ph["id"]), 1),)), l, -1) if l is not None else None
            ptr_phis = [ph for ph in hphis if ph["type"].endswith("*")]
            int_phis = [ph for ph in hphis if not ph["type"].endswith("*")]
            ds = [deltas.get(ph["id"]) for ph in hphis]
            if any(d is None for d in ds) or len(set(ds)) != 1:
                rep.violation("C07.R1", label, f.loc(call), "loop-carried cursors move by different amounts per iteration: %s" %
                              {ph.get("name", "?"): (lf_str(deltas[ph["id"]]) if deltas.get(ph["id"]) else "?") for ph in hphis}, cfg=cn)
                continue
            d = ds[0]
            # callee receives the current cursors
            argbases = []
            for o in call["ops"]:
                if o[0] in ("i", "a"):
                    p = P.ptr(o, env)
                    if p is not None and p[0][0] == "phi":
                        argbases.append((p[0][1], p[1]))
            bad_args = [x for x in argbases if x[1] != lf_const(0)]
            missing = [ph for ph in ptr_phis if ph["id"] not in [x[0] for x in argbases]]
            # every data-buffer argument (output / input / tweak) must be a cursor of THIS loop
            bufk = {pidx[pn] for pn, sp in c["params"].items() if sp[0] == "BUF" and pn in pidx}
            hset = {ph["id"] for ph in hphis}
            stuck = []
            for o in call["ops"]:
                if o[0] not in ("i", "a"):
                    continue
                a = am.of(o)
                if a is None or a.root[0] != "arg" or a.root[1] not in bufk or len(a.segs) != 1:
                    continue
                p = P.ptr(o, env)
                if p is None or p[0][0] != "phi" or p[0][1] not in hset:
                    stuck.append(decl["params"][a.root[1]]["name"])
            if stuck:
                rep.violation("C07.R1", label + ":args", f.loc(call), "buffer `%s` is passed to the block-processing call but is not advanced in this loop: every iteration processes the same %s bytes" % (stuck[0], stuck[0]), cfg=cn)
            elif bad_args or missing:
                rep.violation("C07.R1", label + ":args", f.loc(call), "the block-processing call does not receive every current cursor at offset 0 (%s)" %
                              ("cursor `%s` is not passed" % missing[0].get("name", "?") if missing else "offset %s" % lf_str(bad_args[0][1])), cfg=cn)
            else:
                rep.ok("C07.R1", label + ":args", f.loc(call), "callee receives the %d current cursors" % len(ptr_phis), cfg=cn)
            # amount
            if kind_c == "scalar":
                if not lf_is_const(d) or exts != {d[0]} or d[0] != B:
                    rep.violation("C07.R1", label, f.loc(call), "scalar tail steps by %s but %s processes %s bytes per call (block size %d)" % (lf_str(d), [t.name for t in targets], sorted(exts), B), cfg=cn)
                else:
                    rep.ok("C07.R1", label, f.loc(call), "scalar tail: output, input%s and size all step by %d = bytes processed by %s" % (", tweak" if len(ptr_phis) == 3 else "", B, [t.name for t in targets]), cfg=cn)
                guard_need = lf_const(B)
            else:
                # d must be the value loaded from ecb->parallel_size
                okd = False
                if len(d[1]) == 1 and d[0] == 0 and d[1][0][1] == 1 and d[1][0][0][0] == "i":
                    ld = f.insts.get(d[1][0][0][1])
                    if ld is not None and ld["op"] == "load":
                        a = am.of(ld["ops"][0])
                        if a is not None and ps_t is not None and a.root == ("arg", hidx) and len(a.segs) == 1 and a.segs[0].off == ps_t[1][1][0]:
                            okd = True
                if okd:
                    rep.ok("C07.R1", label, f.loc(call), "vector loop: all cursors and size step by ecb->parallel_size (= bytes the slot target processes, R2)", cfg=cn)
                else:
                    rep.violation("C07.R1", label, f.loc(call), "vector loop steps by %s, not by the advertised parallel_size the back end processes per call" % lf_str(d), cfg=cn)
                guard_need = d
            # loop guard size >= amount
            t = f.term(header)
            gok = False
            if t["op"] == "br" and t["ops"][0][0] == "i":
                cnd = f.insts[t["ops"][0][1]]
                if cnd["op"] == "icmp" and cnd["pred"] in ("uge", "ugt"):
                    x, y = P.lf(cnd["ops"][0], {}), P.lf(cnd["ops"][1], {})
                    if int_phis and x == (0, ((("i", int_phis[0]["id"]), 1),)):
                        if cnd["pred"] == "uge" and y == guard_need:
                            gok = True
                        if cnd["pred"] == "ugt" and lf_is_const(y) and lf_is_const(guard_need) and y[0] + 1 == guard_need[0]:
                            gok = True
            if gok:
                rep.ok("C07.R1", label + ":guard", f.loc(t), "loop runs while size >= %s" % lf_str(guard_need), cfg=cn)
            else:
                rep.violation("C07.R1", label + ":guard", f.loc(t), "loop guard does not ensure size >= %s bytes remain before a call that consumes them" % lf_str(guard_need), cfg=cn)
            # R4 direction
            if want_dir:
                for g in targets:
                    dr = schedule_direction(prog, an, g)
                    inst = "%s:%s->%s" % (construct(f0), kind_c, g.name)
                    if dr == want_dir:
                        rep.ok("C07.R4", inst, f.loc(call), "%s dispatches to a %s schedule walker" % (name, dr), cfg=cn)
                    elif dr is None and not any(cs.may for cs in an.summaries[g.key].cls.values()):
                        rep.ok("C07.R4", inst, f.loc(call), "stub target (back end not compiled in)", cfg=cn)
                    else:
                        rep.violation("C07.R4", inst, f.loc(call), "%s reaches %s which walks the key schedule %s: blocks on this path are %s instead" %
                                      (name, g.name, dr, "encrypted" if dr == "forward" else "decrypted"), cfg=cn)
    if nloops != 2:
        rep.inconclusive("C07.R1", cons, fsite(f), "%d loops (expected the vector loop and the scalar tail)" % nloops, cfg=cn)
    # R5: zero-length path returns 1 and touches nothing: the only writes are inside the loops (guarded by size >= B)
    s = an.summaries[f0.key]
    cons = construct(f0)
    f = f0
    if 1 in s.retconsts and s.c("nz") is not None:
        rep.ok("C07.R5", cons + ":empty", fsite(f), "all data accesses are inside loops guarded by size >= block; size 0 falls through to return 1", cfg=cn)


def check_lanes(prog_ship, rep, cn, f, block, has_tweak, expect_bytes, lane_mode=False, elbytes=4, field_src=None, field_sink=None):
    cons = construct(f)
    if lane_mode and field_src:
        L = Lanes(f, {}, field_src=field_src, field_sink=field_sink)
    elif lane_mode:
        L = Lanes(f, {}, out_arg=0, lane_sources={1: ("ctr", elbytes)})
    else:
        srcs = {1: ("in", block)}
        if has_tweak:
            srcs[2] = ("tweak", block)
        L = Lanes(f, srcs, out_arg=0)
    if L.unknown:
        rep.inconclusive("C07.R3", cons, f.loc(L.unknown[0][0]), "lane analysis incomplete: %s" % L.unknown[0][1], cfg=cn)
        return
    covered = set()
    bad = None
    for (i, off, bs) in L.stores:
        if off is None:
            rep.inconclusive("C07.R3", cons, f.loc(i), "store to the output at a variable offset", cfg=cn)
            return
        for j, cols in enumerate(bs):
            b = (off + j) // block
            covered.add(off + j)
            allowed = {("ctr", b)} if lane_mode else ({("in", b), ("tweak", b)} if has_tweak else {("in", b)})
            need = ("ctr", b) if lane_mode else ("in", b)
            if not cols <= allowed or need not in cols:
                if bad is None:
                    bad = (i, off + j, b, sorted(cols, key=str))
    if bad:
        i, byte, b, cols = bad
        rep.violation("C07.R3", cons, f.loc(i), "output byte %d (block %d) may depend on %s: blocks are mixed or mis-routed in this back end" % (byte, b, cols), cfg=cn)
    elif covered != set(range(expect_bytes)):
        miss = sorted(set(range(expect_bytes)) - covered)
        rep.violation("C07.R3", cons, fsite(f), "output bytes %s.. of the %d-byte batch are never written" % (miss[:4], expect_bytes), cfg=cn)
    else:
        rep.ok("C07.R3", cons, fsite(f), "%d output bytes: byte of block b depends only on %s b (%d stores)" % (expect_bytes, "counter lane" if lane_mode else "input/tweak block", len(L.stores)), cfg=cn)


def run_config(ctx, rep, cfg):
    cn = config_name(cfg)
    prog = ctx.prog(cfg)
    an = ctx.an(cfg)
    pubs = public_functions(ctx, prog)
    npar = 0
    for name, f, c, decl in pubs:
        if c["kind"] == "process" and "ecb" in c["params"]:
            npar += 1
            check_parallel(prog, an, rep, cn, name, f, c, decl)
            # R5 guards from the contract check
            tmp = Report("C14", "sub")
            c14.check_function(prog, an, tmp, cn, name, f, c, decl)
            for o in tmp.obs:
                if o["rule"] == "C14.R2" and o["construct"].endswith(":size"):
                    rep.add("C07.R5", o["construct"], o["status"], o["site"], o["detail"], cfg=cn)
    # R2 via C13's path enumeration
    tmp = Report("C13", "sub")
    c13.run_config(ctx, tmp, cfg)
    for o in tmp.obs:
        if o["rule"] == "C13.R6":
            rep.add("C07.R2", o["construct"], o["status"], o["site"], o["detail"], cfg=cn)
    # R3 on the optimised IR
    ship = ctx.prog(cfg, "ship")
    nvec = 0
    for (st, unit, g, fs) in vtable_instances(prog):
        if fs is None or len(fs) > 3:
            continue
        for fn in fs:
            if fn is None:
                continue
            sf = ship.funcs.get((fn.unit, fn.name))
            if sf is None or sf.decl:
                rep.inconclusive("C07.R3", construct(fn), fsite(fn), "function missing from the optimised IR", cfg=cn)
                continue
            ext = output_extent(prog, an, fn)
            if ext == 0:
                continue      # stub
            nvec += 1
            B = block_size(fn.name.lstrip("_"))
            check_lanes(ship, rep, cn, sf, B, len(fn.params) == 4, ext)
    return npar, nvec


def run(ctx, rep):
    rep.assume("not decided: that the vector round functions compute the same values as the scalar ones",
               "lane analysis runs on clang's -O3 IR (helpers inlined); a may-dependency over-approximation: no false 'independent'")
    for cfg in ctx.configs():
        npar, nvec = run_config(ctx, rep, cfg)
        if cfg is None:
            rep.floor("C07.R1", "public parallel processing functions", npar, 5)
            rep.floor("C07.R3", "vector ECB functions analysed lane-wise", nvec, 7)
        else:
            ctx.release(cfg)
