"""Shared discovery + canonicalisation of bit-routing helpers (E7b) for C03.R3, C06.R4, C12.R3."""
from ..ir import strip_struct, cname_of
from ..routing import Routing, compose, is_identity, perm_str, TOP


def helpers(prog):
    """{(unit, name): dict(f, table (canonical: tuple of (row, bit) | 0 | 1), rows, rowbits, vector)} for every
    loop-free void function whose only parameter points to a cells union and whose effect is a pure bit routing."""
    out = {}
    for f in prog.defined():
        if len(f.params) != 1 or f.ret != "void" or not f.params[0]["type"].endswith("*"):
            continue
        st, d = strip_struct(f.params[0]["type"])
        ty = cname_of(st) if st and d == 1 else None
        t = prog.ditypes.get(ty)
        if not t or t["kind"] != "union" or f.loops():
            continue
        size = t["size"]
        r = Routing(f, size)
        if not r.ok:
            out[f.key] = {"f": f, "table": None, "rows": 4, "rowbits": 0, "vector": False, "why": r.why}
            continue
        tab = r.table()
        # vector objects: rows of 16 (or 32) bytes, one lane tracked; scalar: the whole object
        vec = any("<" in i.get("vtype", "") or "<" in i["type"] for i in f.all_insts())
        if vec:
            rows = 4
            rowbytes = size // rows
            elbits = None
            for i in f.all_insts():
                for tt in (i["type"], i.get("vtype", "")):
                    if tt.startswith("<"):
                        import re
                        m = re.match(r"<(\d+) x i(\d+)>", tt)
                        elbits = int(m.group(2))
            if not elbits:
                continue
            canon = []
            pure = True
            for row in range(rows):
                for b in range(elbits):
                    src = tab[row * rowbytes * 8 + b]
                    if src in (0, 1):
                        canon.append(src)
                    elif isinstance(src, tuple) and src[0] == "in":
                        sr, sb = src[1] // (rowbytes * 8), src[1] % (rowbytes * 8)
                        if sb >= elbits:
                            pure = False
                            canon.append(TOP)
                        else:
                            canon.append((sr, sb))
                    else:
                        pure = False
                        canon.append(TOP)
            rowbits = elbits
        else:
            rows = 4
            rowbits = size * 8 // rows
            canon = []
            pure = True
            for b in range(size * 8):
                src = tab[b]
                if src in (0, 1):
                    canon.append(src)
                elif isinstance(src, tuple) and src[0] == "in":
                    canon.append((src[1] // rowbits, src[1] % rowbits))
                else:
                    pure = False
                    canon.append(TOP)
        out[f.key] = {"f": f, "table": tuple(canon) if pure else None, "rows": rows, "rowbits": rowbits, "vector": vec}
    return out


def table_str(h):
    """cells (4-bit or 8-bit) rendering: for each output cell the input cell it is a copy of."""
    rowbits = h["rowbits"]
    cell = 8 if rowbits == 32 else 4
    out = []
    tab = h["table"]
    for k in range(0, len(tab), cell):
        chunk = tab[k:k + cell]
        if all(isinstance(x, tuple) for x in chunk) and all(chunk[j] == (chunk[0][0], chunk[0][1] + j) for j in range(cell)) and chunk[0][1] % cell == 0:
            out.append(str(chunk[0][0] * (rowbits // cell) + chunk[0][1] // cell))
        else:
            out.append("?")
    return "[" + ",".join(out) + "]"


def compose_canon(h2, h1):
    """h2 after h1 on canonical tables."""
    rb = h1["rowbits"]
    out = []
    for x in h2["table"]:
        if isinstance(x, tuple) and len(x) == 2:
            out.append(h1["table"][x[0] * rb + x[1]])
        else:
            out.append(x)
    return out


def identity_canon(tab, rowbits):
    return all(x == (k // rowbits, k % rowbits) for k, x in enumerate(tab))
