"""C09 — buffer contract: exact extents, any alignment, documented overlap."""
import re

from ..build import config_name
from ..ir import CASTS, indirect_targets
from ..mem import addr_str, may_overlap, Loc
from ..summary import Analyzer, akey, term_str, fact_str
from ..initflow import lf_add, lf_const, lf_is_const, lf_str, lf_scale
from ..contract import block_size, family, CONTRACT
from ..report import Report
from .common import public_functions, construct, fsite, csite, vtable_instances, handle_type, alloc_sites, direct_calls, alloc_object_type
from .c05 import Ctx5
from .c07 import PE
from .c13 import output_extent
from .c14 import interval
from . import c05, c07

TITLE = ("(R1) constant extents: single-block functions, vector batch functions and the unrolled pack/unpack sites touch "
         "only offsets inside [0, extent) of each buffer parameter (BLOCK, lanes x BLOCK from the contract / advertised "
         "size); (R2) every memcpy/memset with a non-constant length stays inside its fixed-size destination under the "
         "dominating length guards (no unsigned wrap), and the partial key loaders' byte reads at index+c are dominated by "
         "index+c < key_size; (R3) cursor discipline of the bulk loops (from C05.R5 / C07.R1); (R4) accesses through "
         "caller-supplied byte pointers: vector-typed ones carry align 1, and configurations without unaligned access use "
         "byte accesses only; (R5) read-all-before-write-any: in every single-block and vector batch function no load from "
         "an input/tweak parameter is reachable from a store to the output parameter (any overlap is fine); (R7) a context "
         "type whose ABI alignment exceeds calloc's guarantee is allocated through the aligning wrapper whose rounding "
         "constant covers it.")

CALLOC_ALIGN = 16


def term_lf(t):
    if t[0] == "c":
        return lf_const(t[1])
    if t[0] in ("a",):
        return (0, ((t, 1),))
    if t[0] == "v":
        return (0, ((("i", t[1]), 1),))
    if t[0] == "ld":
        return (0, ((("ld", t[1]), 1),))
    if t[0] == "bin" and t[1] in ("add", "sub"):
        x, y = term_lf(t[2]), term_lf(t[3])
        if x is None or y is None:
            return None
        return lf_add(x, y, 1 if t[1] == "add" else -1)
    if t[0] == "bin" and t[3][0] == "c":
        from ..linarith import divlike
        x = term_lf(t[2])
        if x is None:
            return None
        if t[1] in ("mul", "shl"):
            k = t[3][1] if t[1] == "mul" else 1 << t[3][1]
            return lf_scale(x, k) if k < (1 << 16) else None
        dk = divlike(t[1], t[3][1])
        if dk:
            return (0, ((("dv", dk[0], x, dk[1]), 1),))
    return None


def merge_alts(fl, atom, depth=0):
    """linear forms a phi / select value can take (merge of the arms of `n = c ? x : y`), or None.  A merge that
    depends on itself (loop-carried) is not resolved."""
    if atom[0] != "i" or depth > 4:
        return None
    f = fl.f
    ins = f.insts.get(atom[1])
    if ins is None or ins["op"] not in ("phi", "select"):
        return None
    ops = ins["ops"][1:] if ins["op"] == "select" else ins["ops"]
    out = []
    for o in ops:
        l = fl.lf(o)
        if l is None:
            return None
        if any(a == atom for (a, _k) in l[1]):
            return None
        out.append(l)
    return out or None


def lf_range(l, facts, fl=None, depth=0):
    """[min,max] of a linear form c + sum k*atom under interval facts on the atoms (None = unbounded).  With an
    InitFlow `fl`, an atom that is a phi / select merge ranges over the union of its arms."""
    lo = hi = l[0]
    for (atom, k) in l[1]:
        t = atom if atom[0] in ("a", "ld") else ("v", atom[1])
        a, b = interval(facts, t)
        alts = merge_alts(fl, atom, depth) if (fl is not None and depth < 4 and (a, b) == interval(frozenset(), t)) else None
        if alts:
            rs = [lf_range(x, facts, fl, depth + 1) for x in alts]
            if all(r[0] is not None and r[1] is not None and r[0] >= 0 for r in rs):
                a, b = min(r[0] for r in rs), max(r[1] for r in rs)
        if k > 0:
            lo += k * a
            hi = None if hi is None or b >= (1 << 32) - 1 else hi + k * b
        else:
            hi = None if hi is None else hi + k * a
            lo = None if lo is None or b >= (1 << 32) - 1 else lo + k * b
    return lo, hi


def facts_at(fa, f, inst):
    st = fa.IN.get(f.bb_of[inst["id"]])
    return st.facts if st is not None else frozenset()


def check_extents(prog, an, rep, cn, f, bufs, why):
    """bufs: {arg index: (name, extent)}"""
    s = an.summaries[f.key]
    cons = construct(f)
    for k, (pname, ext) in sorted(bufs.items()):
        worst = None
        var = None
        n = 0
        allocs = list(s.reads.values()) + [v for cs in s.cls.values() for v in cs.may.values()]
        for (loc, w) in allocs:
            a = loc.addr
            if a is None or a.root != ("arg", k) or len(a.segs) != 1:
                continue
            n += 1
            seg = a.segs[0]
            if seg.off is None:
                var = (loc, w)
            elif loc.size is None:
                var = (loc, w)
            elif seg.off < 0 or seg.off + loc.size > ext:
                if worst is None or seg.off + loc.size > worst[0]:
                    worst = (seg.off + loc.size, seg.off, loc.size, w)
        inst = "%s:%s" % (cons, pname)
        if worst:
            rep.violation("C09.R1", inst, csite(worst[3]), "%s: %d byte(s) are accessed at offset %d of `%s`, beyond its %d-byte extent (%s)" % (why, worst[2], worst[1], pname, ext, worst[3]), cfg=cn)
        elif var:
            rep.violation("C09.R1", inst, csite(var[1]), "%s: `%s` is accessed at a variable offset / length in a fixed-extent function (%s)" % (why, pname, var[1]), cfg=cn)
        elif n:
            rep.ok("C09.R1", inst, fsite(f), "%s: all %d accesses to `%s` lie in [0,%d)" % (why, n, pname, ext), cfg=cn)


def check_rw_order(prog, an, rep, cn, f, out_k, in_ks, why):
    """R5: no read of an input parameter is reachable from a write to the output parameter."""
    s = an.summaries[f.key]
    am = s.fa.am
    cons = construct(f)
    writes, reads = [], []
    for i in f.all_insts():
        if i["op"] == "store":
            a = am.of(i["ops"][1])
            if a is not None and a.root == ("arg", out_k) and len(a.segs) == 1:
                writes.append(i)
        elif i["op"] == "load":
            a = am.of(i["ops"][0])
            if a is not None and a.root[0] == "arg" and a.root[1] in in_ks and len(a.segs) == 1:
                reads.append(i)
        elif i["op"] == "call":
            targets = []
            if i["callee"][0] == "f":
                g = prog.resolve(f.unit, i["callee"][1])
                targets = [g] if g else []
                base = i.get("intrinsic") or i["callee"][1]
                if base in ("llvm.memcpy", "llvm.memmove", "llvm.memset"):
                    a = am.of(i["ops"][0])
                    if a is not None and a.root == ("arg", out_k) and len(a.segs) == 1:
                        writes.append(i)
                    if base != "llvm.memset":
                        a = am.of(i["ops"][1])
                        if a is not None and a.root[0] == "arg" and a.root[1] in in_ks and len(a.segs) == 1:
                            reads.append(i)
            for g in targets:
                gs = an.summaries[g.key]
                for j, o in enumerate(i["ops"]):
                    a = am.of(o) if o[0] in ("i", "a") else None
                    if a is None or a.root[0] != "arg" or len(a.segs) != 1:
                        continue
                    if a.root[1] == out_k and any(l.addr.root == ("arg", j) for cs in gs.cls.values() for (l, w) in cs.may.values()):
                        writes.append(i)
                    if a.root[1] in in_ks and any(l.addr.root == ("arg", j) for (l, w) in gs.reads.values()):
                        reads.append(i)
    bad = None
    for w in writes:
        wb = f.bb_of[w["id"]]
        reach = f.reachable_from(wb)
        for r in reads:
            rb = f.bb_of[r["id"]]
            after_same = False
            if rb == wb:
                seen = False
                for i in f.bbmap[wb]["insts"]:
                    if i["id"] == w["id"]:
                        seen = True
                    elif i["id"] == r["id"] and seen:
                        after_same = True
            if after_same or (rb in reach and (rb != wb or wb in f.reachable_from(wb))):
                if rb == wb and not after_same and wb not in reach:
                    continue
                bad = (w, r)
                break
        if bad:
            break
    if bad:
        rep.violation("C09.R5", cons, f.loc(bad[1]), "%s: an input byte is read (%s) after an output byte was already written (%s): with overlapping buffers the result changes" % (why, f.loc(bad[1]), f.loc(bad[0])), cfg=cn)
    elif writes and reads:
        rep.ok("C09.R5", cons, fsite(f), "%s: all %d input reads happen before the first of %d output writes" % (why, len(reads), len(writes)), cfg=cn)


def run_config(ctx, rep, cfg):
    cn = config_name(cfg)
    prog = ctx.prog(cfg)
    an = ctx.an(cfg)
    pubs = public_functions(ctx, prog)
    nfix = 0
    # ---- R1 / R5 on fixed-extent functions
    for name, f, c, decl in pubs:
        bufs = {}
        for k, p in enumerate(decl["params"]):
            sp = c["params"].get(p["name"])
            if sp and sp[0] == "BUF" and sp[1]:
                bufs[k] = (p["name"], sp[1])
        if bufs and c["kind"] == "process":
            nfix += 1
            check_extents(prog, an, rep, cn, f, bufs, "single-block function")
            ks = [k for k, (n, e) in bufs.items() if n != "output"]
            ok = [k for k, (n, e) in bufs.items() if n == "output"]
            if ok:
                check_rw_order(prog, an, rep, cn, f, ok[0], ks, "single-block function")
    for (st, unit, g, fs) in vtable_instances(prog):
        if fs is None or len(fs) > 3:
            continue
        for fn in fs:
            if fn is None:
                continue
            ext = output_extent(prog, an, fn)
            if not ext:
                continue
            nfix += 1
            bufs = {0: ("output", ext), 1: ("input", ext)}
            if len(fn.params) == 4:
                bufs[2] = ("tweak", ext)
            check_extents(prog, an, rep, cn, fn, bufs, "vector batch function (%d bytes advertised)" % ext)
            check_rw_order(prog, an, rep, cn, fn, 0, [k for k in bufs if k], "vector batch function")
    # ---- R2 bounded copies
    from ..initflow import InitFlow
    flcache = {}
    ncopy = 0
    for f in sorted(prog.defined(), key=lambda x: x.key):
        s = an.summaries[f.key]
        fa = s.fa
        P = PE(f)
        for i in f.all_insts():
            if i["op"] != "call":
                continue
            base = i.get("intrinsic") or ""
            if base not in ("llvm.memcpy", "llvm.memmove", "llvm.memset"):
                continue
            n = P.lf(i["ops"][2])
            a = fa.am.of(i["ops"][0])
            if n is None:
                continue
            if lf_is_const(n) and (a is None or a.segs[-1].off is not None):
                continue        # constant length at a constant place: covered by the extent rules
            ncopy += 1
            cons = "%s:%s@%s" % (construct(f), base.split(".")[-1], f.loc(i).split(":")[-1])
            cap = None
            off = None
            if a is not None and a.root[0] == "alloca" and len(a.segs) == 1:
                cap = f.insts[a.root[1]]["alloc_size"]
                lo_obj = 0
            elif a is not None and a.segs[-1].rng:
                lo_obj, hi_obj = a.segs[-1].rng
                cap = hi_obj - lo_obj
            if cap is None:
                rep.inconclusive("C09.R2", cons, f.loc(i), "destination capacity of a variable-length %s is not known" % base, cfg=cn)
                continue
            # destination offset as a linear form relative to the object start
            if f.key not in flcache:
                flcache[f.key] = InitFlow(f, an, track_args=True)
            dp = flcache[f.key].ptr(i["ops"][0])
            n = flcache[f.key].lf(i["ops"][2])
            if dp is None:
                rep.inconclusive("C09.R2", cons, f.loc(i), "destination offset is not a linear form", cfg=cn)
                continue
            offl = lf_add(dp[1], lf_const(lo_obj), -1)
            facts = facts_at(fa, f, i)
            lo_n, hi_n = lf_range(n, facts, flcache[f.key])
            lo_o, hi_o = lf_range(offl, facts, flcache[f.key])
            end = lf_add(offl, n)
            lo_e, hi_e = lf_range(end, facts, flcache[f.key])
            if lo_n is None or lo_n < 0 or lo_o is None or lo_o < 0 or hi_e is None or hi_e > cap:
                rep.violation("C09.R2", cons, f.loc(i), "%s of %s bytes at offset %s of a %d-byte destination is not bounded by the guards in force (%s): length range [%s,%s], end range up to %s" %
                              (base.split(".")[-1], lf_str(n), lf_str(offl), cap, sorted(fact_str(x, s.addr_reg, prog) for x in facts if x[2][0] == "c")[:4], lo_n, hi_n, hi_e), cfg=cn)
            else:
                rep.ok("C09.R2", cons, f.loc(i), "%s of %s bytes at offset %s stays inside the %d-byte destination under the dominating guards" % (base.split(".")[-1], lf_str(n), lf_str(offl), cap), cfg=cn)
    # guarded partial reads of the key loaders
    from .c10 import loader_functions
    loaders = loader_functions(prog, an, pubs)
    nguard = 0
    for f in sorted(prog.defined(), key=lambda x: x.key):
        s = an.summaries[f.key]
        fa = s.fa
        P = PE(f)
        # candidate: byte loads through an i8* parameter at a variable offset inside a loop, with a size parameter
        for i in f.all_insts():
            if i["op"] != "load" or i.get("size") != 1:
                continue
            a = fa.am.of(i["ops"][0])
            if a is None or a.root[0] != "arg" or len(a.segs) != 1 or a.segs[0].off is not None:
                continue
            k = a.root[1]
            if f.params[k]["type"] != "i8*":
                continue
            g = f.insts.get(i["ops"][0][1]) if i["ops"][0][0] == "i" else None
            if g is None or g["op"] != "getelementptr" or len(g["gep"]["vars"]) != 1 or g["gep"]["base"] != ["a", k]:
                continue
            off = lf_add(lf_const(g["gep"]["coff"]), lf_scale(P.lf(g["gep"]["vars"][0][0]), g["gep"]["vars"][0][1]))
            # only loaders with an explicit length parameter next to the pointer
            sizes = [j for j, p in enumerate(f.params) if p["type"] in ("i32", "i64") and j == k + 1]
            if not sizes or not any(True for _ in f.loops()):
                continue
            if f.key not in loaders or k not in loaders[f.key]:
                continue        # only the tweakey loaders reached from the key-setting entry points
            nguard += 1
            szt = ("a", sizes[0])
            facts = facts_at(fa, f, i)
            okb = False
            for (p, x, y) in facts:
                if y != szt or p not in ("ult", "ule"):
                    continue
                xl = term_lf(x)
                if xl is None:
                    continue
                d = lf_add(xl, off, -1)     # guard expression minus accessed offset
                if lf_is_const(d) and ((p == "ult" and d[0] >= 0) or (p == "ule" and d[0] >= 1)):
                    okb = True
            if not okb:
                # general case: linear arithmetic over the dominating guards, with the defining inequalities of
                # divisions / remainders (words = size / 4 ... key[4 * index + 3] with index < words)
                from ..linarith import prove, fact_forms, defs, canon
                lfo = lambda o: P.lf(o, {})
                cons_ = []
                for (p, x, y) in facts:
                    cons_ += fact_forms(p, canon(f, lfo, term_lf(x)), canon(f, lfo, term_lf(y)))
                goal = canon(f, lfo, lf_add(lf_add((0, ((szt, 1),)), off, -1), lf_const(1), -1))      # size - off - 1 >= 0
                cons_ += defs(cons_ + [goal])
                okb = prove(goal, cons_)
            inst = "%s:key[%s]" % (construct(f), lf_str(off))
            if okb:
                rep.ok("C09.R2", inst, f.loc(i), "byte read at %s is dominated by a guard placing it below the key length" % lf_str(off), cfg=cn)
            else:
                rep.violation("C09.R2", inst, f.loc(i), "key byte at offset %s is read without a dominating guard %s < key_size: a short key is over-read" % (lf_str(off), lf_str(off)), cfg=cn)
    # ---- R3 from C05 / C07
    tmp = Report("C05", "sub")
    c05.run_config(ctx, tmp, cfg)
    for o in tmp.obs:
        if o["rule"] in ("C05.R5", "C05.R7"):
            rep.add("C09.R3", o["construct"], o["status"], o["site"], o["detail"], cfg=cn)
    tmp = Report("C07", "sub")
    for name, f, c, decl in pubs:
        if c["kind"] == "process" and "ecb" in c["params"]:
            c07.check_parallel(prog, an, tmp, cn, name, f, c, decl)
    for o in tmp.obs:
        if o["rule"] == "C07.R1":
            rep.add("C09.R3", o["construct"], o["status"], o["site"], o["detail"], cfg=cn)
    # ---- R4 alignment
    unaligned_ok = (cfg is None) or bool(cfg.get("SKINNY_UNALIGNED"))
    nvec = nwide = 0
    for f in sorted(prog.defined(), key=lambda x: x.key):
        am = an.summaries[f.key].fa.am
        bad = None
        cnt = 0
        for i in f.all_insts():
            if i["op"] not in ("load", "store"):
                continue
            p = i["ops"][0] if i["op"] == "load" else i["ops"][1]
            a = am.of(p)
            if a is None or a.root[0] != "arg" or len(a.segs) != 1 or f.params[a.root[1]]["type"] != "i8*":
                continue
            ty = i["type"] if i["op"] == "load" else i.get("vtype", "")
            if ty.startswith("<"):
                cnt += 1
                nvec += 1
                if i.get("align", 1) != 1:
                    bad = (i, "vector access %s with alignment %d through a caller byte pointer (an aligned vector move faults on an odd address)" % (ty, i["align"]))
            elif i.get("size", 1) > 1:
                cnt += 1
                nwide += 1
                if not unaligned_ok:
                    bad = (i, "%d-byte access through a caller byte pointer in a configuration without unaligned access" % i["size"])
        if bad:
            rep.violation("C09.R4", construct(f), f.loc(bad[0]), bad[1], cfg=cn)
        elif cnt:
            rep.ok("C09.R4", construct(f), fsite(f), "%d multi-byte accesses through caller byte pointers: vector ones carry align 1, scalar ones are %s" % (cnt, "allowed (x86 unaligned configuration)" if unaligned_ok else "absent"), cfg=cn)
    # ---- R7 allocation alignment
    nal = 0
    for f in sorted(prog.defined(), key=lambda x: x.key):
        for (ci, req, exact) in alloc_sites(prog, an, f):
            ty = alloc_object_type(f, ci)
            if ty is None:
                continue
            nal += 1
            lay = prog.structs.get(f.unit, {}).get("struct." + ty)
            al = lay["align"] if lay else None
            cons = construct(f)
            callee = ci["callee"][1]
            if al is None:
                rep.inconclusive("C09.R7", cons, f.loc(ci), "alignment of %s unknown" % ty, cfg=cn)
            elif al <= CALLOC_ALIGN:
                rep.ok("C09.R7", cons, f.loc(ci), "%s needs %d-byte alignment: within calloc's guarantee" % (ty, al), cfg=cn)
            elif exact:
                rep.violation("C09.R7", cons, f.loc(ci), "%s needs %d-byte alignment but is allocated with %s, which guarantees only %d: aligned vector accesses to the context fault" % (ty, al, callee, CALLOC_ALIGN), cfg=cn)
            else:
                g = prog.resolve(f.unit, callee)
                gs = an.summaries[g.key]
                slack = 0
                for (iid, fn, sz, w) in gs.allocs:
                    def consts(t):
                        if t[0] == "c":
                            return [t[1]]
                        if t[0] == "bin":
                            return consts(t[2]) + consts(t[3])
                        return []
                    slack = max([x for x in consts(sz) if x > 1] + [0])
                if slack + 1 >= al:
                    rep.ok("C09.R7", cons, f.loc(ci), "%s needs %d-byte alignment: %s over-allocates by %d and rounds up" % (ty, al, callee, slack), cfg=cn)
                else:
                    rep.violation("C09.R7", cons, f.loc(ci), "%s needs %d-byte alignment but %s only reserves %d slack bytes" % (ty, al, callee, slack), cfg=cn)
    return nfix, ncopy, nguard, nvec, nal


def run(ctx, rep):
    rep.assume("the caller's buffers have the sizes the contract states (one block, size bytes, key_size bytes)",
               "x86 has no alignment requirement for scalar accesses; aligned vector moves fault on misaligned addresses",
               "results-independent-of-alignment follows from R4: the same instructions run whatever the address")
    for cfg in ctx.configs():
        nfix, ncopy, nguard, nvec, nal = run_config(ctx, rep, cfg)
        if cfg is None:
            rep.floor("C09.R1", "fixed-extent functions", nfix, 8)
            rep.floor("C09.R2", "variable-length copies", ncopy, 10)
            rep.floor("C09.R2", "guarded partial key reads", nguard, 2)
            rep.floor("C09.R4", "vector accesses through caller pointers", nvec, 8)
            rep.floor("C09.R7", "typed allocation sites", nal, 6)
        else:
            ctx.release(cfg)
