"""C17 — cleanup erases all key-dependent state before releasing it."""
from ..build import config_name
from ..ir import CASTS
from ..mem import Loc, may_overlap, addr_str
from ..summary import Analyzer, akey
from .common import (construct, fsite, csite, direct_calls, init_cleanup_pairs, alloc_sites,
                     alloc_object_type, _c)

TITLE = ("Typestate/dominance check at every free() in the library: (R1) the freed block is the object a wipe call "
         "zeroes, the wipe dominates the free and nothing writes the object in between (a release helper that wipes one parameter and frees through another is checked at its call sites); (R2) wipe length = allocation "
         "request of the paired init = DataLayout size of the context type (three numbers from three places); (R3) the "
         "wipe primitive is a volatile zero-store loop whose trip count is its length argument, or several such loops (word loop + byte tail) whose stored intervals chain to exactly [ptr, ptr+len) on every path under W*(n/W)+(n&(W-1))=n; (R4) a pointer that "
         "lives inside the wiped object (base_ptr) is loaded before the wipe; (R5) in the -O3 IR of the shipped build the "
         "volatile stores survive, cover the same length and still precede free().")

WIPE_PRIMS = {"memset_s": (0, 2), "explicit_bzero": (0, 1), "OPENSSL_cleanse": (0, 1)}


def wipe_info_single(f):
    """(ptr_arg, len_arg) when f is a volatile byte-zeroing loop over exactly len bytes from ptr; else (None, why)."""
    stores = [i for i in f.all_insts() if i["op"] == "store"]
    calls = [i for i in f.all_insts() if i["op"] == "call" and not str(i.get("intrinsic", "")).startswith("llvm.dbg")]
    if calls:
        if len(calls) == 1 and calls[0]["callee"][0] == "f" and calls[0]["callee"][1] in WIPE_PRIMS and not stores:
            pa, la = WIPE_PRIMS[calls[0]["callee"][1]]
            a, b = calls[0]["ops"][pa], calls[0]["ops"][la]
            if a[0] == "a" and b[0] == "a":
                return (a[1], b[1]), "forwards to %s" % calls[0]["callee"][1]
        return None, "contains calls"
    if len(stores) != 1:
        return None, "%d stores" % len(stores)
    st = stores[0]
    if not st.get("volatile"):
        return None, "store is not volatile"
    v = st["ops"][0]
    if v[0] != "c" or int(v[1]) != 0:
        return None, "stored value is not the constant 0"
    loops = f.loops()
    if len(loops) != 1:
        return None, "%d loops" % len(loops)
    header, body = next(iter(loops.items()))
    if f.bb_of[st["id"]] not in body:
        return None, "store outside the loop"
    # index form:  for (i = 0; i < size; ++i) p[i] = 0;
    p = st["ops"][1]
    while p[0] == "i" and f.insts[p[1]]["op"] in CASTS:
        p = f.insts[p[1]]["ops"][0]
    if p[0] == "i" and f.insts[p[1]]["op"] == "getelementptr":
        g = f.insts[p[1]]["gep"]
        b = g["base"]
        while b[0] == "i" and f.insts[b[1]]["op"] in CASTS:
            b = f.insts[b[1]]["ops"][0]
        if b[0] == "a" and len(g["vars"]) == 1 and g["coff"] == 0 and g["vars"][0][1] == st["size"] == 1:
            iv = g["vars"][0][0]
            while iv[0] == "i" and f.insts[iv[1]]["op"] in ("zext", "sext"):
                iv = f.insts[iv[1]]["ops"][0]
            t = f.term(header)
            if iv[0] == "i" and f.insts[iv[1]]["op"] == "phi" and f.bb_of[iv[1]] == header and t["op"] == "br" and t["ops"][0][0] == "i":
                phi = f.insts[iv[1]]
                start = step = None
                for v, pb in zip(phi["ops"], phi["inblocks"]):
                    if pb in body:
                        bi = f.insts.get(v[1]) if v[0] == "i" else None
                        if bi and bi["op"] == "add" and bi["ops"][0] == ["i", phi["id"]] and bi["ops"][1][0] == "c":
                            step = int(bi["ops"][1][1])
                    elif v[0] == "c":
                        start = int(v[1])
                c = f.insts[t["ops"][0][1]]
                if start == 0 and step == 1 and c["op"] == "icmp" and c["pred"] in ("ult", "ne") and c["ops"][0] == ["i", phi["id"]] and c["ops"][1][0] == "a" \
                        and t["succs"][0] in body and not any(s not in body for bb in body if bb != header for s in f.succs[bb]):
                    return (b[1], c["ops"][1][1]), "volatile byte loop (index form)"
        return None, "store address is not a recognised loop cursor"
    # pointer cursor
    if p[0] != "i" or f.insts[p[1]]["op"] != "phi":
        return None, "store address is not a loop cursor"
    pphi = f.insts[p[1]]
    parg, pstep = None, None
    for o in pphi["ops"]:
        o2 = o
        while o2[0] == "i" and f.insts[o2[1]]["op"] in CASTS:
            o2 = f.insts[o2[1]]["ops"][0]
        if o2[0] == "a":
            parg = o2[1]
        elif o2[0] == "i" and f.insts[o2[1]]["op"] == "getelementptr":
            g = f.insts[o2[1]]["gep"]
            if g["base"] == ["i", pphi["id"]] and not g["vars"]:
                pstep = g["coff"]
    if parg is None or pstep != st["size"]:
        return None, "cursor does not advance by the store size"
    # exit condition: counter phi from an argument, decremented by 1, loop left when it is 0
    t = f.term(header)
    if t["op"] != "br" or len(t["succs"]) != 2:
        return None, "loop header does not test the counter"
    c = f.insts[t["ops"][0][1]] if t["ops"][0][0] == "i" else None
    if not c or c["op"] != "icmp" or c["pred"] not in ("ugt", "ne") or c["ops"][1][0] != "c" or int(c["ops"][1][1]) != 0:
        return None, "loop condition is not `count > 0`"
    cp = c["ops"][0]
    if cp[0] != "i" or f.insts[cp[1]]["op"] != "phi":
        return None, "loop counter is not a phi"
    cphi = f.insts[cp[1]]
    carg, cdec = None, None
    for o in cphi["ops"]:
        if o[0] == "a":
            carg = o[1]
        elif o[0] == "i" and f.insts[o[1]]["op"] in ("add", "sub"):
            b = f.insts[o[1]]
            if b["ops"][0] == ["i", cphi["id"]] and b["ops"][1][0] == "c":
                k = int(b["ops"][1][1])
                bits = b.get("bits", 64)
                if b["op"] == "add":
                    k = (1 << bits) - k if k > (1 << (bits - 1)) else -k
                cdec = k
    if carg is None or cdec != 1 or st["size"] != 1:
        return None, "counter is not decremented once per stored byte"
    # loop has a single exit (the header test)
    for b in body:
        for s in f.succs[b]:
            if s not in body and b != header:
                return None, "loop has a second exit"
    if t["succs"][0] not in body:
        return None, "loop continues on the false edge"
    return (parg, carg), "volatile byte loop"


def _wlf_add(a, b, k=1):
    d = dict(a[1])
    for s_, c in b[1]:
        d[s_] = d.get(s_, 0) + k * c
    return (a[0] + k * b[0], tuple(sorted(((s_, c) for s_, c in d.items() if c), key=repr)))


def _wlf_norm(a):
    """W*(n / W) + (n & (W-1)) == n for a power of two W (the only identity the word-wise wipes need)."""
    d = dict(a[1])
    for s_ in list(d):
        if s_[0] == "div" and s_ in d:
            _, k, w = s_
            m = ("and", k, w - 1)
            c = d[s_]
            if w > 0 and w & (w - 1) == 0 and c % w == 0 and d.get(m) == c // w:
                t = c // w
                del d[s_]
                del d[m]
                d[("a", k)] = d.get(("a", k), 0) + t
    return (a[0], tuple(sorted(((s_, c) for s_, c in d.items() if c), key=repr)))


def _wlf_str(a):
    def atom(s_):
        return "P%d" % s_[1] if s_[0] == "a" else ("(P%d/%d)" % (s_[1], s_[2]) if s_[0] == "div" else ("(P%d&%d)" % (s_[1], s_[2]) if s_[0] == "and" else str(s_)))
    parts = ["%s%s" % ("" if c == 1 else "%d*" % c, atom(s_)) for s_, c in a[1]]
    if a[0] or not parts:
        parts.append(str(a[0]))
    return "+".join(parts)


def wipe_info_multi(f):
    """Several volatile zero-store loops in sequence (a word loop followed by a byte tail, with or without an
    alignment guard): on EVERY path through the loop-collapsed CFG the stored intervals, as linear forms over
    the parameters with the atoms n/W and n&M, must join to exactly [ptr, ptr+len).  Returns like wipe_info."""
    insts = list(f.all_insts())
    stores = [i for i in insts if i["op"] == "store"]
    if any(i["op"] == "call" and not str(i.get("intrinsic", "")).startswith("llvm.dbg") for i in insts):
        return None, "contains calls"
    loops = f.loops()
    if not loops or len(loops) > 4:
        return None, "%d loops" % len(loops)
    hs = list(loops)
    for x in hs:
        for y in hs:
            if x != y and loops[x] & loops[y]:
                return None, "nested or overlapping loops"
    # per loop: (cursor phi, width, counter phi, cursor init operand, counter init operand, exit block)
    L = {}
    for h, body in loops.items():
        ss = [st for st in stores if f.bb_of[st["id"]] in body]
        if len(ss) != 1:
            return None, "a loop with %d stores" % len(ss)
        st = ss[0]
        if not st.get("volatile"):
            return None, "store is not volatile"
        if st["ops"][0][0] != "c" or int(st["ops"][0][1]) != 0:
            return None, "stored value is not the constant 0"
        pp = st["ops"][1]
        if pp[0] != "i" or f.insts[pp[1]]["op"] != "phi" or f.bb_of[pp[1]] != h:
            return None, "store address is not a loop cursor"
        pphi = f.insts[pp[1]]
        c0 = pstep = None
        for o, pb in zip(pphi["ops"], pphi["inblocks"]):
            if pb in body:
                gi = f.insts.get(o[1]) if o[0] == "i" else None
                if gi and gi["op"] == "getelementptr" and gi["gep"]["base"] == ["i", pphi["id"]] and not gi["gep"]["vars"]:
                    pstep = gi["gep"]["coff"]
            else:
                c0 = o
        if c0 is None or pstep != st["size"]:
            return None, "cursor does not advance by the store size"
        t = f.term(h)
        if t["op"] != "br" or len(t["succs"]) != 2 or t["ops"][0][0] != "i":
            return None, "loop header does not test the counter"
        c = f.insts[t["ops"][0][1]]
        if c["op"] != "icmp" or c["pred"] not in ("ugt", "ne") or c["ops"][1][0] != "c" or int(c["ops"][1][1]) != 0:
            return None, "loop condition is not `count > 0`"
        cp = c["ops"][0]
        if cp[0] != "i" or f.insts[cp[1]]["op"] != "phi" or f.bb_of[cp[1]] != h:
            return None, "loop counter is not a phi"
        cphi = f.insts[cp[1]]
        n0 = cdec = None
        for o, pb in zip(cphi["ops"], cphi["inblocks"]):
            if pb in body:
                bi = f.insts.get(o[1]) if o[0] == "i" else None
                if bi and bi["op"] in ("add", "sub") and bi["ops"][0] == ["i", cphi["id"]] and bi["ops"][1][0] == "c":
                    k = int(bi["ops"][1][1])
                    bits = bi.get("bits", 64)
                    if bi["op"] == "add":
                        k = (1 << bits) - k if k > (1 << (bits - 1)) else -k
                    cdec = k
            else:
                n0 = o
        if n0 is None or cdec != 1:
            return None, "counter is not decremented once per store"
        if t["succs"][0] not in body or t["succs"][1] in body:
            return None, "loop continues on the false edge"
        for b in body:
            for s_ in f.succs[b]:
                if s_ not in body and b != h:
                    return None, "loop has a second exit"
        if any(len(f.succs[b]) != 1 for b in body if b != h):
            return None, "the loop body branches: the store is not executed on every iteration"
        L[h] = (pphi["id"], st["size"], cphi["id"], c0, n0, t["succs"][1])
    if any(f.bb_of[st["id"]] not in set().union(*loops.values()) for st in stores):
        return None, "store outside the loops"
    ptr_args = set()

    def ev(op, env, depth=0):
        """('p', arg, lf) pointer into parameter arg / ('n', lf) number / None"""
        if depth > 24:
            return None
        if op[0] == "c":
            return ("n", (int(op[1]), ()))
        if op[0] == "a":
            ty = f.params[op[1]]["type"]
            return ("p", op[1], (0, ())) if ty.endswith("*") else ("n", (0, ((("a", op[1]), 1),)))
        if op[0] != "i":
            return None
        if op[1] in env:
            return env[op[1]]
        i = f.insts[op[1]]
        o = i["op"]
        if o in CASTS or o in ("zext",):
            return ev(i["ops"][0], env, depth + 1)
        if o == "getelementptr":
            b = ev(i["gep"]["base"], env, depth + 1)
            if b is None or b[0] != "p":
                return None
            off = _wlf_add(b[2], (i["gep"]["coff"], ()))
            for (v, sc) in i["gep"]["vars"]:
                x = ev(v, env, depth + 1)
                if x is None or x[0] != "n":
                    return None
                off = _wlf_add(off, x[1], sc)
            return ("p", b[1], off)
        if o in ("udiv", "lshr", "and"):
            x = i["ops"][0]
            k = i["ops"][1]
            if x[0] == "a" and k[0] == "c" and not f.params[x[1]]["type"].endswith("*"):
                kv = int(k[1])
                if o == "udiv" and kv > 0:
                    return ("n", (0, ((("div", x[1], kv), 1),)))
                if o == "lshr" and kv < 32:
                    return ("n", (0, ((("div", x[1], 1 << kv), 1),)))
                if o == "and":
                    return ("n", (0, ((("and", x[1], kv), 1),)))
            return None
        if o in ("add", "sub"):
            a, b = ev(i["ops"][0], env, depth + 1), ev(i["ops"][1], env, depth + 1)
            if a and b and a[0] == b[0] == "n":
                return ("n", _wlf_add(a[1], b[1], 1 if o == "add" else -1))
            return None
        return None

    paths = []
    exitof = {h: L[h][5] for h in L}

    def walk(b, prev, env, ivs, seen):
        if len(paths) > 64:
            return
        env = dict(env)
        if b in L:
            cur, w, cnt, c0, n0, ex = L[b]
            a, n = ev(c0, env), ev(n0, env)
            if a is None or a[0] != "p" or n is None or n[0] != "n":
                paths.append(("?", "loop at %s: start %s or trip count %s is not a linear form of the parameters" % (b, c0, n0)))
                return
            hi = _wlf_add(a[2], n[1], w)
            ivs = ivs + [(a[1], a[2], hi)]
            env[cur] = ("p", a[1], hi)
            env[cnt] = ("n", (0, ()))
            # other header phis are not modelled
            return walk(ex, b, env, ivs, seen | {b})
        for i in f.bbmap[b]["insts"]:
            if i["op"] != "phi":
                break
            v = None
            for o, pb in zip(i["ops"], i["inblocks"]):
                if pb == prev:
                    v = ev(o, env)
            if v is not None:
                env[i["id"]] = v
        t = f.term(b)
        if t["op"] == "ret":
            paths.append(("ret", ivs))
            return
        for s_ in f.succs[b]:
            if s_ in seen:
                paths.append(("?", "cycle outside the recognised loops at %s" % s_))
                return
            walk(s_, b, env, ivs, seen | {b})

    walk(f.entry, None, {}, [], set())
    if not paths:
        return None, "no path to a return"
    plen = [k for k, p_ in enumerate(f.params) if not p_["type"].endswith("*")]
    res = None
    for kind, ivs in paths:
        if kind == "?":
            return None, ivs
        args = {a for a, _, _ in ivs}
        if len(args) != 1:
            return None, "a path stores nothing" if not args else "stores through more than one parameter"
        pa = next(iter(args))
        rs = sorted(((lo, hi) for _, lo, hi in ivs), key=lambda r: (r[0] != (0, ()), repr(r)))
        # chain from offset 0
        end = (0, ())
        rest = list(rs)
        prog_ = True
        while prog_ and rest:
            prog_ = False
            for r in rest:
                if _wlf_norm(r[0]) == _wlf_norm(end):
                    end = r[1]
                    rest.remove(r)
                    prog_ = True
                    break
        end = _wlf_norm(end)
        ok = [k for k in plen if end == (0, ((("a", k), 1),))]
        if not ok or rest:
            return None, "on some path the %d zero-store loops cover [P%d, P%d + %s)%s, not the whole length" % (
                len(ivs), pa, pa, _wlf_str(end), " plus detached pieces" if rest else "")
        if res is not None and res != (pa, ok[0]):
            return None, "paths disagree on the wiped object"
        res = (pa, ok[0])
    return res, "%d volatile zero-store loops joining to [ptr, ptr+len) on all %d paths" % (len(L), len(paths))


def wipe_info(f):
    r = wipe_info_single(f)
    if r[0] is None and isinstance(r[1], str) and (r[1].endswith(" stores") or r[1].endswith(" loops")):
        m = wipe_info_multi(f)
        if m[0] is not None or "cover" in m[1]:
            return m
    return r


def o3_wipe_extent(f, free_inst):
    """bytes provably zeroed by volatile stores in loops/straight-line code dominating free_inst in optimised IR."""
    total = 0
    loops = f.loops()
    seen_loop = set()
    vstores = [i for i in f.all_insts() if i["op"] == "store" and i.get("volatile") and i["ops"][0][0] == "c" and int(i["ops"][0][1]) == 0]
    details = []
    for header, body in loops.items():
        ss = [s for s in vstores if f.bb_of[s["id"]] in body]
        if not ss:
            continue
        # all exits of the loop must lead to... we only need: loop dominates free
        if header not in f.dom().get(f.bb_of[free_inst["id"]], set()):
            # a wipe loop on only SOME paths to this free (an alignment-guarded word loop): summing the
            # dominating loops alone would under-count, so the shape is reported as not modelled
            fb, seen, todo = f.bb_of[free_inst["id"]], {header}, [header]
            while todo:
                for s_ in f.succs[todo.pop()]:
                    if s_ not in seen:
                        seen.add(s_)
                        todo.append(s_)
            if fb in seen:
                details.append("loop at %s zeroes memory on some paths to the free() only (guarded wipe loop): per-path extents are not modelled" % header)
                return None, details
            continue
        # counter: phi with constant start N, decremented by k, exit when 0
        N = k = None
        for i in f.bbmap[header]["insts"]:
            if i["op"] != "phi" or i["type"].endswith("*"):
                continue
            start = [o for o in i["ops"] if o[0] == "c"]
            steps = [o for o in i["ops"] if o[0] == "i"]
            if len(start) == 1 and len(steps) == 1:
                b = f.insts[steps[0][1]]
                if b["op"] == "add" and b["ops"][0] == ["i", i["id"]] and b["ops"][1][0] == "c":
                    kk = int(b["ops"][1][1])
                    bits = b.get("bits", 64)
                    kk = kk - (1 << bits) if kk > (1 << (bits - 1)) else kk     # signed step
                    # loop exit compares this value with a constant: trip bytes = |bound - start|
                    uses = f.uses().get(b["id"], []) + f.uses().get(i["id"], [])
                    for u in uses:
                        ui = f.insts[u]
                        if ui["op"] == "icmp" and ui["ops"][1][0] == "c" and ui["pred"] in ("eq", "ne"):
                            bound = int(ui["ops"][1][1])
                            s0 = int(start[0][1])
                            if kk != 0 and (bound - s0) % kk == 0 and (bound - s0) // kk > 0:
                                N, k = abs(bound - s0), abs(kk)
        offs = set()
        bytes_per_iter = 0
        for s in ss:
            bytes_per_iter += s["size"]
        if N is None or k is None or k <= 0:
            details.append("loop at %s: counter shape not recognised" % header)
            return None, details
        if k != bytes_per_iter or N % k != 0:
            details.append("loop at %s: %d bytes stored per iteration but counter steps by %d from %d" % (header, bytes_per_iter, k, N))
            return None, details
        total += N
        seen_loop |= body
        details.append("loop %s: %d iterations x %d volatile zero bytes" % (header, N // k, k))
    # straight-line volatile stores outside loops that dominate the free
    for s in vstores:
        if f.bb_of[s["id"]] in seen_loop:
            continue
        if any(f.bb_of[s["id"]] in body for body in loops.values()):
            continue
        if f.inst_dominates(s["id"], free_inst["id"]):
            total += s["size"]
        else:
            fb, sb = f.bb_of[free_inst["id"]], f.bb_of[s["id"]]
            seen, todo = {sb}, [sb]
            while todo:
                for s_ in f.succs[todo.pop()]:
                    if s_ not in seen:
                        seen.add(s_)
                        todo.append(s_)
            if fb in seen and fb != sb:
                details.append("volatile zero store in %s lies on some paths to the free() only (guarded wipe): per-path extents are not modelled" % sb)
                return None, details
    return total, details


def run_config(ctx, rep, cfg):
    cn = config_name(cfg)
    prog = ctx.prog(cfg)
    an = ctx.an(cfg)
    nfree = 0
    wipes_checked = {}
    expected_by_fn = {}
    pairs = init_cleanup_pairs(prog, an)
    pair_of = {}
    for (key, inits, cleans) in pairs:
        for c in cleans:
            pair_of[c.key] = inits
    from ..summary import FuncAnalysis
    # release helpers: wipe(param i, param l) dominating free(something fetched through another parameter j).
    # Whether the freed block is the wiped object is only visible where the helper is called, so such a helper
    # is checked at each of its call sites with the actual arguments.
    helper_info = {}
    for f in sorted(prog.defined(), key=lambda x: x.key):
        frees = list(direct_calls(f, {"free"}))
        if len(frees) != 1:
            continue
        fr = frees[0]
        am0 = an.summaries[f.key].fa.am
        for c in direct_calls(f):
            g = prog.resolve(f.unit, c["callee"][1])
            if g is None or not f.inst_dominates(c["id"], fr["id"]):
                continue
            if g.key not in wipes_checked:
                wipes_checked[g.key] = wipe_info(g)
            info, why = wipes_checked[g.key]
            if not info:
                continue
            pa_op, la_op = c["ops"][info[0]], c["ops"][info[1]]
            while pa_op[0] == "i" and f.insts[pa_op[1]]["op"] in CASTS:
                pa_op = f.insts[pa_op[1]]["ops"][0]
            while la_op[0] == "i" and f.insts[la_op[1]]["op"] in CASTS | {"zext", "sext", "trunc"}:
                la_op = f.insts[la_op[1]]["ops"][0]
            Af0 = am0.of(fr["ops"][0])
            if pa_op[0] == "a" and la_op[0] == "a" and Af0 is not None and Af0.root[0] == "arg" and Af0.root[1] != pa_op[1]:
                b = fr["ops"][0]
                while b[0] == "i" and f.insts[b[1]]["op"] in CASTS:
                    b = f.insts[b[1]]["ops"][0]
                ld = f.insts[b[1]] if b[0] == "i" else None
                helper_info[f.key] = {"pa": pa_op[1], "la": la_op[1], "wipe": c, "free": fr,
                                      # the freed pointer arrives by value: whatever the caller loaded before the call
                                      "by_value": b[0] == "a",
                                      "load_before": bool(b[0] == "a" or (ld is not None and ld["op"] == "load" and f.inst_dominates(ld["id"], c["id"])))}
    for f in sorted(prog.defined(), key=lambda x: x.key):
        frees = [("direct", fr, None) for fr in direct_calls(f, {"free"})]
        if f.key in helper_info:
            hi = helper_info[f.key]
            nfree += 1
            users = [g2.name for g2 in prog.defined() if any(prog.resolve(g2.unit, c["callee"][1]) is f for c in direct_calls(g2))]
            if users:
                rep.ok("C17.R1", construct(f), f.loc(hi["free"]), "release helper: wipes P%d for P%d bytes before free(); the freed block is matched against the wiped object at its %d callers" % (hi["pa"], hi["la"], len(users)), cfg=cn)
            frees = []
        for c in direct_calls(f):
            g = prog.resolve(f.unit, c["callee"][1])
            if g is not None and g.key in helper_info:
                frees.append(("helper", c, g))
        if not frees:
            continue
        fa = None
        for (fkind, fr, hg) in frees:
            nfree += 1
            cons = construct(f)
            site = f.loc(fr)
            if fa is None:
                fa = FuncAnalysis(f, an)
            am = fa.am
            Af_given = None
            if fkind == "helper":
                for ent in an.summaries[f.key].frees:
                    if ent[0] == fr["id"]:
                        Af_given = ent[2]
            # candidate wipe calls
            wipes = []
            if fkind == "helper":
                hi = helper_info[hg.key]
                wipes.append((fr, hi["pa"], hi["la"], hg))
            for c in direct_calls(f):
                g = prog.resolve(f.unit, c["callee"][1])
                if g is None:
                    if c["callee"][1] in WIPE_PRIMS:
                        pa, la = WIPE_PRIMS[c["callee"][1]]
                        wipes.append((c, pa, la, None))
                    continue
                if g.key not in wipes_checked:
                    wipes_checked[g.key] = wipe_info(g)
                info, why = wipes_checked[g.key]
                if info:
                    wipes.append((c, info[0], info[1], g))
            dom_wipes = [w for w in wipes if w[0]["id"] == fr["id"] or f.inst_dominates(w[0]["id"], fr["id"])]
            if not dom_wipes:
                # near miss: a dominating call that is handed the freed object (or the object holding the
                # freed base pointer) and writes it, but is not a wipe primitive -> the primitive is broken (R3)
                Af0 = am.of(fr["ops"][0]) if fkind == "direct" else Af_given
                near = None
                for c in direct_calls(f):
                    g = prog.resolve(f.unit, c["callee"][1])
                    if g is None or not f.inst_dominates(c["id"], fr["id"]):
                        continue
                    info, why = wipes_checked.get(g.key, (None, ""))
                    if info:
                        continue
                    for a in c["ops"]:
                        Aa = am.of(a) if a[0] in ("i", "a") else None
                        if Aa is None or Af0 is None or Aa.root != Af0.root:
                            continue
                        if akey(Aa) == akey(Af0) or (len(Af0.segs) == len(Aa.segs) + 1 and akey(Aa)[1][:-1] == akey(Af0)[1][:len(Aa.segs) - 1]):
                            s2 = an.summaries[g.key]
                            if any(cs.may for cs in s2.cls.values()):
                                near = (g, why)
                if near:
                    rep.violation("C17.R3", construct(near[0]), fsite(near[0]),
                                  "%s is used as the wipe before free() at %s but is not a wipe primitive: %s" % (near[0].name, site, near[1]), cfg=cn)
                else:
                    rep.violation("C17.R1", cons, site, "free() is not dominated by a wipe of the freed object", cfg=cn)
                continue
            w, pa, la, g = dom_wipes[-1]
            Aw = am.of(w["ops"][pa])
            Af = am.of(fr["ops"][0]) if fkind == "direct" else Af_given
            wl = _c(f, w["ops"][la])
            same = Aw is not None and Af is not None and akey(Aw) == akey(Af)
            inside = False
            if not same and Aw is not None and Af is not None and Af.root == Aw.root and len(Af.segs) == len(Aw.segs) + 1:
                pre = Af.segs[:-1]
                if akey(type(Aw)(Aw.root, pre[:-1] + (Aw.segs[-1],))) == akey(Aw) and pre[-1].off is not None and \
                        Aw.segs[-1].off is not None and Aw.segs[-1].off <= pre[-1].off:
                    inside = True      # a pointer stored in the object the wipe starts at (length is R2's business)
            if not same and not inside:
                rep.violation("C17.R1", cons, site, "the block handed to free() (%s) is not the object that was wiped (%s)" %
                              (addr_str(Af, prog), addr_str(Aw, prog)), cfg=cn)
                continue
            # intervening writes
            bad = None
            wobj = Loc(Aw, wl)
            for i in f.all_insts():
                if i["id"] in (w["id"], fr["id"]):
                    continue
                if not (f.inst_dominates(w["id"], i["id"]) and f.inst_dominates(i["id"], fr["id"])):
                    continue
                if i["op"] == "store":
                    a = am.of(i["ops"][1])
                    if a is None or may_overlap(Loc(a, i["size"]), wobj):
                        bad = i
                elif i["op"] == "call" and i["callee"][0] == "f":
                    gg = prog.resolve(f.unit, i["callee"][1])
                    base = i.get("intrinsic") or i["callee"][1]
                    if base in ("llvm.memcpy", "llvm.memset", "llvm.memmove", "memcpy", "memset"):
                        a = am.of(i["ops"][0])
                        if a is None or may_overlap(Loc(a, None), wobj):
                            bad = i
                    elif gg is not None:
                        s2 = an.summaries[gg.key]
                        if any(cs.may for cs in s2.cls.values()):
                            bad = i
            if bad is not None:
                rep.violation("C17.R1", cons, f.loc(bad), "the wiped object is written again between the wipe and free()", cfg=cn)
            else:
                rep.ok("C17.R1", cons, site, "wipe at %s dominates free(); freed block %s the wiped object %s" %
                       (f.loc(w), "is" if same else "is the base pointer stored inside", addr_str(Aw, prog)), cfg=cn)
            # R4
            if inside and fkind == "helper":
                if helper_info[hg.key].get("by_value"):
                    rep.ok("C17.R4", cons, site, "the base pointer %s is loaded here and handed to %s by value, before that helper wipes" % (addr_str(Af, prog), hg.name), cfg=cn)
                elif helper_info[hg.key]["load_before"]:
                    rep.ok("C17.R4", cons, site, "%s loads the base pointer %s before it wipes" % (hg.name, addr_str(Af, prog)), cfg=cn)
                else:
                    rep.violation("C17.R4", cons, site, "%s reads the base pointer %s after the wipe zeroed it: free() receives NULL and the block leaks" % (hg.name, addr_str(Af, prog)), cfg=cn)
            elif inside:
                b = fa.base_value(fr["ops"][0]) if False else fr["ops"][0]
                while b[0] == "i" and f.insts[b[1]]["op"] in CASTS:
                    b = f.insts[b[1]]["ops"][0]
                ld = f.insts[b[1]] if b[0] == "i" else None
                if ld is None or ld["op"] != "load":
                    rep.inconclusive("C17.R4", cons, site, "free() argument is not a plain load of the base-pointer field", cfg=cn)
                elif f.inst_dominates(ld["id"], w["id"]):
                    rep.ok("C17.R4", cons, f.loc(ld), "base pointer %s loaded before the wipe" % addr_str(Af, prog), cfg=cn)
                else:
                    rep.violation("C17.R4", cons, f.loc(ld), "base pointer %s is read after the wipe zeroed it: free() receives NULL and the block leaks unwiped-free" % addr_str(Af, prog), cfg=cn)
            # R2
            inits = pair_of.get(f.key, [])
            ctype = Aw.segs[-1].ty if Aw is not None else None
            if not inits or not any(alloc_sites(prog, an, ini) for ini in inits):
                # a release helper whose parameter is the context itself: pair it with whoever in this unit
                # allocates an object of that type
                from .common import handle_type
                want = ctype or handle_type(f)
                inits = [g2 for g2 in prog.defined() if g2.unit == f.unit and
                         any(alloc_object_type(g2, ci) == want for (ci, rq, ex) in alloc_sites(prog, an, g2))] if want else []
            req = None
            ainfo = []
            for ini in inits:
                for (ci, rq, exact) in alloc_sites(prog, an, ini):
                    ainfo.append((ini, ci, rq))
                    ctype = ctype or alloc_object_type(ini, ci)
            if not ainfo:
                rep.inconclusive("C17.R2", cons, site, "no paired init (same unit, same handle type) with an allocation found", cfg=cn)
            else:
                tsize = prog.ditypes.get(ctype, {}).get("size") if ctype else None
                for (ini, ci, rq) in ainfo:
                    if wl is not None and rq is not None and tsize is None and wl == rq:
                        # the context type is not recoverable on either side (void * all the way): two of the three
                        # numbers are compared
                        rep.ok("C17.R2", cons, site, "wipe length %d = allocation request in %s (context type not named at either site)" % (wl, ini.name), cfg=cn)
                        expected_by_fn[(f.unit, f.name)] = wl
                    elif wl is None or rq is None or tsize is None:
                        rep.inconclusive("C17.R2", cons, site, "wipe length %s / allocation request %s / sizeof(%s)=%s not all constant" % (wl, rq, ctype, tsize), cfg=cn)
                    elif wl == rq == tsize:
                        rep.ok("C17.R2", cons, site, "wipe length %d = allocation request in %s = sizeof(%s)" % (wl, ini.name, ctype), cfg=cn)
                        expected_by_fn[(f.unit, f.name)] = wl
                    else:
                        rep.violation("C17.R2", cons, site, "wipe length %s, allocation request %s (%s at %s), sizeof(%s) = %s disagree: part of the context survives cleanup" %
                                      (wl, rq, ini.name, ini.loc(ci), ctype, tsize), cfg=cn)
    # R3: every wipe function that is used
    for gk, (info, why) in sorted(wipes_checked.items()):
        g = prog.funcs[gk]
        if info:
            rep.ok("C17.R3", construct(g), fsite(g), "wipe primitive: %s (ptr=P%d,len=P%d)" % (why, info[0], info[1]), cfg=cn)
    # functions named like the wipe of sibling units but not recognised: contradiction rule
    names_ok = {prog.funcs[gk].name for gk, (info, why) in wipes_checked.items() if info}
    for gk, (info, why) in sorted(wipes_checked.items()):
        g = prog.funcs[gk]
        if not info and g.name in names_ok:
            rep.violation("C17.R3", construct(g), fsite(g), "%s is a wipe in sibling units but not here: %s" % (g.name, why), cfg=cn)
    return nfree, expected_by_fn, len([1 for v in wipes_checked.values() if v[0]])


def run_r5(ctx, rep, cfg, expected):
    cn = config_name(cfg)
    prog = ctx.prog(cfg, "ship")
    n = 0
    for (unit, name), wl in sorted(expected.items()):
        f = prog.funcs.get((unit, name))
        if f is None or f.decl:
            # a static release helper inlined away at -O3: its wipe and free are in its callers
            o0p = ctx.prog(cfg)
            callers = [g for g in o0p.defined() if g.unit == unit and any(c["callee"][1] == name for c in direct_calls(g))]
            done = False
            for g in callers:
                sg = prog.funcs.get((g.unit, g.name))
                if sg is None or sg.decl:
                    continue
                for fr in direct_calls(sg, {"free"}):
                    tot, det = o3_wipe_extent(sg, fr)
                    done = True
                    n += 1
                    cons = construct(sg)
                    if tot == wl:
                        rep.ok("C17.R5", cons, sg.loc(fr), "-O3 IR keeps %d volatile zero bytes before free() (%s; %s inlined here)" % (tot, "; ".join(det), name), cfg=cn)
                    elif tot is None:
                        rep.inconclusive("C17.R5", cons, sg.loc(fr), "optimised wipe shape not recognised: %s" % "; ".join(det), cfg=cn)
                    else:
                        rep.violation("C17.R5", cons, sg.loc(fr), "-O3 IR zeroes %d bytes before free(), expected %d (%s inlined here)" % (tot, wl, name), cfg=cn)
            if not done:
                rep.inconclusive("C17.R5", "src/%s.c:%s" % (unit, name), "", "function not present in the optimised IR and no caller holds its free()", cfg=cn)
    o0 = ctx.prog(cfg)
    for f in sorted(prog.defined(), key=lambda x: x.key):
        # releases through a helper (counted; the helper's own loop has a run-time length)
        f0 = o0.funcs.get((f.unit, f.name))
        if (f.unit, f.name) in expected and not any(True for _ in direct_calls(f, {"free"})):
            n += 1
        for fr in direct_calls(f, {"free"}):
            n += 1
            wl = expected.get((f.unit, f.name))
            if wl is None:
                continue    # no agreed length (R1/R2 already reported this function)
            tot, det = o3_wipe_extent(f, fr)
            cons = construct(f)
            if tot is None:
                rep.inconclusive("C17.R5", cons, f.loc(fr), "optimised wipe shape not recognised: %s" % "; ".join(det), cfg=cn)
            elif tot == wl:
                rep.ok("C17.R5", cons, f.loc(fr), "-O3 IR keeps %d volatile zero bytes before free() (%s)" % (tot, "; ".join(det)), cfg=cn)
            else:
                rep.violation("C17.R5", cons, f.loc(fr), "-O3 IR zeroes %d bytes before free(), expected %d" % (tot, wl), cfg=cn)
    return n


def run(ctx, rep):
    rep.assume("volatile stores are not elided or reordered past free() by the compiler back end",
               "IR-level claim for clang's pipeline with the repository's flags; gcc's optimiser is not inspected",
               "the context object is the whole dynamically allocated state (the library makes one allocation per object: C15.R1)")
    for cfg in ctx.configs():
        nfree, expected, nw = run_config(ctx, rep, cfg)
        if cfg is None:
            rep.floor("C17.R1", "release sites in the library", nfree, 6)
            rep.floor("C17.R3", "wipe primitives in use", nw, 1)
            n5 = run_r5(ctx, rep, cfg, expected)
            rep.floor("C17.R5", "release sites in -O3 IR", n5, 6)
            rep.analysed["free_sites"] = nfree
        else:
            if ctx.tier == "thorough":
                run_r5(ctx, rep, cfg, expected)
            ctx.release(cfg)
    # fixtures
    fp = ctx.fixture("c17_bad_cleanup.c")
    fan = Analyzer(fp)
    from ..report import Report
    tmp = Report("C17", "fixture")

    class FakeCtx:
        tier = "quick"

        def prog(self, cfg=None, shape="O0"):
            return fp if shape == "O0" else ctx.fixture("c17_bad_cleanup.c", shape="ship")

        def an(self, cfg=None):
            return fan
    _, exp, _ = run_config(FakeCtx(), tmp, None)
    exp[("c17_bad_cleanup", "fx_o3_short")] = 512
    run_r5(FakeCtx(), tmp, None, {k: v for k, v in exp.items() if k[1] == "fx_o3_short"})
    got = {}
    for o in tmp.obs:
        if o["status"] == "VIOLATION":
            got.setdefault(o["rule"], []).append(o["construct"])
    for r in ("C17.R1", "C17.R2", "C17.R3", "C17.R4", "C17.R5"):
        rep.fixture(r, "c17_bad_cleanup.c", r in got, "flagged: %s" % sorted(got.get(r, [])))
    r3 = " ".join(got.get("C17.R3", []))
    rep.fixture("C17.R3", "c17_bad_cleanup.c:word-wise wipes", "fx_word_zero_bad" in r3 and "fx_word_zero_good" not in r3,
                "size/8 words + size&3 bytes must be flagged, size>>3 words + size&7 bytes must be accepted; flagged: %s" % sorted(got.get("C17.R3", [])))
