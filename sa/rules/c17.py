"""C17 — cleanup erases all key-dependent state before releasing it."""
from ..build import config_name
from ..ir import CASTS
from ..mem import Loc, may_overlap, addr_str
from ..summary import Analyzer, akey
from .common import (construct, fsite, csite, direct_calls, init_cleanup_pairs, alloc_sites,
                     alloc_object_type, _c)

TITLE = ("Typestate/dominance check at every free() in the library: (R1) the freed block is the object a wipe call "
         "zeroes, the wipe dominates the free and nothing writes the object in between (a release helper that wipes one parameter and frees through another is checked at its call sites); (R2) wipe length = allocation "
         "request of the paired init = DataLayout size of the context type (three numbers from three places); (R3) the "
         "wipe primitive is a volatile zero-store loop whose trip count is its length argument; (R4) a pointer that "
         "lives inside the wiped object (base_ptr) is loaded before the wipe; (R5) in the -O3 IR of the shipped build the "
         "volatile stores survive, cover the same length and still precede free().")

WIPE_PRIMS = {"memset_s": (0, 2), "explicit_bzero": (0, 1), "OPENSSL_cleanse": (0, 1)}


def wipe_info(f):
    """(ptr_arg, len_arg) when f is a volatile byte-zeroing loop over exactly len bytes from ptr; else (None, why)."""
    stores = [i for i in f.all_insts() if i["op"] == "store"]
    calls = [i for i in f.all_insts() if i["op"] == "call" and not str(i.get("intrinsic", "")).startswith("llvm.dbg")]
    if calls:
        if len(calls) == 1 and calls[0]["callee"][0] == "f" and calls[0]["callee"][1] in WIPE_PRIMS and not stores:
            pa, la = WIPE_PRIMS[calls[0]["callee"][1]]
            a, b = calls[0]["ops"][pa], calls[0]["ops"][la]
            if a[0] == "a" and b[0] == "a":
                return (a[1], b[1]), "forwards to %s" % calls[0]["callee"][1]
        return None, "contains calls"
    if len(stores) != 1:
        return None, "%d stores" % len(stores)
    st = stores[0]
    if not st.get("volatile"):
        return None, "store is not volatile"
    v = st["ops"][0]
    if v[0] != "c" or int(v[1]) != 0:
        return None, "stored value is not the constant 0"
    loops = f.loops()
    if len(loops) != 1:
        return None, "%d loops" % len(loops)
    header, body = next(iter(loops.items()))
    if f.bb_of[st["id"]] not in body:
        return None, "store outside the loop"
    # index form:  for (i = 0; i < size; ++i) p[i] = 0;
    p = st["ops"][1]
    while p[0] == "i" and f.insts[p[1]]["op"] in CASTS:
        p = f.insts[p[1]]["ops"][0]
    if p[0] == "i" and f.insts[p[1]]["op"] == "getelementptr":
        g = f.insts[p[1]]["gep"]
        b = g["base"]
        while b[0] == "i" and f.insts[b[1]]["op"] in CASTS:
            b = f.insts[b[1]]["ops"][0]
        if b[0] == "a" and len(g["vars"]) == 1 and g["coff"] == 0 and g["vars"][0][1] == st["size"] == 1:
            iv = g["vars"][0][0]
            while iv[0] == "i" and f.insts[iv[1]]["op"] in ("zext", "sext"):
                iv = f.insts[iv[1]]["ops"][0]
            t = f.term(header)
            if iv[0] == "i" and f.insts[iv[1]]["op"] == "phi" and f.bb_of[iv[1]] == header and t["op"] == "br" and t["ops"][0][0] == "i":
                phi = f.insts[iv[1]]
                start = step = None
                for v, pb in zip(phi["ops"], phi["inblocks"]):
                    if pb in body:
                        bi = f.insts.get(v[1]) if v[0] == "i" else None
                        if bi and bi["op"] == "add" and bi["ops"][0] == ["i", phi["id"]] and bi["ops"][1][0] == "c":
                            step = int(bi["ops"][1][1])
                    elif v[0] == "c":
                        start = int(v[1])
                c = f.insts[t["ops"][0][1]]
                if start == 0 and step == 1 and c["op"] == "icmp" and c["pred"] in ("ult", "ne") and c["ops"][0] == ["i", phi["id"]] and c["ops"][1][0] == "a" \
                        and t["succs"][0] in body and not any(s not in body for bb in body if bb != header for s in f.succs[bb]):
                    return (b[1], c["ops"][1][1]), "volatile byte loop (index form)"
        return None, "store address is not a recognised loop cursor"
    # pointer cursor
    if p[0] != "i" or f.insts[p[1]]["op"] != "phi":
        return None, "store address is not a loop cursor"
    pphi = f.insts[p[1]]
    parg, pstep = None, None
    for o in pphi["ops"]:
        o2 = o
        while o2[0] == "i" and f.insts[o2[1]]["op"] in CASTS:
            o2 = f.insts[o2[1]]["ops"][0]
        if o2[0] == "a":
            parg = o2[1]
        elif o2[0] == "i" and f.insts[o2[1]]["op"] == "getelementptr":
            g = f.insts[o2[1]]["gep"]
            if g["base"] == ["i", pphi["id"]] and not g["vars"]:
                pstep = g["coff"]
    if parg is None or pstep != st["size"]:
        return None, "cursor does not advance by the store size"
    # exit condition: counter phi from an argument, decremented by 1, loop left when it is 0
    t = f.term(header)
    if t["op"] != "br" or len(t["succs"]) != 2:
        return None, "loop header does not test the counter"
    c = f.insts[t["ops"][0][1]] if t["ops"][0][0] == "i" else None
    if not c or c["op"] != "icmp" or c["pred"] not in ("ugt", "ne") or c["ops"][1][0] != "c" or int(c["ops"][1][1]) != 0:
        return None, "loop condition is not `count > 0`"
    cp = c["ops"][0]
    if cp[0] != "i" or f.insts[cp[1]]["op"] != "phi":
        return None, "loop counter is not a phi"
    cphi = f.insts[cp[1]]
    carg, cdec = None, None
    for o in cphi["ops"]:
        if o[0] == "a":
            carg = o[1]
        elif o[0] == "i" and f.insts[o[1]]["op"] in ("add", "sub"):
            b = f.insts[o[1]]
            if b["ops"][0] == ["i", cphi["id"]] and b["ops"][1][0] == "c":
                k = int(b["ops"][1][1])
                bits = b.get("bits", 64)
                if b["op"] == "add":
                    k = (1 << bits) - k if k > (1 << (bits - 1)) else -k
                cdec = k
    if carg is None or cdec != 1 or st["size"] != 1:
        return None, "counter is not decremented once per stored byte"
    # loop has a single exit (the header test)
    for b in body:
        for s in f.succs[b]:
            if s not in body and b != header:
                return None, "loop has a second exit"
    if t["succs"][0] not in body:
        return None, "loop continues on the false edge"
    return (parg, carg), "volatile byte loop"


def o3_wipe_extent(f, free_inst):
    """bytes provably zeroed by volatile stores in loops/straight-line code dominating free_inst in optimised IR."""
    total = 0
    loops = f.loops()
    seen_loop = set()
    vstores = [i for i in f.all_insts() if i["op"] == "store" and i.get("volatile") and i["ops"][0][0] == "c" and int(i["ops"][0][1]) == 0]
    details = []
    for header, body in loops.items():
        ss = [s for s in vstores if f.bb_of[s["id"]] in body]
        if not ss:
            continue
        # all exits of the loop must lead to... we only need: loop dominates free
        if header not in f.dom().get(f.bb_of[free_inst["id"]], set()):
            continue
        # counter: phi with constant start N, decremented by k, exit when 0
        N = k = None
        for i in f.bbmap[header]["insts"]:
            if i["op"] != "phi" or i["type"].endswith("*"):
                continue
            start = [o for o in i["ops"] if o[0] == "c"]
            steps = [o for o in i["ops"] if o[0] == "i"]
            if len(start) == 1 and len(steps) == 1:
                b = f.insts[steps[0][1]]
                if b["op"] == "add" and b["ops"][0] == ["i", i["id"]] and b["ops"][1][0] == "c":
                    kk = int(b["ops"][1][1])
                    bits = b.get("bits", 64)
                    kk = kk - (1 << bits) if kk > (1 << (bits - 1)) else kk     # signed step
                    # loop exit compares this value with a constant: trip bytes = |bound - start|
                    uses = f.uses().get(b["id"], []) + f.uses().get(i["id"], [])
                    for u in uses:
                        ui = f.insts[u]
                        if ui["op"] == "icmp" and ui["ops"][1][0] == "c" and ui["pred"] in ("eq", "ne"):
                            bound = int(ui["ops"][1][1])
                            s0 = int(start[0][1])
                            if kk != 0 and (bound - s0) % kk == 0 and (bound - s0) // kk > 0:
                                N, k = abs(bound - s0), abs(kk)
        offs = set()
        bytes_per_iter = 0
        for s in ss:
            bytes_per_iter += s["size"]
        if N is None or k is None or k <= 0:
            details.append("loop at %s: counter shape not recognised" % header)
            return None, details
        if k != bytes_per_iter or N % k != 0:
            details.append("loop at %s: %d bytes stored per iteration but counter steps by %d from %d" % (header, bytes_per_iter, k, N))
            return None, details
        total += N
        seen_loop |= body
        details.append("loop %s: %d iterations x %d volatile zero bytes" % (header, N // k, k))
    # straight-line volatile stores outside loops that dominate the free
    for s in vstores:
        if f.bb_of[s["id"]] in seen_loop:
            continue
        if any(f.bb_of[s["id"]] in body for body in loops.values()):
            continue
        if f.inst_dominates(s["id"], free_inst["id"]):
            total += s["size"]
    return total, details


def run_config(ctx, rep, cfg):
    cn = config_name(cfg)
    prog = ctx.prog(cfg)
    an = ctx.an(cfg)
    nfree = 0
    wipes_checked = {}
    expected_by_fn = {}
    pairs = init_cleanup_pairs(prog, an)
    pair_of = {}
    for (key, inits, cleans) in pairs:
        for c in cleans:
            pair_of[c.key] = inits
    from ..summary import FuncAnalysis
    # release helpers: wipe(param i, param l) dominating free(something fetched through another parameter j).
    # Whether the freed block is the wiped object is only visible where the helper is called, so such a helper
    # is checked at each of its call sites with the actual arguments.
    helper_info = {}
    for f in sorted(prog.defined(), key=lambda x: x.key):
        frees = list(direct_calls(f, {"free"}))
        if len(frees) != 1:
            continue
        fr = frees[0]
        am0 = an.summaries[f.key].fa.am
        for c in direct_calls(f):
            g = prog.resolve(f.unit, c["callee"][1])
            if g is None or not f.inst_dominates(c["id"], fr["id"]):
                continue
            if g.key not in wipes_checked:
                wipes_checked[g.key] = wipe_info(g)
            info, why = wipes_checked[g.key]
            if not info:
                continue
            pa_op, la_op = c["ops"][info[0]], c["ops"][info[1]]
            while pa_op[0] == "i" and f.insts[pa_op[1]]["op"] in CASTS:
                pa_op = f.insts[pa_op[1]]["ops"][0]
            while la_op[0] == "i" and f.insts[la_op[1]]["op"] in CASTS | {"zext", "sext", "trunc"}:
                la_op = f.insts[la_op[1]]["ops"][0]
            Af0 = am0.of(fr["ops"][0])
            if pa_op[0] == "a" and la_op[0] == "a" and Af0 is not None and Af0.root[0] == "arg" and Af0.root[1] != pa_op[1]:
                b = fr["ops"][0]
                while b[0] == "i" and f.insts[b[1]]["op"] in CASTS:
                    b = f.insts[b[1]]["ops"][0]
                ld = f.insts[b[1]] if b[0] == "i" else None
                helper_info[f.key] = {"pa": pa_op[1], "la": la_op[1], "wipe": c, "free": fr,
                                      # the freed pointer arrives by value: whatever the caller loaded before the call
                                      "by_value": b[0] == "a",
                                      "load_before": bool(b[0] == "a" or (ld is not None and ld["op"] == "load" and f.inst_dominates(ld["id"], c["id"])))}
    for f in sorted(prog.defined(), key=lambda x: x.key):
        frees = [("direct", fr, None) for fr in direct_calls(f, {"free"})]
        if f.key in helper_info:
            hi = helper_info[f.key]
            nfree += 1
            users = [g2.name for g2 in prog.defined() if any(prog.resolve(g2.unit, c["callee"][1]) is f for c in direct_calls(g2))]
            if users:
                rep.ok("C17.R1", construct(f), f.loc(hi["free"]), "release helper: wipes P%d for P%d bytes before free(); the freed block is matched against the wiped object at its %d callers" % (hi["pa"], hi["la"], len(users)), cfg=cn)
            frees = []
        for c in direct_calls(f):
            g = prog.resolve(f.unit, c["callee"][1])
            if g is not None and g.key in helper_info:
                frees.append(("helper", c, g))
        if not frees:
            continue
        fa = None
        for (fkind, fr, hg) in frees:
            nfree += 1
            cons = construct(f)
            site = f.loc(fr)
            if fa is None:
                fa = FuncAnalysis(f, an)
            am = fa.am
            Af_given = None
            if fkind == "helper":
                for ent in an.summaries[f.key].frees:
                    if ent[0] == fr["id"]:
                        Af_given = ent[2]
            # candidate wipe calls
            wipes = []
            if fkind == "helper":
                hi = helper_info[hg.key]
                wipes.append((fr, hi["pa"], hi["la"], hg))
            for c in direct_calls(f):
                g = prog.resolve(f.unit, c["callee"][1])
                if g is None:
                    if c["callee"][1] in WIPE_PRIMS:
                        pa, la = WIPE_PRIMS[c["callee"][1]]
                        wipes.append((c, pa, la, None))
                    continue
                if g.key not in wipes_checked:
                    wipes_checked[g.key] = wipe_info(g)
                info, why = wipes_checked[g.key]
                if info:
                    wipes.append((c, info[0], info[1], g))
            dom_wipes = [w for w in wipes if w[0]["id"] == fr["id"] or f.inst_dominates(w[0]["id"], fr["id"])]
            if not dom_wipes:
                # near miss: a dominating call that is handed the freed object (or the object holding the
                # freed base pointer) and writes it, but is not a wipe primitive -> the primitive is broken (R3)
                Af0 = am.of(fr["ops"][0]) if fkind == "direct" else Af_given
                near = None
                for c in direct_calls(f):
                    g = prog.resolve(f.unit, c["callee"][1])
                    if g is None or not f.inst_dominates(c["id"], fr["id"]):
                        continue
                    info, why = wipes_checked.get(g.key, (None, ""))
                    if info:
                        continue
                    for a in c["ops"]:
                        Aa = am.of(a) if a[0] in ("i", "a") else None
                        if Aa is None or Af0 is None or Aa.root != Af0.root:
                            continue
                        if akey(Aa) == akey(Af0) or (len(Af0.segs) == len(Aa.segs) + 1 and akey(Aa)[1][:-1] == akey(Af0)[1][:len(Aa.segs) - 1]):
                            s2 = an.summaries[g.key]
                            if any(cs.may for cs in s2.cls.values()):
                                near = (g, why)
                if near:
                    rep.violation("C17.R3", construct(near[0]), fsite(near[0]),
                                  "%s is used as the wipe before free() at %s but is not a wipe primitive: %s" % (near[0].name, site, near[1]), cfg=cn)
                else:
                    rep.violation("C17.R1", cons, site, "free() is not dominated by a wipe of the freed object", cfg=cn)
                continue
            w, pa, la, g = dom_wipes[-1]
            Aw = am.of(w["ops"][pa])
            Af = am.of(fr["ops"][0]) if fkind == "direct" else Af_given
            wl = _c(f, w["ops"][la])
            same = Aw is not None and Af is not None and akey(Aw) == akey(Af)
            inside = False
            if not same and Aw is not None and Af is not None and Af.root == Aw.root and len(Af.segs) == len(Aw.segs) + 1:
                pre = Af.segs[:-1]
                if akey(type(Aw)(Aw.root, pre[:-1] + (Aw.segs[-1],))) == akey(Aw) and pre[-1].off is not None and \
                        Aw.segs[-1].off is not None and Aw.segs[-1].off <= pre[-1].off:
                    inside = True      # a pointer stored in the object the wipe starts at (length is R2's business)
            if not same and not inside:
                rep.violation("C17.R1", cons, site, "the block handed to free() (%s) is not the object that was wiped (%s)" %
                              (addr_str(Af, prog), addr_str(Aw, prog)), cfg=cn)
                continue
            # intervening writes
            bad = None
            wobj = Loc(Aw, wl)
            for i in f.all_insts():
                if i["id"] in (w["id"], fr["id"]):
                    continue
                if not (f.inst_dominates(w["id"], i["id"]) and f.inst_dominates(i["id"], fr["id"])):
                    continue
                if i["op"] == "store":
                    a = am.of(i["ops"][1])
                    if a is None or may_overlap(Loc(a, i["size"]), wobj):
                        bad = i
                elif i["op"] == "call" and i["callee"][0] == "f":
                    gg = prog.resolve(f.unit, i["callee"][1])
                    base = i.get("intrinsic") or i["callee"][1]
                    if base in ("llvm.memcpy", "llvm.memset", "llvm.memmove", "memcpy", "memset"):
                        a = am.of(i["ops"][0])
                        if a is None or may_overlap(Loc(a, None), wobj):
                            bad = i
                    elif gg is not None:
                        s2 = an.summaries[gg.key]
                        if any(cs.may for cs in s2.cls.values()):
                            bad = i
            if bad is not None:
                rep.violation("C17.R1", cons, f.loc(bad), "the wiped object is written again between the wipe and free()", cfg=cn)
            else:
                rep.ok("C17.R1", cons, site, "wipe at %s dominates free(); freed block %s the wiped object %s" %
                       (f.loc(w), "is" if same else "is the base pointer stored inside", addr_str(Aw, prog)), cfg=cn)
            # R4
            if inside and fkind == "helper":
                if helper_info[hg.key].get("by_value"):
                    rep.ok("C17.R4", cons, site, "the base pointer %s is loaded here and handed to %s by value, before that helper wipes" % (addr_str(Af, prog), hg.name), cfg=cn)
                elif helper_info[hg.key]["load_before"]:
                    rep.ok("C17.R4", cons, site, "%s loads the base pointer %s before it wipes" % (hg.name, addr_str(Af, prog)), cfg=cn)
                else:
                    rep.violation("C17.R4", cons, site, "%s reads the base pointer %s after the wipe zeroed it: free() receives NULL and the block leaks" % (hg.name, addr_str(Af, prog)), cfg=cn)
            elif inside:
                b = fa.base_value(fr["ops"][0]) if False else fr["ops"][0]
                while b[0] == "i" and f.insts[b[1]]["op"] in CASTS:
                    b = f.insts[b[1]]["ops"][0]
                ld = f.insts[b[1]] if b[0] == "i" else None
                if ld is None or ld["op"] != "load":
                    rep.inconclusive("C17.R4", cons, site, "free() argument is not a plain load of the base-pointer field", cfg=cn)
                elif f.inst_dominates(ld["id"], w["id"]):
                    rep.ok("C17.R4", cons, f.loc(ld), "base pointer %s loaded before the wipe" % addr_str(Af, prog), cfg=cn)
                else:
                    rep.violation("C17.R4", cons, f.loc(ld), "base pointer %s is read after the wipe zeroed it: free() receives NULL and the block leaks unwiped-free" % addr_str(Af, prog), cfg=cn)
            # R2
            inits = pair_of.get(f.key, [])
            ctype = Aw.segs[-1].ty if Aw is not None else None
            if not inits or not any(alloc_sites(prog, an, ini) for ini in inits):
                # a release helper whose parameter is the context itself: pair it with whoever in this unit
                # allocates an object of that type
                from .common import handle_type
                want = ctype or handle_type(f)
                inits = [g2 for g2 in prog.defined() if g2.unit == f.unit and
                         any(alloc_object_type(g2, ci) == want for (ci, rq, ex) in alloc_sites(prog, an, g2))] if want else []
            req = None
            ainfo = []
            for ini in inits:
                for (ci, rq, exact) in alloc_sites(prog, an, ini):
                    ainfo.append((ini, ci, rq))
                    ctype = ctype or alloc_object_type(ini, ci)
            if not ainfo:
                rep.inconclusive("C17.R2", cons, site, "no paired init (same unit, same handle type) with an allocation found", cfg=cn)
            else:
                tsize = prog.ditypes.get(ctype, {}).get("size") if ctype else None
                for (ini, ci, rq) in ainfo:
                    if wl is not None and rq is not None and tsize is None and wl == rq:
                        # the context type is not recoverable on either side (void * all the way): two of the three
                        # numbers are compared
                        rep.ok("C17.R2", cons, site, "wipe length %d = allocation request in %s (context type not named at either site)" % (wl, ini.name), cfg=cn)
                        expected_by_fn[(f.unit, f.name)] = wl
                    elif wl is None or rq is None or tsize is None:
                        rep.inconclusive("C17.R2", cons, site, "wipe length %s / allocation request %s / sizeof(%s)=%s not all constant" % (wl, rq, ctype, tsize), cfg=cn)
                    elif wl == rq == tsize:
                        rep.ok("C17.R2", cons, site, "wipe length %d = allocation request in %s = sizeof(%s)" % (wl, ini.name, ctype), cfg=cn)
                        expected_by_fn[(f.unit, f.name)] = wl
                    else:
                        rep.violation("C17.R2", cons, site, "wipe length %s, allocation request %s (%s at %s), sizeof(%s) = %s disagree: part of the context survives cleanup" %
                                      (wl, rq, ini.name, ini.loc(ci), ctype, tsize), cfg=cn)
    # R3: every wipe function that is used
    for gk, (info, why) in sorted(wipes_checked.items()):
        g = prog.funcs[gk]
        if info:
            rep.ok("C17.R3", construct(g), fsite(g), "wipe primitive: %s (ptr=P%d,len=P%d)" % (why, info[0], info[1]), cfg=cn)
    # functions named like the wipe of sibling units but not recognised: contradiction rule
    names_ok = {prog.funcs[gk].name for gk, (info, why) in wipes_checked.items() if info}
    for gk, (info, why) in sorted(wipes_checked.items()):
        g = prog.funcs[gk]
        if not info and g.name in names_ok:
            rep.violation("C17.R3", construct(g), fsite(g), "%s is a wipe in sibling units but not here: %s" % (g.name, why), cfg=cn)
    return nfree, expected_by_fn, len([1 for v in wipes_checked.values() if v[0]])


def run_r5(ctx, rep, cfg, expected):
    cn = config_name(cfg)
    prog = ctx.prog(cfg, "ship")
    n = 0
    for (unit, name), wl in sorted(expected.items()):
        f = prog.funcs.get((unit, name))
        if f is None or f.decl:
            # a static release helper inlined away at -O3: its wipe and free are in its callers
            o0p = ctx.prog(cfg)
            callers = [g for g in o0p.defined() if g.unit == unit and any(c["callee"][1] == name for c in direct_calls(g))]
            done = False
            for g in callers:
                sg = prog.funcs.get((g.unit, g.name))
                if sg is None or sg.decl:
                    continue
                for fr in direct_calls(sg, {"free"}):
                    tot, det = o3_wipe_extent(sg, fr)
                    done = True
                    n += 1
                    cons = construct(sg)
                    if tot == wl:
                        rep.ok("C17.R5", cons, sg.loc(fr), "-O3 IR keeps %d volatile zero bytes before free() (%s; %s inlined here)" % (tot, "; ".join(det), name), cfg=cn)
                    elif tot is None:
                        rep.inconclusive("C17.R5", cons, sg.loc(fr), "optimised wipe shape not recognised: %s" % "; ".join(det), cfg=cn)
                    else:
                        rep.violation("C17.R5", cons, sg.loc(fr), "-O3 IR zeroes %d bytes before free(), expected %d (%s inlined here)" % (tot, wl, name), cfg=cn)
            if not done:
                rep.inconclusive("C17.R5", "src/%s.c:%s" % (unit, name), "", "function not present in the optimised IR and no caller holds its free()", cfg=cn)
    o0 = ctx.prog(cfg)
    for f in sorted(prog.defined(), key=lambda x: x.key):
        # releases through a helper (counted; the helper's own loop has a run-time length)
        f0 = o0.funcs.get((f.unit, f.name))
        if (f.unit, f.name) in expected and not any(True for _ in direct_calls(f, {"free"})):
            n += 1
        for fr in direct_calls(f, {"free"}):
            n += 1
            wl = expected.get((f.unit, f.name))
            if wl is None:
                continue    # no agreed length (R1/R2 already reported this function)
            tot, det = o3_wipe_extent(f, fr)
            cons = construct(f)
            if tot is None:
                rep.inconclusive("C17.R5", cons, f.loc(fr), "optimised wipe shape not recognised: %s" % "; ".join(det), cfg=cn)
            elif tot == wl:
                rep.ok("C17.R5", cons, f.loc(fr), "-O3 IR keeps %d volatile zero bytes before free() (%s)" % (tot, "; ".join(det)), cfg=cn)
            else:
                rep.violation("C17.R5", cons, f.loc(fr), "-O3 IR zeroes %d bytes before free(), expected %d" % (tot, wl), cfg=cn)
    return n


def run(ctx, rep):
    rep.assume("volatile stores are not elided or reordered past free() by the compiler back end",
               "IR-level claim for clang's pipeline with the repository's flags; gcc's optimiser is not inspected",
               "the context object is the whole dynamically allocated state (the library makes one allocation per object: C15.R1)")
    for cfg in ctx.configs():
        nfree, expected, nw = run_config(ctx, rep, cfg)
        if cfg is None:
            rep.floor("C17.R1", "release sites in the library", nfree, 6)
            rep.floor("C17.R3", "wipe primitives in use", nw, 1)
            n5 = run_r5(ctx, rep, cfg, expected)
            rep.floor("C17.R5", "release sites in -O3 IR", n5, 6)
            rep.analysed["free_sites"] = nfree
        else:
            if ctx.tier == "thorough":
                run_r5(ctx, rep, cfg, expected)
            ctx.release(cfg)
    # fixtures
    fp = ctx.fixture("c17_bad_cleanup.c")
    fan = Analyzer(fp)
    from ..report import Report
    tmp = Report("C17", "fixture")

    class FakeCtx:
        tier = "quick"

        def prog(self, cfg=None, shape="O0"):
            return fp if shape == "O0" else ctx.fixture("c17_bad_cleanup.c", shape="ship")

        def an(self, cfg=None):
            return fan
    _, exp, _ = run_config(FakeCtx(), tmp, None)
    exp[("c17_bad_cleanup", "fx_o3_short")] = 512
    run_r5(FakeCtx(), tmp, None, {k: v for k, v in exp.items() if k[1] == "fx_o3_short"})
    got = {}
    for o in tmp.obs:
        if o["status"] == "VIOLATION":
            got.setdefault(o["rule"], []).append(o["construct"])
    for r in ("C17.R1", "C17.R2", "C17.R3", "C17.R4", "C17.R5"):
        rep.fixture(r, "c17_bad_cleanup.c", r in got, "flagged: %s" % sorted(got.get(r, [])))
