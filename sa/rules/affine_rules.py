"""Rules on the GF(2) affine maps of the SKINNY round functions (engine E10, sa/affine.py):
   C03.R6  decrypt's linear layer inverts encrypt's (key and constant terms included), per implementation
   C06.R5  every back end (scalar, parallel vector, CTR batch) has the same linear layer as the scalar one, block by block
   C07.R6  the parallel functions read / write block b at bytes [b*BLOCK, (b+1)*BLOCK) in the same bit order in and out
   C12.R5  every configuration has the linear layer of the shipped one"""
from ..affine import analyse, compose_dec_enc
from ..contract import block_size
from .common import construct, fsite


def block_functions(prog):
    out = []
    for f in sorted(prog.defined(), key=lambda f: f.key):
        if len(f.params) != 3 or not f.params[2]["type"].endswith("Key_t*"):
            continue
        if not f.name.lstrip("_").startswith(("skinny128", "skinny64")):
            continue
        if len(f.loops()) != 1:
            continue
        out.append(f)
    return out


def round_maps(ctx, cfg):
    cache = ctx.__dict__.setdefault("_affine_cache", {})
    from ..build import config_name
    cn = config_name(cfg)
    if cn in cache:
        return cache[cn]
    prog = ctx.prog(cfg)
    res = {}
    for f in block_functions(prog):
        try:
            B = block_size(f.name.lstrip("_"))
        except Exception:
            continue
        try:
            R = analyse(prog, f, B)
        except Exception as e:      # an unsupported IR shape is 'not analysed', never a verdict
            from ..affine import RoundMap
            R = RoundMap()
            R.why = "internal: %s" % (str(e)[:120],)
        res[f.key] = (f, R)
    cache[cn] = res
    return res


def family_of(name):
    n = name.lstrip("_")
    return "skinny128" if n.startswith("skinny128") else "skinny64"


def per_block(R, b):
    """canonical map of block b: {t: (positions inside the block, key atoms, const)}; None when a bit mixes blocks."""
    out = {}
    for (blk, t), (ss, ks, c) in R.map.items():
        if blk != b:
            continue
        if any(bb != b for (bb, tt) in ss):
            return None
        out[t] = (frozenset(tt for (bb, tt) in ss), ks, c)
    return out


def describe_diff(a, b, cell):
    for t in sorted(set(a) | set(b)):
        if a.get(t) != b.get(t):
            x, y = a.get(t), b.get(t)
            def show(v):
                if v is None:
                    return "-"
                return "bits %s%s%s" % (sorted(v[0]), " ^ key%s" % sorted(v[1]) if v[1] else "", " ^ 1" if v[2] else "")
            return "state bit %d (row %d, cell %d): here %s, reference %s" % (t, t // (8 * cell), (t % (8 * cell)) // cell, show(x), show(y))
    return "?"


def check_inverse(ctx, rep, cfg, rule="C03.R6"):
    from ..build import config_name
    cn = config_name(cfg)
    maps = round_maps(ctx, cfg)
    n = 0
    for key, (f, R) in sorted(maps.items()):
        if "decrypt" not in f.name:
            continue
        ek = (key[0], f.name.replace("decrypt", "encrypt"))
        if ek not in maps:
            continue
        e = maps[ek][1]
        if R.why or e.why or R.kind != "dec" or e.kind != "enc":
            continue
        n += 1
        bad = compose_dec_enc(R, e)
        cons = construct(f)
        if bad is None:
            rep.ok(rule, cons, fsite(f), "linear layer of %s composed with the one of %s is the identity on all %d state bits (key and constant terms cancel)" % (f.name, maps[ek][0].name, len(R.map)), cfg=cn)
        else:
            coord, got = bad
            B = R.block_bytes
            rep.violation(rule, cons, fsite(f), "decrypting a round after encrypting it does not give the S-box output back at block %d bit %d (row %d): the composition leaves %s - the inverse linear layer (inverse MixColumns / ShiftRows / round-constant placement) does not undo the forward one" %
                          (coord[0], coord[1], coord[1] // (2 * B), got), cfg=cn)
    return n


def check_siblings(ctx, rep, cfg, rule="C06.R5", only=None):
    from ..build import config_name
    cn = config_name(cfg)
    maps = round_maps(ctx, cfg)
    n = 0
    refs = {}
    for key, (f, R) in maps.items():
        if f.name in ("skinny128_ecb_encrypt", "skinny64_ecb_encrypt", "skinny128_ecb_decrypt", "skinny64_ecb_decrypt") and not R.why:
            refs[(family_of(f.name), R.kind)] = (f, per_block(R, 0))
    for key, (f, R) in sorted(maps.items()):
        if R.why or R.kind is None:
            continue
        if only and not only(f):
            continue
        ref = refs.get((family_of(f.name), R.kind))
        if ref is None or ref[0] is f or ref[1] is None:
            continue
        n += 1
        cons = construct(f)
        cell = 8 if family_of(f.name) == "skinny128" else 4
        bad = None
        for b in range(R.blocks):
            m = per_block(R, b)
            if m is None:
                bad = "block %d: a state bit depends on another block" % b
                break
            if m != ref[1]:
                bad = "block %d: %s" % (b, describe_diff(m, ref[1], cell))
                break
        if bad:
            rep.violation(rule, cons, fsite(f), "the linear layer of %s differs from %s (%s)" % (f.name, ref[0].name, bad), cfg=cn)
        else:
            rep.ok(rule, cons, fsite(f), "all %d blocks have the linear layer of %s (same source bits, key bits and constants for every state bit)" % (R.blocks, ref[0].name), cfg=cn)
    return n


def check_layout(ctx, rep, cfg, rule="C07.R6"):
    from ..build import config_name
    cn = config_name(cfg)
    maps = round_maps(ctx, cfg)
    n = 0
    for key, (f, R) in sorted(maps.items()):
        if R.why or R.layout_ok is None or not f.params[1]["type"] == "i8*":
            continue
        n += 1
        cons = construct(f) + ":layout"
        if R.layout_ok:
            rep.ok(rule, cons, fsite(f), "state bit written to output byte o bit b is the one loaded from input byte o bit b (%d blocks)" % R.blocks, cfg=cn)
        else:
            byte, bit, src, want = R.layout_detail
            rep.violation(rule, cons, fsite(f), "output byte %d bit %d is written from the state position that was loaded from %s: input and output use different block / byte orders" % (byte, bit, src), cfg=cn)
    return n


def check_configs(ctx, rep, cfgs, rule="C12.R5"):
    from ..build import config_name
    ref = round_maps(ctx, None)
    n = 0
    for cfg in cfgs:
        if cfg is None:
            continue
        cn = config_name(cfg)
        maps = round_maps(ctx, cfg)
        for key, (f, R) in sorted(maps.items()):
            if key not in ref or R.why or ref[key][1].why or R.kind != ref[key][1].kind:
                continue
            n += 1
            cell = 8 if family_of(f.name) == "skinny128" else 4
            a, b = per_block(R, 0), per_block(ref[key][1], 0)
            cons = construct(f)
            if a == b and R.blocks == ref[key][1].blocks:
                rep.ok(rule, cons, fsite(f), "same linear layer as in the shipped configuration", cfg=cn)
            else:
                rep.violation(rule, cons, fsite(f), "this configuration's compile-time path computes a different linear layer than the shipped one: %s" %
                              (describe_diff(a or {}, b or {}, cell) if a is not None and b is not None else "blocks are mixed"), cfg=cn)
    return n


def skipped(ctx, cfg):
    return sorted("%s: %s" % (f.name, R.why) for (f, R) in round_maps(ctx, cfg).values() if R.why)


# ------------------------------------------------------------------------------------------------ key schedule
def schedule_maps(ctx, cfg):
    """{function key: (Func, [canonical per-path transfer map of the rounds loop])} for every function with a loop
    that stores into elements of an array inside its first parameter (the tweakey setters and the xor pass)."""
    from ..affine import loop_transfer
    from ..build import config_name
    from .c05 import loop_paths
    cache = ctx.__dict__.setdefault("_affine_sched_cache", {})
    cn = config_name(cfg)
    if cn in cache:
        return cache[cn]
    prog = ctx.prog(cfg)
    out = {}
    for f in sorted(prog.defined(), key=lambda f: f.key):
        if not f.name.lstrip("_").startswith(("skinny128", "skinny64")) or not f.params or not f.params[0]["type"].endswith("Key_t*"):
            continue
        maps = []
        for h, body in sorted(f.loops().items()):
            try:
                T = loop_transfer(prog, f, h, body, loop_paths)
            except Exception:
                continue
            for p, res in sorted(T.items()):
                if "error" in res or not any(k != "cuts" and k[0] == "E" and k[1] == 0 for k in res):
                    continue
                canon = frozenset((k, v) for k, v in res.items() if k != "cuts" and v != "T")
                ntop = sum(1 for k, v in res.items() if k != "cuts" and v == "T" and k[0] != "P")
                maps.append((canon, ntop, res.get("cuts", 0)))
        if maps:
            out[f.key] = (f, maps)
    cache[cn] = out
    return out


def _diff_maps(a, b):
    da, db = dict(a), dict(b)
    for k in sorted(set(da) | set(db), key=repr):
        if da.get(k) != db.get(k):
            def show(v):
                if v is None:
                    return "unchanged"
                return "%s%s" % (" ^ ".join("%s%s[%d].%d" % (("tk" if x[0] == "L" else ("sched" if x[0] == "E" else "")), (x[1] if x[0] == "P" else ""), x[-2] if x[0] != "P" else 0, x[-1]) for x in sorted(v[0], key=repr)) or "0", " ^ 1" if v[1] else "")
            what = "%s byte %d bit %d" % ("local " + str(k[1]) if k[0] == "L" else ("schedule word" if k[0] == "E" else "value " + str(k[1])), k[-2] if k[0] != "P" else 0, k[-1])
            return "%s: here %s, reference %s" % (what, show(da.get(k)), show(db.get(k)))
    return "?"


def check_sched_configs(ctx, rep, cfgs, rule="C12.R6"):
    from ..build import config_name
    ref = schedule_maps(ctx, None)
    n = 0
    for cfg in cfgs:
        if cfg is None:
            continue
        cn = config_name(cfg)
        cur = schedule_maps(ctx, cfg)
        for key, (f, maps) in sorted(cur.items()):
            if key not in ref:
                continue
            n += 1
            a = {m[0] for m in maps}
            b = {m[0] for m in ref[key][1]}
            cons = construct(f)
            if a == b:
                rep.ok(rule, cons, fsite(f), "one round of the tweakey schedule loop (TK permutation, LFSR, round constant, what is xored into the schedule word) is the same GF(2) affine map as in the shipped configuration (%d path(s))" % len(a), cfg=cn)
            else:
                x = sorted(a - b, key=repr)
                y = sorted(b - a, key=repr)
                rep.violation(rule, cons, fsite(f), "this configuration's tweakey schedule round differs from the shipped one: %s" %
                              (_diff_maps(x[0], y[0]) if x and y else "a path exists in only one of the two configurations"), cfg=cn)
    return n


def check_pass_walk(ctx, rep, cfg, rule="C04.R1"):
    """the xor pass of set_tweak walks the tweakey exactly like the TK1 setter: same TK permutation per round and the
    same tweakey bits reach each schedule bit (the setter may add constants, the pass must not)."""
    from ..build import config_name
    cn = config_name(cfg)
    maps = schedule_maps(ctx, cfg)
    n = 0
    for key, (f, ms) in sorted(maps.items()):
        if "xor_tk1" not in f.name:
            continue
        sk = (key[0], f.name.replace("xor_tk1", "set_tk1"))
        if sk not in maps:
            continue
        n += 1
        g, gs = maps[sk]
        cons = construct(f) + ":walk"

        def parts(m):
            tk = frozenset((k, v) for (k, v) in m if k[0] == "L")
            sched = frozenset((k, frozenset(x for x in v[0] if x[0] == "L")) for (k, v) in m if k[0] == "E")
            return tk, sched
        pa = {parts(m[0]) for m in ms}
        pb = {parts(m[0]) for m in gs}
        if pa == pb or (len(pa) == 1 and pa <= pb):
            rep.ok(rule, cons, fsite(f), "per round, %s moves the tweakey bits exactly like %s and feeds the same tweakey bits into each schedule bit" % (f.name, g.name), cfg=cn)
        else:
            rep.violation(rule, cons, fsite(f), "%s does not walk the tweakey like %s (different permutation / LFSR step or different tweakey bits per schedule bit): xoring a tweak out and another in does not give the schedule a fresh key setup would" % (f.name, g.name), cfg=cn)
    return n


def check_mantis(ctx, rep, cfg, rule="C03.R7"):
    """every Mantis block function: one backward round undoes one forward round on (state, tweak)."""
    from ..affine import mantis_round_inverse
    from ..build import config_name
    from .c05 import loop_paths
    cn = config_name(cfg)
    prog = ctx.prog(cfg)
    n = 0
    for f in sorted(prog.defined(), key=lambda f: f.key):
        if not f.name.lstrip("_").startswith("mantis") or len(f.loops()) < 2:
            continue
        try:
            r = mantis_round_inverse(prog, f, loop_paths)
        except Exception as e:
            r = ("skip", "internal: %s" % str(e)[:100])
        if isinstance(r, tuple):
            continue
        n += 1
        cons = construct(f)
        if r is None:
            rep.ok(rule, cons, fsite(f), "one backward round after one forward round restores the tweak and feeds exactly the forward S-box output into the (involutive) S-box, for every state bit: inverse MixColumns / ShiftRows, tweak schedule, key, tweak and round-constant placement cancel", cfg=cn)
        else:
            rep.violation(rule, cons, fsite(f), "the backward rounds of %s do not undo its forward rounds: %s" % (f.name, r), cfg=cn)
    return n


# ------------------------------------------------------------------------------------------------ ways of a cut
def way_summary(prog, g, memo=None, depth=0):
    """{pointer parameter k: set of pointer parameters its final content depends on} for a loop-free helper, by a
    may-dependency propagation (values carry the set of 'ways' - pointer parameters - they were computed from)."""
    memo = {} if memo is None else memo
    if g.key in memo:
        return memo[g.key]
    memo[g.key] = None      # recursion guard
    if g.loops() or depth > 4:
        return None
    ptr = [k for k, p in enumerate(g.params) if p["type"].endswith("*")]
    mem = {k: {k} for k in ptr}
    col, addr = {}, {}

    def pcol(op):
        if op[0] == "i":
            return col.get(op[1], frozenset())
        if op[0] == "cv":
            out = frozenset()
            for e in op[1]:
                out |= pcol(e)
            return out
        return frozenset()

    def paddr(op):
        if op[0] == "a":
            return op[1] if op[1] in mem else None
        if op[0] == "i":
            return addr.get(op[1])
        return None
    for b in g.order:
        for i in g.bbmap[b]["insts"]:
            o, ops, iid = i["op"], i.get("ops") or [], i.get("id")
            if o == "alloca":
                addr[iid] = ("al", iid)
                mem[("al", iid)] = set()
            elif o in ("bitcast", "getelementptr", "addrspacecast") and i.get("type", "").endswith("*"):
                base = i["gep"]["base"] if o == "getelementptr" else ops[0]
                addr[iid] = paddr(base)
                if o == "getelementptr":
                    extra = frozenset()
                    for (v, sc) in i["gep"].get("vars", []):
                        extra |= pcol(v)
                    col[iid] = extra
            elif o == "load":
                k = paddr(ops[0])
                col[iid] = frozenset(mem[k]) if k is not None else frozenset()
            elif o == "store":
                k = paddr(ops[1])
                if k is not None:
                    mem[k] = set(pcol(ops[0])) | (set() if isinstance(k, int) else set())
            elif o == "call":
                callee = i.get("callee") or ["?", ""]
                g2 = prog.resolve(g.unit, callee[1]) if callee[0] == "f" else None
                allc = frozenset()
                for x in ops:
                    allc |= pcol(x)
                    k = paddr(x)
                    if k is not None:
                        allc |= frozenset(mem[k])
                s2 = way_summary(prog, g2, memo, depth + 1) if g2 is not None and not g2.decl else None
                name = callee[1] if callee[0] == "f" else ""
                if s2 is not None:
                    new = {}
                    for j, deps in s2.items():
                        if j < len(ops):
                            kj = paddr(ops[j])
                            if kj is not None:
                                acc = set()
                                for d in deps:
                                    kd = paddr(ops[d]) if d < len(ops) else None
                                    if kd is not None:
                                        acc |= mem[kd]
                                new[kj] = acc
                    mem.update(new)
                elif name.startswith(("llvm.memcpy", "llvm.memmove")) and len(ops) >= 2:
                    kd, ks = paddr(ops[0]), paddr(ops[1])
                    if kd is not None:
                        mem[kd] = set(mem[kd]) | (set(mem[ks]) if ks is not None else set())
                elif g2 is not None and not g2.decl or callee[0] != "f":
                    # unknown defined callee / indirect call: everything reachable may be mixed
                    for x in ops:
                        k = paddr(x)
                        if k is not None:
                            mem[k] = set(mem[k]) | set(allc)
                col[iid] = allc
            elif o == "phi":
                acc = frozenset()
                for x in ops:
                    acc |= pcol(x)
                col[iid] = acc
                ks = {paddr(x) for x in ops}
                if len(ks) == 1:
                    addr[iid] = ks.pop()
            else:
                acc = frozenset()
                for x in ops:
                    acc |= pcol(x)
                col[iid] = acc
    res = {k: frozenset(mem[k]) for k in ptr}
    memo[g.key] = res
    return res


def check_ways(ctx, rep, cfg, rule="C03.R8"):
    """E10 treats a call it cannot interpret as affine (an S-box layer) as a cut and assumes that what the call
    leaves behind pointer argument k is a function of what was behind argument k.  Decide that assumption: every
    such helper with two or more pointer parameters (the interleaved two-/four-way vector S-boxes) computes each
    way from that way only - `x4 ^= ((x4 >> 1) & (x3 << 2)) & m` mixes two rows of the state."""
    from ..build import config_name
    cn = config_name(cfg)
    prog = ctx.prog(cfg)
    n = 0
    memo = {}
    for key in sorted(prog.__dict__.get("_cut_callees", ())):
        g = prog.funcs.get(key)
        if g is None or g.decl:
            continue
        ptr = [k for k, p in enumerate(g.params) if p["type"].endswith("*")]
        if len(ptr) < 2 or len({g.params[k]["type"] for k in ptr}) != 1:
            continue
        s = way_summary(prog, g, memo)
        if s is None:
            continue
        n += 1
        cons = construct(g)
        bad = [(k, sorted(d - {k})) for k, d in sorted(s.items()) if d - {k}]
        if bad:
            k, others = bad[0]
            rep.violation(rule, cons, fsite(g), "%s: what is left behind pointer parameter %d (`%s`) also depends on what was behind parameter(s) %s: the interleaved non-linear layer mixes rows / blocks that the cipher keeps apart, so this direction no longer inverts the other one" %
                          (g.name, k, g.params[k].get("name", "?"), [("%d (`%s`)" % (o, g.params[o].get("name", "?"))) for o in others]), cfg=cn)
        else:
            rep.ok(rule, cons, fsite(g), "each of the %d ways of this non-linear helper is computed from that way only" % len(ptr), cfg=cn)
    return n
