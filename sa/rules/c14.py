"""C14 — error contract: invalid calls return 0 and change nothing."""
from ..build import config_name
from ..mem import addr_str, Addr, Seg
from ..summary import Analyzer, akey, term_str, fact_str
from .common import (public_functions, param_index, vtable_instances, construct, fsite, csite, handle_type)

TITLE = ("Effect/guard summaries (EGS) of every public function and every vtable slot function, split by return "
         "class: (R1) the may-write set of the returns-0 class is empty outside the function's own frame; (R2) the "
         "facts that hold on ALL returns-non-zero paths include every guard the contract requires (object, key and "
         "data pointers non-null, length ranges, rounds, block multiple, ctx/vtable non-null), composed through "
         "vtable dispatch as the intersection over all slot targets; (R3) status constants are within {0,1}; (R4) no "
         "pointer the contract marks checked or null-means-zero is dereferenced (directly, via memcpy, or via a "
         "callee) without a dominating non-null test; (R5) every returns-0 path carries a fact that contradicts the "
         "contract (valid calls are not rejected).")

U32 = (1 << 32) - 1


def interval(facts, t, width_max=U32):
    """[lo,hi] implied for term t by unsigned comparison facts against constants; None if contradictory."""
    lo, hi = 0, width_max
    for (p, x, y) in facts:
        if x != t or y[0] != "c":
            continue
        c = y[1]
        if p == "eq":
            lo, hi = max(lo, c), min(hi, c)
        elif p == "ult":
            hi = min(hi, c - 1)
        elif p == "ule":
            hi = min(hi, c)
        elif p == "ugt":
            lo = max(lo, c + 1)
        elif p == "uge":
            lo = max(lo, c)
    return lo, hi


def outside(fact, t, lo, hi):
    """fact about t guarantees t is outside [lo,hi]"""
    p, x, y = fact
    if x != t or y[0] != "c":
        return False
    c = y[1]
    return (p == "ult" and c <= lo) or (p == "ule" and c < lo) or (p == "ugt" and c >= hi) or \
           (p == "uge" and c > hi) or (p == "eq" and not (lo <= c <= hi)) or (p == "ne" and lo == hi == c)


def state_term(prog, f, k, field):
    ht = handle_type(f, k)
    t = prog.ditypes.get(ht)
    if not t:
        return None
    for m in t["members"]:
        if m["name"] == field:
            a = Addr(("arg", k), (Seg(ht, m["off"], None),))
            return ("ld", akey(a), m["size"])
    return None


def mod_ok(facts, k, b):
    t = ("a", k)
    for (p, x, y) in facts:
        if p == "eq" and y == ("c", 0) and x[0] == "bin":
            if x[1] == "urem" and x[2] == t and x[3] == ("c", b):
                return True
            if x[1] == "and" and x[2] == t and x[3] == ("c", b - 1) and (b & (b - 1)) == 0:
                return True
    return False


def mod_reject(fact, k, b):
    p, x, y = fact
    t = ("a", k)
    if p == "ne" and y == ("c", 0) and x[0] == "bin":
        if x[1] == "urem" and x[2] == t and x[3] == ("c", b):
            return True
        if x[1] == "and" and x[2] == t and x[3] == ("c", b - 1):
            return True
    return False


def check_function(prog, an, rep, cn, name, f, c, decl, level="public", obj_checked=False):
    s = an.summaries[f.key]
    cons = construct(f)
    site = fsite(f)
    reg = s.addr_reg
    pidx = {p["name"]: k for k, p in enumerate(decl["params"])}
    # ---- R1
    if c["kind"] != "init" and c["ret"] is not None:
        z = s.c("z")
        if z is None:
            rep.violation("C14.R2", cons, site, "function has no path returning 0: invalid calls cannot be rejected", cfg=cn)
        else:
            ws = [(addr_str(loc.addr, prog), w) for k, (loc, w) in z.may.items()]
            if ws:
                rep.violation("C14.R1", cons, csite(ws[0][1]), "a path that returns 0 may already have written %s (%s)" % ws[0], ws[:6], cfg=cn)
            else:
                rep.ok("C14.R1", cons, site, "MayWrite(returns 0) is empty over %d rejecting exits" % z.exits, cfg=cn)
    # ---- R3
    if c["ret"] is not None:
        bad = [r for r in s.retconsts if r not in (0, 1)]
        if bad:
            rep.violation("C14.R3", cons, site, "possible return values %s are not within {0,1}" % sorted(map(str, s.retconsts)), cfg=cn)
        else:
            rep.ok("C14.R3", cons, site, "returns %s" % sorted(s.retconsts), cfg=cn)
    # ---- R2
    nz = s.c("nz") if c["ret"] is not None else s.c("void")
    if c["ret"] is not None:
        if nz is None:
            rep.violation("C14.R5", cons, site, "function never returns non-zero: valid calls are rejected", cfg=cn)
        else:
            g = nz.guards or set()
            for pname, spec in c["params"].items():
                k = pidx.get(pname)
                if k is None:
                    rep.inconclusive("C14.R2", cons, site, "contract names parameter %s which the header does not declare" % pname, cfg=cn)
                    continue
                t = ("a", k)
                inst = "%s:%s" % (cons, pname)
                if spec[0] in ("OBJ", "KEY", "CHK"):
                    if spec[0] == "OBJ" and obj_checked:
                        continue
                    if ("ne", t, ("null",)) in g:
                        rep.ok("C14.R2", inst, site, "%s != NULL holds on every success path" % pname, cfg=cn)
                    else:
                        rep.violation("C14.R2", inst, site, "a call with %s == NULL can return non-zero: no non-null test on all success paths" % pname,
                                      sorted(fact_str(x, reg, prog) for x in g), cfg=cn)
                elif spec[0] == "LEN":
                    lo, hi = interval(g, t)
                    if lo >= spec[1] and hi <= spec[2]:
                        if (lo, hi) != (spec[1], spec[2]):
                            rep.violation("C14.R5", inst, site, "success paths require %s in [%d,%d], narrower than the documented [%d,%d]" % (pname, lo, hi, spec[1], spec[2]), cfg=cn)
                        else:
                            rep.ok("C14.R2", inst, site, "success paths imply %d <= %s <= %d" % (lo, pname, hi), cfg=cn)
                    else:
                        rep.violation("C14.R2", inst, site, "success paths only imply %s in [%d,%d]; the contract requires rejection outside [%d,%d]" %
                                      (pname, lo, hi, spec[1], spec[2]), sorted(fact_str(x, reg, prog) for x in g), cfg=cn)
                elif spec[0] == "MOD":
                    if mod_ok(g, k, spec[1]):
                        rep.ok("C14.R2", inst, site, "%s %% %d == 0 on every success path" % (pname, spec[1]), cfg=cn)
                    else:
                        rep.violation("C14.R2", inst, site, "a %s that is not a multiple of %d can be accepted" % (pname, spec[1]), cfg=cn)
            for fld in c["state"]:
                objp = [pn for pn, sp in c["params"].items() if sp[0] == "OBJ"]
                k = pidx.get(objp[0]) if objp else None
                st_t = state_term(prog, f, k, fld) if k is not None else None
                inst = "%s:%s->%s" % (cons, objp[0] if objp else "?", fld)
                if st_t is None:
                    rep.inconclusive("C14.R2", inst, site, "field %s not found in the handle type" % fld, cfg=cn)
                elif ("ne", st_t, ("null",)) in g:
                    rep.ok("C14.R2", inst, site, "%s->%s != NULL on every success path (zeroed / failed / cleaned-up objects are rejected)" % (objp[0], fld), cfg=cn)
                else:
                    rep.violation("C14.R2", inst, site, "an object whose %s is NULL (zeroed, failed init, cleaned up) is not rejected" % fld,
                                  sorted(fact_str(x, reg, prog) for x in g), cfg=cn)
    # ---- R4
    checked = {}
    for pname, spec in c["params"].items():
        if spec[0] in ("OBJ", "KEY", "CHK", "NZ"):
            k = pidx.get(pname)
            if k is not None:
                checked[("a", k)] = (pname, spec[0])
    objks = [pidx[pn] for pn, sp in c["params"].items() if sp[0] == "OBJ" and pn in pidx]
    flagged = set()
    for t, w in s.needs_nonnull.items():
        if t in checked:
            pname, cls = checked[t]
            if cls == "OBJ" and obj_checked:
                continue
            what = {"OBJ": "a NULL object must return 0", "KEY": "a NULL key must return 0", "CHK": "a NULL data pointer must return 0",
                    "NZ": "NULL is documented to mean all-zero"}[cls]
            rep.violation("C14.R4", "%s:%s" % (cons, pname), csite(w), "%s is dereferenced without a dominating non-null test (%s): %s" % (pname, what, w), cfg=cn)
            flagged.add(t)
        elif t[0] == "ld" and t[1][0][0] == "arg" and t[1][0][1] in objks:
            rep.violation("C14.R4", "%s:%s" % (cons, term_str(t, reg, prog)), csite(w),
                          "object field %s is dereferenced without a dominating non-null test: %s" % (term_str(t, reg, prog), w), cfg=cn)
            flagged.add(t)
    for t, (pname, cls) in checked.items():
        if t not in flagged and not (cls == "OBJ" and obj_checked):
            rep.ok("C14.R4", "%s:%s" % (cons, pname), site, "every dereference of %s (incl. through %d callees) is dominated by a non-null test" % (pname, len(s.callees)), cfg=cn)
    # ---- R5: every rejecting exit is justified on every path that reaches it
    if c["ret"] is not None and c["kind"] != "init":
        def rejecting(fct):
            p, x, y = fct
            if x in checked and checked[x][1] in ("OBJ", "KEY", "CHK") and p == "eq" and y == ("null",):
                return True
            if x[0] == "a":
                for pname, spec in c["params"].items():
                    if pidx.get(pname) == x[1] and spec[0] == "LEN" and outside(fct, x, spec[1], spec[2]):
                        return True
            if x[0] == "bin":
                for pname, spec in c["params"].items():
                    if spec[0] == "MOD" and mod_reject(fct, pidx.get(pname), spec[1]):
                        return True
            if x[0] == "ld" and p == "eq" and y == ("null",) and x[1][0][0] == "arg" and x[1][0][1] in objks:
                return True
            if x[0] == "call" and p == "eq" and y == ("c", 0):
                return True      # callee rejected: its own exits are checked where it is defined
            return False
        fa = s.fa
        for (cls, st, esite, src) in s.exit_states:
            if cls != "z":
                continue
            inst = "%s:exit@%s" % (cons, esite.split(" (")[0] + (" " + esite.split(") ", 1)[1] if ") " in esite else ""))
            if "[callee returned 0]" in esite:
                rep.ok("C14.R5", inst, csite(esite), "returns the callee's rejection", cfg=cn)
                continue
            # the exit is reached from block src into the return block (phi form) or is src itself
            retb = None
            for sname in f.succs.get(src, []):
                if f.term(sname)["op"] == "ret":
                    retb = sname
            t_src = f.term(src)
            if t_src["op"] == "ret":
                okp = fa.all_paths_have(rejecting, src)
            else:
                okp = fa.all_paths_have(rejecting, retb, via_pred=src) if retb else False
            if okp:
                rep.ok("C14.R5", inst, csite(esite), "every path to this return-0 crosses a test that a contract clause fails", cfg=cn)
            else:
                rep.violation("C14.R5", inst, csite(esite),
                              "returns 0 on a path where no argument or object state violates the contract (a valid call is rejected)", cfg=cn)


def run_config(ctx, rep, cfg):
    cn = config_name(cfg)
    prog = ctx.prog(cfg)
    an = ctx.an(cfg)
    pubs = public_functions(ctx, prog)
    for name, f, c, decl in pubs:
        check_function(prog, an, rep, cn, name, f, c, decl)
    # slot functions: R1/R3/R4/R5 with the dispatcher's contract (object already checked)
    nslot = 0
    disp = {}
    # a slot function is checked against the contract of the public function that is its dispatcher
    # (init may additionally call other slots, e.g. set_counter: those calls do not define the contract)
    for name, f, c, decl in sorted(pubs, key=lambda x: x[2]["kind"] in ("init", "cleanup")):
        s = an.summaries[f.key]
        for (iid, st, idx, targets) in s.indirect:
            for tk in targets:
                disp.setdefault(tk, (name, c, decl))
    for tk, (name, c, decl) in sorted(disp.items()):
        g = prog.funcs[tk]
        if c["kind"] in ("init", "cleanup"):
            continue
        if len(g.params) != len(decl["params"]):
            continue   # e.g. parallel slot targets take the key schedule, not the handle
        nslot += 1
        c2 = dict(c)
        c2["state"] = [x for x in c["state"] if x != "vtable"]
        check_function(prog, an, rep, cn, name, g, c2, decl, level="slot", obj_checked=True)
    return len(pubs), nslot


def run(ctx, rep):
    rep.assume("the contract table sa/contract.py transcribes include/*.h and C14's statement",
               "paths are CFG paths (no infeasible-path pruning beyond branch facts): guards are required on all of them",
               "callers' buffers do not alias the library's objects")
    for cfg in ctx.configs():
        npub, nslot = run_config(ctx, rep, cfg)
        if cfg is None:
            rep.floor("C14.R2", "public functions analysed", npub, 50)
            rep.floor("C14.R1", "vtable slot functions analysed", nslot, 16)
            rep.analysed["public_functions"] = npub
            rep.analysed["slot_functions"] = nslot
        else:
            ctx.release(cfg)
    # fixture
    from ..report import Report
    from ..contract import OBJ, KEY, NZ, LEN, MOD
    fp = ctx.fixture("c14_bad_errors.c")
    fan = Analyzer(fp)
    tmp = Report("C14", "fixture")
    fx_contract = {
        "fx_write_then_reject": dict(kind="key", params={"ks": OBJ(), "key": KEY(), "size": LEN(16, 48)}, state=[], ret={0, 1}),
        "fx_no_null_check": dict(kind="key", params={"ks": OBJ(), "key": KEY(), "size": LEN(16, 48)}, state=[], ret={0, 1}),
        "fx_return_two": dict(kind="key", params={"ks": OBJ(), "key": KEY(), "size": LEN(16, 48)}, state=[], ret={0, 1}),
        "fx_null_tweak": dict(kind="tweak", params={"ks": OBJ(), "tweak": NZ(), "size": LEN(1, 16)}, state=[], ret={0, 1}),
        "fx_reject_valid": dict(kind="key", params={"ks": OBJ(), "key": KEY(), "size": LEN(16, 48)}, state=[], ret={0, 1}),
    }
    for n, c in fx_contract.items():
        f = fp.resolve(None, n)
        decl = {"params": [{"name": p["name"]} for p in f.params]}
        check_function(fp, fan, tmp, "fixture", n, f, c, decl)
    got = {}
    for o in tmp.obs:
        if o["status"] == "VIOLATION":
            got.setdefault(o["rule"], []).append(o["construct"])
    for r in ("C14.R1", "C14.R2", "C14.R3", "C14.R4", "C14.R5"):
        rep.fixture(r, "c14_bad_errors.c", r in got, "flagged: %s" % sorted(got.get(r, [])))
