"""Shared discovery of the CTR back ends (one per constant vtable) for C04/C05/C06."""
from ..build import AnalysisBroken
from ..contract import block_size, family
import re

from ..ir import CASTS
from .common import public_functions, vtable_instances, handle_type


class Backend:
    def __init__(self):
        self.table = None       # global name
        self.unit = None
        self.struct = None
        self.roles = {}         # public function name -> Func (slot target)
        self.kinds = {}         # public function name -> contract kind
        self.handle_idx = {}    # public function name -> index of the handle parameter
        self.ctxty = None
        self.batch = None
        self.block = None
        self.lanes = None
        self.fields = {}        # name -> (off, size)
        self.family = None

    def __repr__(self):
        return "<Backend %s ctx=%s batch=%s>" % (self.table, self.ctxty, self.batch)

    def role(self, suffix):
        for n, f in self.roles.items():
            if n.endswith(suffix):
                return n, f
        return None, None


def ctx_type_of(prog, an, f, hidx, ctx_off):
    am = an.summaries[f.key].fa.am
    for i in f.all_insts():
        p = None
        if i["op"] == "load":
            p = i["ops"][0]
        elif i["op"] == "store":
            p = i["ops"][1]
        elif i["op"] == "getelementptr":
            p = ["i", i["id"]]
        if p is None:
            continue
        a = am.of(p)
        if a is not None and a.root == ("arg", hidx) and len(a.segs) == 2 and a.segs[0].off == ctx_off and a.segs[1].ty:
            return a.segs[1].ty
    return None


def innermost_member(prog, ty, off, depth=0):
    """(start, size, dotted name) of the innermost named member of struct type `ty` that contains byte `off`."""
    t = prog.ditypes.get(ty)
    if not t or depth > 4:
        return None
    for m in t["members"]:
        if m["off"] <= off < m["off"] + m["size"]:
            base = re.sub(r"\[\d+\]$", "", m["type"]).strip()
            if base in prog.ditypes and not re.search(r"\[\d+\]$", m["type"]) and prog.ditypes[base].get("kind") == "struct" and \
                    not base.endswith("Key_t"):
                inner = innermost_member(prog, base, off - m["off"], depth + 1)
                if inner is not None:
                    return (m["off"] + inner[0], inner[1], m["name"] + "." + inner[2])
            return (m["off"], m["size"], m["name"])
    return None


def field_roles(prog, an, b, ef, hidx):
    """{role: (offset, size, source name)} for counter / ecounter / kt / offset of the back end's context."""
    from ..mem import AddrMap
    out = {}

    def ctx_off(am, op, base=None):
        a = am.of(op) if op[0] in ("i", "a") else None
        if a is None:
            return None
        if base is None:
            if a.root == ("arg", hidx) and len(a.segs) == 2 and a.segs[0].off == b.ctx_off and a.segs[1].off is not None:
                return a.segs[1].off
            return None
        if a.root == ("arg", base[0]) and len(a.segs) == 1 and a.segs[0].off is not None:
            return base[1] + a.segs[0].off
        return None

    def scan(f, base, depth):
        am = an.summaries[f.key].fa.am if base is None else AddrMap(f)
        for i in f.all_insts():
            if i["op"] != "call" or i["callee"][0] != "f":
                continue
            g = prog.resolve(f.unit, i["callee"][1])
            if g is None:
                continue
            if len(g.params) >= 3 and g.params[2]["type"].endswith("Key_t*") and len(i["ops"]) >= 3:
                offs = [ctx_off(am, o, base) for o in i["ops"][:3]]
                if all(o is not None for o in offs) and "ecounter" not in out:
                    for role, o in (("ecounter", offs[0]), ("counter", offs[1]), ("kt", offs[2])):
                        im = innermost_member(prog, b.ctxty, o)
                        if im:
                            out[role] = im
            elif depth < 2 and not g.loops():
                # glue helper handed the context (or a part of it)
                for k, o in enumerate(i["ops"]):
                    co = ctx_off(am, o, base)
                    if co is not None and k < len(g.params) and g.params[k]["type"].endswith("*"):
                        scan(g, (k, co), depth + 1)
    scan(ef, None, 0)
    if "ecounter" in out:
        batch = out["ecounter"][1]
        # the position field: what a setter slot sets to the size of the keystream buffer on success
        for name, g in sorted(b.roles.items()):
            if b.kinds.get(name) not in ("counter", "key", "tweak"):
                continue
            nz = an.summaries[g.key].c("nz")
            h = b.handle_idx[name]
            for k, (loc, t) in ((nz.must or {}).items() if nz else []):
                a = loc.addr
                if t == ("c", batch) and a.root == ("arg", h) and len(a.segs) == 2 and a.segs[0].off == b.ctx_off and a.segs[1].off is not None:
                    im = innermost_member(prog, b.ctxty, a.segs[1].off)
                    if im:
                        out["offset"] = im
            if "offset" in out:
                break
    return out


def const_fields(prog, an, ctxty, funcs):
    """{(offset, size): constant} for fields of the context type that every store in the back end's unit sets to the
    same constant and whose address is never handed to a callee."""
    from ..mem import AddrMap
    units = {f.unit for f in funcs}
    vals, bad = {}, set()
    for f in prog.defined():
        if f.unit not in units:
            continue
        am = an.summaries[f.key].fa.am if f.key in an.summaries else AddrMap(f)
        for i in f.all_insts():
            if i["op"] == "store":
                a = am.of(i["ops"][1])
                if a is None or a.segs[-1].ty != ctxty or a.segs[-1].off is None:
                    if a is not None and a.segs[-1].ty == ctxty:
                        bad.add("*")
                    continue
                k = (a.segs[-1].off, i.get("size"))
                v = i["ops"][0]
                if v[0] == "c":
                    vals.setdefault(k, set()).add(int(v[1]))
                else:
                    bad.add(k)
            elif i["op"] == "call":
                for o in i["ops"]:
                    a = am.of(o) if o[0] in ("i", "a") else None
                    if a is not None and a.segs[-1].ty == ctxty and a.segs[-1].off is not None and len(a.segs) >= 1:
                        bad.add(("from", a.segs[-1].off))
    out = {}
    if "*" in bad:
        return out
    for k, vs in vals.items():
        if len(vs) != 1 or k in bad:
            continue
        if any(isinstance(x, tuple) and x[0] == "from" and x[1] <= k[0] < x[1] + 1 for x in bad):
            continue
        # an address at or before the field handed to a callee may reach it only if it points AT the field
        if any(isinstance(x, tuple) and x[0] == "from" and x[1] == k[0] for x in bad):
            continue
        out[k] = next(iter(vs))
    return out


def ctr_backends(ctx, prog, an):
    pubs = public_functions(ctx, prog)
    slot_users = {}     # (struct, idx) -> (public name, contract, decl)
    # the dispatcher of a slot is the public function of the same role; init may call further slots
    for name, f, c, decl in sorted(pubs, key=lambda x: x[2]["kind"] not in ("init", "cleanup")):
        s = an.summaries[f.key]
        for (iid, st, idx, targets) in s.indirect:
            if st is None:
                continue
            if c["kind"] in ("init", "cleanup") and (st, idx) in slot_users and slot_users[(st, idx)][1]["kind"] not in ("init", "cleanup"):
                continue
            if c["kind"] == "init" and idx != 0 and False:
                continue
            slot_users[(st, idx)] = (name, c, decl, f)
    # an init function that also calls another slot must not claim it: keep only its first slot
    for name, f, c, decl in pubs:
        if c["kind"] != "init":
            continue
        s = an.summaries[f.key]
        first = True
        for (iid, st, idx, targets) in sorted(s.indirect):
            if not first and slot_users.get((st, idx), (None,))[0] == name:
                del slot_users[(st, idx)]
            first = False
    out = []
    for (st, unit, g, fs) in vtable_instances(prog):
        if fs is None:
            continue        # stub
        b = Backend()
        b.table, b.unit, b.struct = g["name"], unit, st
        for idx, fn in enumerate(fs):
            u = slot_users.get((st, idx))
            if not u or fn is None:
                continue
            name, c, decl, pf = u
            b.roles[name] = fn
            b.kinds[name] = c["kind"]
            objp = [pn for pn, sp in c["params"].items() if sp[0] == "OBJ"][0]
            b.handle_idx[name] = [k for k, p in enumerate(decl["params"]) if p["name"] == objp][0]
        if not b.roles or not any("_ctr_" in n for n in b.roles):
            continue        # not a table the public CTR functions dispatch through (e.g. a parallel-ECB table)
        any_name = sorted(b.roles)[0]
        b.family = family(any_name)
        b.block = block_size(any_name)
        # context type from the encrypt slot
        en, ef = b.role("_encrypt")
        if ef is None:
            raise AnalysisBroken("CTR table %s has no encrypt slot" % b.table)
        hidx = b.handle_idx[en]
        ht = handle_type(ef, hidx)
        hmem = {m["name"]: m for m in prog.ditypes.get(ht, {}).get("members", [])}
        if "ctx" not in hmem:
            raise AnalysisBroken("handle type %s has no ctx field" % ht)
        b.ctx_off = hmem["ctx"]["off"]
        b.ctxty = ctx_type_of(prog, an, ef, hidx, b.ctx_off)
        if b.ctxty is None or b.ctxty not in prog.ditypes:
            raise AnalysisBroken("context type of back end %s not recovered" % b.table)
        # fields by ROLE, not by name: the refill call  E(dst, src, schedule)  in the encrypt slot names the
        # keystream buffer (dst), the counter (src) and the key schedule; the position field is the one the
        # setters set to sizeof(keystream buffer).  Private fields may be renamed, regrouped or reordered.
        roles = field_roles(prog, an, b, ef, hidx)
        b.field_names = {}
        for role, (off, size, nm) in roles.items():
            b.fields[role] = (off, size)
            b.field_names[role] = nm
        for m in prog.ditypes[b.ctxty]["members"]:
            if any(off <= m["off"] and m["off"] + m["size"] <= off + size for (off, size) in b.fields.values()):
                continue        # the member is one of the role fields
            if m["name"] not in b.fields:
                b.fields[m["name"]] = (m["off"], m["size"])
        for need in ("counter", "ecounter", "offset"):
            if need not in b.fields:
                raise AnalysisBroken("context type %s: no field plays the role `%s` (anchor vanished)" % (b.ctxty, need))
        # scalar fields of the context that only ever receive one constant (set once by init): loads of them are
        # that constant (a `limit` / `stream_size` bookkeeping field next to the position field)
        b.const_fields = const_fields(prog, an, b.ctxty, [fn for fn in fs if fn is not None])
        b.batch = b.fields["ecounter"][1]
        if b.batch % b.block:
            raise AnalysisBroken("ecounter size %d of %s is not a multiple of the block size" % (b.batch, b.ctxty))
        b.lanes = b.batch // b.block
        out.append(b)
    return out
