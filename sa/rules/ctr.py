"""Shared discovery of the CTR back ends (one per constant vtable) for C04/C05/C06."""
from ..build import AnalysisBroken
from ..contract import block_size, family
from ..ir import CASTS
from .common import public_functions, vtable_instances, handle_type


class Backend:
    def __init__(self):
        self.table = None       # global name
        self.unit = None
        self.struct = None
        self.roles = {}         # public function name -> Func (slot target)
        self.kinds = {}         # public function name -> contract kind
        self.handle_idx = {}    # public function name -> index of the handle parameter
        self.ctxty = None
        self.batch = None
        self.block = None
        self.lanes = None
        self.fields = {}        # name -> (off, size)
        self.family = None

    def __repr__(self):
        return "<Backend %s ctx=%s batch=%s>" % (self.table, self.ctxty, self.batch)

    def role(self, suffix):
        for n, f in self.roles.items():
            if n.endswith(suffix):
                return n, f
        return None, None


def ctx_type_of(prog, an, f, hidx, ctx_off):
    am = an.summaries[f.key].fa.am
    for i in f.all_insts():
        p = None
        if i["op"] == "load":
            p = i["ops"][0]
        elif i["op"] == "store":
            p = i["ops"][1]
        elif i["op"] == "getelementptr":
            p = ["i", i["id"]]
        if p is None:
            continue
        a = am.of(p)
        if a is not None and a.root == ("arg", hidx) and len(a.segs) == 2 and a.segs[0].off == ctx_off and a.segs[1].ty:
            return a.segs[1].ty
    return None


def ctr_backends(ctx, prog, an):
    pubs = public_functions(ctx, prog)
    slot_users = {}     # (struct, idx) -> (public name, contract, decl)
    # the dispatcher of a slot is the public function of the same role; init may call further slots
    for name, f, c, decl in sorted(pubs, key=lambda x: x[2]["kind"] not in ("init", "cleanup")):
        s = an.summaries[f.key]
        for (iid, st, idx, targets) in s.indirect:
            if st is None:
                continue
            if c["kind"] in ("init", "cleanup") and (st, idx) in slot_users and slot_users[(st, idx)][1]["kind"] not in ("init", "cleanup"):
                continue
            if c["kind"] == "init" and idx != 0 and False:
                continue
            slot_users[(st, idx)] = (name, c, decl, f)
    # an init function that also calls another slot must not claim it: keep only its first slot
    for name, f, c, decl in pubs:
        if c["kind"] != "init":
            continue
        s = an.summaries[f.key]
        first = True
        for (iid, st, idx, targets) in sorted(s.indirect):
            if not first and slot_users.get((st, idx), (None,))[0] == name:
                del slot_users[(st, idx)]
            first = False
    out = []
    for (st, unit, g, fs) in vtable_instances(prog):
        if fs is None or len(fs) < 5:
            continue        # stub, or a parallel-ECB table
        b = Backend()
        b.table, b.unit, b.struct = g["name"], unit, st
        for idx, fn in enumerate(fs):
            u = slot_users.get((st, idx))
            if not u or fn is None:
                continue
            name, c, decl, pf = u
            b.roles[name] = fn
            b.kinds[name] = c["kind"]
            objp = [pn for pn, sp in c["params"].items() if sp[0] == "OBJ"][0]
            b.handle_idx[name] = [k for k, p in enumerate(decl["params"]) if p["name"] == objp][0]
        if not b.roles:
            continue
        any_name = sorted(b.roles)[0]
        b.family = family(any_name)
        b.block = block_size(any_name)
        # context type from the encrypt slot
        en, ef = b.role("_encrypt")
        if ef is None:
            raise AnalysisBroken("CTR table %s has no encrypt slot" % b.table)
        hidx = b.handle_idx[en]
        ht = handle_type(ef, hidx)
        hmem = {m["name"]: m for m in prog.ditypes.get(ht, {}).get("members", [])}
        if "ctx" not in hmem:
            raise AnalysisBroken("handle type %s has no ctx field" % ht)
        b.ctx_off = hmem["ctx"]["off"]
        b.ctxty = ctx_type_of(prog, an, ef, hidx, b.ctx_off)
        if b.ctxty is None or b.ctxty not in prog.ditypes:
            raise AnalysisBroken("context type of back end %s not recovered" % b.table)
        for m in prog.ditypes[b.ctxty]["members"]:
            b.fields[m["name"]] = (m["off"], m["size"])
        for need in ("counter", "ecounter", "offset"):
            if need not in b.fields:
                raise AnalysisBroken("context type %s has no field `%s` (anchor vanished)" % (b.ctxty, need))
        b.batch = b.fields["ecounter"][1]
        if b.batch % b.block:
            raise AnalysisBroken("ecounter size %d of %s is not a multiple of the block size" % (b.batch, b.ctxty))
        b.lanes = b.batch // b.block
        out.append(b)
    return out
