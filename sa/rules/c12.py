"""C12 — build-configuration independence: every compile-time path computes the same (structural part)."""
import os
import shutil
import subprocess
import tempfile
from concurrent.futures import ThreadPoolExecutor

from ..build import config_name, all_configs, covering_configs, config_flags, hook_present, AnalysisBroken
from ..mem import addr_str
from ..summary import fact_str
from .common import public_functions, construct, fsite
from .routing_rules import helpers, table_str

TITLE = ("Equality of the S-box variants across configurations is not decided. Decided: (R1) every configuration of "
         "the five platform switches compiles, with clang and with gcc, for all units of the Makefile; (R2) for every function "
         "of the library that does not dispatch through a back-end table, the caller-visible summary - guards on success "
         "paths, return constants, and per object the exact bytes read and written (constant offsets merged to byte "
         "intervals; array accesses as element size + bytes touched inside the element) - is identical in every "
         "configuration in which the function exists: a word-size or endian-specific branch that forgets one of two row "
         "updates shows up as a smaller written byte set; (R3) every pure bit-permutation helper (tweakey permutation, Mantis h / "
         "P and inverses; found by bit-granular copy propagation that never combines data bits) has the same routing table "
         "in every configuration; (R4) every other property's rules are run in every configuration "
         "and reported under their own ids. (R5) every SKINNY block function has, as a GF(2) affine map, the linear layer of the shipped configuration; (R6) one round of every tweakey "
         "schedule loop (TK permutation, LFSR2/LFSR3, round-constant LFSR, what is xored into the schedule word) is the same "
         "GF(2) affine map as in the shipped configuration. (R7) every site that XORs the Mantis reflection constant into k1 applies, byte for byte, the constant of the shipped configuration. (R8) the compiler / optimisation-level clause, as far as it is visible in the code: after constant loops are unrolled and "
         "constants propagated, no shift by a constant amount >= the operand width and no operand that LLVM's folder already replaced by poison (a rotate helper "
         "reached with count 0 computes x << width, which GCC keeps and Clang -O2 turns into garbage).")


def canon_loc(prog, loc):
    a = loc.addr
    if a is None or a.root[0] not in ("arg", "global"):
        return None
    path = []
    for s in a.segs[:-1]:
        path.append(s.off)
    last = a.segs[-1]
    root = (a.root[0], a.root[1], tuple(path))
    if last.off is not None:
        if loc.size is None:
            return (root, "len?", last.off)
        return (root, "bytes", tuple(range(last.off, last.off + loc.size)))
    if last.el and last.el[0] == "argoff" and loc.size is not None:
        return (root, "argrel", (last.el[1], last.el[2], tuple(range(last.el[3], last.el[3] + loc.size))))
    if last.rng and last.el and len(last.el) == 3 and loc.size is not None:
        scale, inner = last.el[0], last.el[1]
        bs = set()
        for e in range(last.rng[0], last.rng[1], scale):
            bs.update(range(e + inner, e + inner + loc.size))
        return (root, "bytes", tuple(sorted(bs)))
    if last.rng and last.el and loc.size is not None:
        return (root, "elem", (last.rng, last.el[0], tuple(range(last.el[1], last.el[1] + loc.size))))
    if last.rng:
        return (root, "within", last.rng)
    return (root, "var", None)


def canon_set(prog, locs):
    bytes_by_root = {}
    elem = {}
    argrel = {}
    other = set()
    for loc in locs:
        c = canon_loc(prog, loc)
        if c is None:
            continue
        root, kind, data = c
        if kind == "bytes":
            bytes_by_root.setdefault(root, set()).update(data)
        elif kind == "elem":
            rng, elsz, inner = data
            elem.setdefault((root, rng, elsz), set()).update(inner)
        elif kind == "argrel":
            k, sc, bs = data
            argrel.setdefault((root, k, sc), set()).update(bs)
        else:
            other.add((root, kind, data))
    out = set()
    for root, bs in bytes_by_root.items():
        out.add((root, "bytes", tuple(sorted(bs))))
    for (root, rng, elsz), inner in elem.items():
        out.add((root, "elem", (rng, elsz, tuple(sorted(inner)))))
    for (root, k, sc), bs in argrel.items():
        out.add((root, "argrel", (k, sc, tuple(sorted(bs)))))
    return out | other


def describe_item(prog, f, item):
    root, kind, data = item
    nm = "P%d" % root[1] if root[0] == "arg" else "@%s" % root[1]
    if root[2]:
        nm += "->" + "->".join(str(x) for x in root[2])
    if kind == "bytes":
        bs = data
        runs = []
        st = prev = None
        for b in bs:
            if st is None:
                st = prev = b
            elif b == prev + 1:
                prev = b
            else:
                runs.append((st, prev + 1))
                st = prev = b
        if st is not None:
            runs.append((st, prev + 1))
        return "%s bytes %s" % (nm, ",".join("[%d,%d)" % r for r in runs))
    if kind == "elem":
        rng, elsz, inner = data
        return "%s array [%d,%d) elements of %d bytes, bytes %s of each" % (nm, rng[0], rng[1], elsz, list(inner))
    if kind == "argrel":
        return "%s bytes %s relative to %d*P%d" % (nm, list(data[2]), data[1], data[0])
    return "%s %s %s" % (nm, kind, data)


def func_canon(prog, an, f):
    s = an.summaries[f.key]
    out = {"ret": tuple(sorted(map(str, s.retconsts)))}
    for cl in ("nz", "z", "void"):
        cs = s.c(cl)
        if cs is None:
            continue
        out["guards_" + cl] = tuple(sorted(fact_str(x, s.addr_reg, prog) for x in (cs.guards or ()) if "heap" not in fact_str(x, s.addr_reg, prog)))
        out["writes_" + cl] = canon_set(prog, [l for (l, w) in cs.may.values()])
    # reads are compared only for memory the function does not write itself: whether a re-read of its own
    # output counts as a read depends on access widths, which legitimately differ between configurations
    allw = canon_set(prog, [l for cs in s.cls.values() for (l, w) in cs.may.values()])
    wbytes, wroots = {}, set()
    for (root, kind, data) in allw:
        if kind == "bytes":
            wbytes.setdefault(root, set()).update(data)
        else:
            wroots.add(root)
    reads = set()
    for (root, kind, data) in canon_set(prog, [l for (l, w) in s.reads.values()]):
        if root in wroots and kind != "bytes":
            continue
        if kind == "bytes":
            rest = tuple(b for b in data if b not in wbytes.get(root, ()))
            if root in wroots:
                continue
            if rest:
                reads.add((root, kind, rest))
        else:
            reads.add((root, kind, data))
    out["reads"] = reads
    # helpers used, transitively: `four-way = two-way twice` in one configuration and the two-way helper called
    # directly in another use the same helper
    clo, work = set(), [f]
    while work:
        g = work.pop()
        for i in g.all_insts():
            if i["op"] == "call" and i["callee"][0] == "f":
                h = prog.resolve(g.unit, i["callee"][1])
                if h is not None and h.name not in clo:
                    clo.add(h.name)
                    if not h.decl:
                        work.append(h)
    out["callees"] = frozenset(clo)
    return out


def dispatches(an, f, seen=None):
    s = an.summaries[f.key]
    if s.indirect:
        return True
    return False


def gcc_witness(ws, cfgs):
    """gcc -fsyntax-only for every unit x configuration (compile witnesses only)."""
    gcc = shutil.which("gcc") or shutil.which("cc")
    if not gcc:
        raise AnalysisBroken("no gcc for the compile witnesses")
    jobs = []
    for cfg in cfgs:
        for u in ws.units:
            jobs.append((cfg, u))

    def one(j):
        cfg, u = j
        cmd = [gcc] + list(u["flags"]) + config_flags(cfg) + ["-fsyntax-only", "-w", u["file"]]
        p = subprocess.run(cmd, capture_output=True, text=True)
        return (cfg, u, p.returncode, p.stderr[-300:])
    with ThreadPoolExecutor(max_workers=16) as ex:
        return list(ex.map(one, jobs))


ARITH = ("xor", "or", "and", "add", "sub", "mul", "shl", "lshr", "ashr", "store", "ret", "zext", "sext", "trunc",
         "icmp", "select", "call", "bitcast", "extractelement")


def _width(ty):
    from ..affine import shape
    sh = shape(ty)
    return sh[1] if sh else None


def undefined_ops(f):
    """[(inst, what)] operations whose result C leaves undefined for the constant operands they are reached with:
    a shift by a constant amount >= the operand width (after the helper specialisation has unrolled constant loops
    and propagated constants), or a value that LLVM's own folder already replaced by `poison` for that reason.
    Returns (sites, number of shifts looked at)."""
    out, nsh = [], 0
    for i in f.all_insts():
        o = i["op"]
        ops = i.get("ops") or []
        if o in ("shl", "lshr", "ashr") and len(ops) == 2:
            nsh += 1
            w = _width(i.get("type", ""))
            amt = ops[1]
            vals = None
            if amt[0] == "c":
                vals = [int(amt[1])]
            elif amt[0] == "cv" and amt[1] and all(e[0] == "c" for e in amt[1]):
                vals = [int(e[1]) for e in amt[1]]
            if w and vals and any(v >= w for v in vals):
                out.append((i, "%s of a %d-bit value by the constant %d" % (o, w, max(vals))))
                continue
        if o in ARITH:
            for k, x in enumerate(ops):
                if isinstance(x, list) and len(x) >= 3 and x[0] == "u" and x[2] == "poison":
                    out.append((i, "operand %d of this `%s` is a value the compiler's constant folder replaced by `poison` (an operation with undefined behaviour for its constant operands, typically a shift by the full width, feeds it)" % (k, o)))
                    break
    return out, nsh


def _lin(f, op, depth=0):
    """shift amount as (a, b, k): a * parameter k + b (k None for a constant); None when it is anything else."""
    if depth > 12:
        return None
    if op[0] == "c":
        return (0, int(op[1]), None)
    if op[0] == "cv" and op[1] and all(e[0] == "c" for e in op[1]) and len({e[1] for e in op[1]}) == 1:
        return (0, int(op[1][0][1]), None)
    if op[0] == "a":
        return (1, 0, op[1])
    if op[0] != "i" or op[1] not in f.insts:
        return None
    i = f.insts[op[1]]
    o, ops = i["op"], i.get("ops") or []
    if o in ("zext", "sext", "trunc", "bitcast", "freeze"):
        return _lin(f, ops[0], depth + 1)
    if o == "insertelement":
        return _lin(f, ops[1], depth + 1)
    if o == "shufflevector":
        return _lin(f, ops[0], depth + 1)
    if o in ("add", "sub", "mul", "shl") and len(ops) == 2:
        x, y = _lin(f, ops[0], depth + 1), _lin(f, ops[1], depth + 1)
        if x is None or y is None:
            return None
        if o in ("add", "sub"):
            sg = 1 if o == "add" else -1
            if x[2] is not None and y[2] is not None and x[2] != y[2]:
                return None
            return (x[0] + sg * y[0], x[1] + sg * y[1], x[2] if x[2] is not None else y[2])
        if y[2] is None and y[0] == 0:
            m = y[1] if o == "mul" else (1 << y[1] if 0 <= y[1] < 32 else None)
            return None if m is None else (x[0] * m, x[1] * m, x[2])
        if o == "mul" and x[2] is None and x[0] == 0:
            return (y[0] * x[1], y[1] * x[1], y[2])
    return None


def param_shifts(prog):
    """{helper key: [(shift inst, width, a, b, k)]}: shifts whose amount is a linear function of one integer parameter"""
    out = {}
    for f in prog.defined():
        rpo = f.rpo()
        if not rpo:
            continue
        # only shifts in the entry block: they execute on every call, whatever the helper tests afterwards
        # (`count ? rotate : x` guards the shift and is left alone)
        for i in f.bbmap[rpo[0]]["insts"]:
            if i["op"] in ("shl", "lshr", "ashr") and len(i.get("ops") or []) == 2:
                e = _lin(f, i["ops"][1])
                w = _width(i.get("type", ""))
                if e is not None and e[2] is not None and e[0] != 0 and w:
                    out.setdefault(f.key, []).append((i, w, e[0], e[1], e[2]))
    return out


def undefined_calls(prog, f, PS):
    """call sites in f that reach a helper's shift with a constant argument making the amount negative or >= width"""
    out, n = [], 0
    for call in f.all_insts():
        if call["op"] != "call" or call["callee"][0] != "f":
            continue
        g = prog.resolve(f.unit, call["callee"][1])
        if g is None or g.key not in PS:
            continue
        for (si, w, a, b, k) in PS[g.key]:
            ops = call.get("ops") or []
            if k >= len(ops):
                continue
            e = _lin(f, ops[k])
            if e is None or e[2] is not None:
                continue
            n += 1
            amt = a * e[1] + b
            if amt < 0 or amt >= w:
                out.append((call, "%s is called with the constant %d, which makes its `%s` of a %d-bit value shift by %d (%s)" %
                            (g.name, e[1], si["op"], w, amt, g.loc(si))))
    return out, n


def run(ctx, rep):
    rep.assume("not decided: that the 64-/32-bit, unaligned/byte-wise, little-endian/neutral and vector variants compute equal values",
               "compile witnesses use the host gcc and clang with the Makefile's per-unit flags plus the override hook")
    cfgs = ctx.configs()
    # ---- R1
    res = gcc_witness(ctx.ws, cfgs)
    bad = [r for r in res if r[2] != 0]
    for (cfg, u, rc, err) in res:
        inst = "src/%s.c:gcc" % u["unit"]
        if rc:
            rep.violation("C12.R1", inst, "src/%s.c" % u["unit"], "does not compile with gcc in configuration %s: %s" % (config_name(cfg), err.strip().splitlines()[-1] if err.strip() else "?"), cfg=config_name(cfg))
        else:
            rep.ok("C12.R1", inst, "src/%s.c" % u["unit"], "gcc accepts the unit", cfg=config_name(cfg))
    ref = None
    ref_names = None
    ncmp = 0
    nrout = 0
    nshift = 0
    refH = {}
    for cfg in cfgs:
        cn = config_name(cfg)
        try:
            prog = ctx.prog(cfg)
        except AnalysisBroken as e:
            rep.violation("C12.R1", "config:%s" % cn, "", "does not compile with clang: %s" % str(e)[-300:], cfg=cn)
            continue
        for u in ctx.ws.units:
            rep.ok("C12.R1", "src/%s.c:clang" % u["unit"], "src/%s.c" % u["unit"], "clang accepts the unit", cfg=cn)
        an = ctx.an(cfg)
        # ---- R8: nothing whose result depends on the compiler / optimisation level
        PS = param_shifts(prog)
        for f in sorted(prog.defined(), key=lambda x: x.key):
            sites, k = undefined_ops(f)
            cs, k2 = undefined_calls(prog, f, PS)
            sites = sites + cs
            k += k2
            nshift += k
            for (i, what) in sites:
                rep.violation("C12.R8", construct(f), f.loc(i), "%s: %s - C leaves this undefined, so GCC, Clang and different optimisation levels compute different results here" % (f.name, what), cfg=cn)
            if k and not sites:
                rep.ok("C12.R8", construct(f), fsite(f), "%d shifts (own and in helpers reached with constant arguments), none by a constant amount >= the operand width, no folded-to-poison operand" % k, cfg=cn)
        cur = {}
        for f in prog.defined():
            if dispatches(an, f) or not f.params:
                continue        # dispatchers and the CPU probes legitimately depend on which back ends exist (C13)
            sm = an.summaries[f.key]
            if not sm.reads and not any(cs.may for cs in sm.cls.values()) and not sm.callees:
                continue        # stubbed-out back end in this configuration (C13.R3)
            cur[f.key] = (f, func_canon(prog, an, f))
        Hc = helpers(prog)
        if cfg is None:
            ref = cur
            ref_prog = prog
            refH = Hc
            continue
        for fk, h in sorted(Hc.items()):
            if fk not in refH or refH[fk]["table"] is None:
                continue
            nrout += 1
            inst = construct(h["f"])
            if h["table"] is None:
                rep.violation("C12.R3", inst, fsite(h["f"]), "in this configuration %s is not a pure bit permutation (it is one in the shipped build: %s): masks overlap or bits are lost on this compile-time path" % (h["f"].name, table_str(refH[fk])), cfg=cn)
            elif h["table"] == refH[fk]["table"]:
                rep.ok("C12.R3", inst, fsite(h["f"]), "same routing %s as in the shipped configuration" % table_str(h), cfg=cn)
            else:
                rep.violation("C12.R3", inst, fsite(h["f"]), "this compile-time path of %s routes %s, the shipped build routes %s" % (h["f"].name, table_str(h), table_str(refH[fk])), cfg=cn)
        # ---- R2 against the shipped configuration
        for fk, (f, can) in sorted(cur.items()):
            if fk not in ref:
                continue        # exists only in this configuration (e.g. a two-lane S-box helper, or stubbed in the shipped one)
            rf, rcan = ref[fk]
            ncmp += 1
            diffs = []
            for key in sorted(set(can) | set(rcan)):
                a, b = can.get(key), rcan.get(key)
                if a == b:
                    continue
                if key == "callees":
                    # helpers that exist in both configurations must be used by the same functions; a helper that
                    # exists in only one (two-lane vs four-lane S-box) is a legitimate alternative
                    here_defined = {g.name for g in prog.defined() if g.unit == f.unit}
                    ref_defined = {g.name for g in ref_prog.defined() if g.unit == f.unit}
                    both = here_defined & ref_defined
                    only_here = sorted((a - b) & both)
                    only_ref = sorted((b - a) & both)
                    if only_here or only_ref:
                        diffs.append("calls: this compile-time path additionally uses %s and does not use %s, although both helpers exist in both builds" % (only_here or "-", only_ref or "-"))
                    continue
                if key.startswith(("writes", "reads")):
                    a, b = a or set(), b or set()
                    only_here = sorted(describe_item(prog, f, x) for x in a - b)
                    only_ref = sorted(describe_item(ref_prog, rf, x) for x in b - a)
                    diffs.append("%s: here %s / shipped build %s" % (key, only_here[:3] or "-", only_ref[:3] or "-"))
                else:
                    diffs.append("%s: here %s / shipped build %s" % (key, a, b))
            inst = construct(f)
            if diffs:
                rep.violation("C12.R2", inst, fsite(f), "caller-visible summary differs from the shipped configuration: %s" % "; ".join(diffs[:3]), diffs, cfg=cn)
            else:
                rep.ok("C12.R2", inst, fsite(f), "same guards, return constants and read/written bytes as in the shipped configuration", cfg=cn)
        ctx.release(cfg)
    # ---- R7: the constants XORed in place into Mantis' k1 (alpha) are the same bytes in every configuration
    from .c03 import k1_xor_maps
    refk = {k: v[0] for k, v in k1_xor_maps(ctx.prog(None), ctx.an(None)).items()}
    refset = set(refk.values())
    nk = 0
    for cfg in cfgs:
        if cfg is None:
            continue
        cn = config_name(cfg)
        cur = k1_xor_maps(ctx.prog(cfg), ctx.an(cfg))
        for key, (bm, site) in sorted(cur.items()):
            fobj = ctx.prog(cfg).funcs[key]
            nk += 1
            want = refk.get(key)
            if (want is not None and bm == want) or (want is None and bm in refset):
                rep.ok("C12.R7", construct(fobj) + ":alpha", fobj.loc(site), "the reflection constant is applied as the same eight bytes as in the shipped configuration", cfg=cn)
            else:
                rep.violation("C12.R7", construct(fobj) + ":alpha", fobj.loc(site), "in this configuration the constant XORed into k1 is the byte string %s, the shipped configuration applies %s: keys and tweaks set here give different ciphertexts than the default build" %
                              (["%02x" % b if b is not None else "--" for b in bm], sorted(["%02x" % b if b is not None else "--" for b in w] for w in refset)[:1]), cfg=cn)
        ctx.release(cfg)
    rep.floor("C12.R7", "sites applying the reflection constant, over the non-default configurations", nk, 4)
    from . import affine_rules
    naff = affine_rules.check_configs(ctx, rep, cfgs)
    nsch = affine_rules.check_sched_configs(ctx, rep, cfgs)
    rep.floor("C12.R6", "tweakey schedule loops compared with the shipped configuration", nsch, 10)
    rep.floor("C12.R5", "block functions whose linear layer was compared with the shipped configuration", naff, 20)
    rep.floor("C12.R1", "unit x configuration gcc witnesses", len(res), 18 * 2)
    rep.floor("C12.R2", "function summaries compared across configurations", ncmp, 300)
    rep.floor("C12.R3", "permutation helpers compared across configurations", nrout, 20)
    rep.floor("C12.R8", "shift instructions examined over all configurations", nshift, 1000)
    # fixture: the rotate-by-zero shape must be flagged
    fp = ctx.fixture("c12_bad_shift.c")
    got = []
    fps = param_shifts(fp)
    for f in fp.defined():
        got += undefined_ops(f)[0] + undefined_calls(fp, f, fps)[0]
    rep.fixture("C12.R8", "c12_bad_shift.c", len(got) >= 1, "flagged %d site(s)" % len(got))
    rep.analysed["configurations"] = [config_name(c) for c in cfgs]
