"""C05 — CTR output = input xor E(c), E(c+1), ... however the calls split the data (buffering protocol)."""
from ..build import config_name, AnalysisBroken
from ..ir import CASTS
from ..mem import addr_str
from ..summary import Analyzer, akey, term_str
from ..initflow import InitFlow, lf_add, lf_const, lf_scale, lf_is_const, lf_str
from .common import construct, fsite, csite, direct_calls, public_functions
from .ctr import ctr_backends
from ..contract import family

TITLE = ("Decides the buffering protocol that makes CTR output independent of how the data is cut into calls (that the "
         "keystream IS E(c+i) is a value fact and is not decided): for each of the 7 back ends, BATCH = sizeof(ecounter) "
         "from type information: (R1) every success path of every setter must-stores BATCH to offset; (R2) so does init; "
         "(R3) a refill (one call encrypting counter -> ecounter under this context's schedule, then every lane advanced "
         "exactly once by L = BATCH/BLOCK) happens only when the buffer is provably exhausted; (R4) set_counter defines all "
         "counter bytes (left zero padding, null = zero) and staggers lane i by i; (R5) path-sensitive abstract interpretation of every path of "
         "the encrypt function (first loop iteration from the entry state, one generic iteration under an invariant, exits) "
         "with two ghosts - pos, the first unused keystream byte, and T, the data bytes produced: every keystream xor "
         "starts at pos, fits in the buffer and in the remaining size, offset is back in sync with pos at every back "
         "edge and return, cursors out/in/size move by exactly T, and every iteration makes progress; (R6) increment "
         "helpers step all BLOCK bytes once; (R7) each xor takes out and in at the same position, the bytes produced so far.")


OFFSET_ATOM = (0, ((("fld", "offset"), 1),))


class Ctx5:
    """helper bound to one function of one back end"""
    vals = {}

    def __init__(self, prog, an, b, f, hidx):
        self.prog, self.an, self.b, self.f, self.h = prog, an, b, f, hidx
        self.s = an.summaries[f.key]
        self.fa = self.s.fa
        self.am = self.fa.am

    def field(self, op):
        """(field name, offset lf inside the field or None) when op points into the context."""
        a = self.am.of(op) if op[0] in ("i", "a") else None
        if a is None:
            return None
        if a.root == ("arg", self.h) and len(a.segs) == 2 and a.segs[0].off == self.b.ctx_off:
            seg = a.segs[1]
        elif a.root[0] in ("heap", "heapi") and len(a.segs) == 1:
            seg = a.segs[0]
        else:
            return None
        o = seg.off if seg.off is not None else (seg.rng[0] if seg.rng else None)
        best = None
        for name, (off, size) in self.b.fields.items():
            if o is not None and off <= o < off + size and (best is None or size < best[2]):
                best = (name, (o - off if seg.off is not None else None), size)
        if best is not None:
            return best[0], best[1]
        if o is None:
            return "?", None
        return None

    # ---- linear forms over canonical atoms
    def lf(self, op, env=None, depth=0):
        f = self.f
        env = env or {}
        if op[0] == "c":
            return lf_const(int(op[1]))
        if op[0] == "a":
            return (0, ((("a", op[1]), 1),))
        if op[0] != "i" or depth > 30:
            return None
        if op[1] in env:
            return self.lf(env[op[1]], env, depth + 1)
        if op[1] in self.vals:
            return self.vals[op[1]]
        i = f.insts[op[1]]
        o = i["op"]
        if o in ("zext", "sext", "trunc") or o in CASTS:
            return self.lf(i["ops"][0], env, depth + 1)
        if o in ("add", "sub"):
            x, y = self.lf(i["ops"][0], env, depth + 1), self.lf(i["ops"][1], env, depth + 1)
            if x is None or y is None:
                return None
            r = lf_add(x, y, 1 if o == "add" else -1)
            if lf_is_const(r):
                bits = i.get("bits", 64)
                c = r[0] & ((1 << bits) - 1)
                if c >= 1 << (bits - 1):
                    c -= 1 << bits
                return lf_const(c)
            return r
        if o in ("mul", "shl") and i["ops"][1][0] == "c":
            x = self.lf(i["ops"][0], env, depth + 1)
            k = int(i["ops"][1][1]) if o == "mul" else 1 << int(i["ops"][1][1])
            return lf_scale(x, k) if x is not None and k < (1 << 16) else (0, ((("i", i["id"]), 1),))
        if o == "load" and getattr(self, "b", None) is not None and getattr(self.b, "const_fields", None):
            a = self.am.of(i["ops"][0])
            if a is not None and a.segs[-1].off is not None and \
                    ((a.root == ("arg", self.h) and len(a.segs) == 2 and a.segs[0].off == self.b.ctx_off) or
                     (a.root[0] in ("heap", "heapi") and len(a.segs) == 1)):
                c = self.b.const_fields.get((a.segs[-1].off, i.get("size")))
                if c is not None and (a.segs[-1].off, i.get("size")) != tuple(self.b.fields.get("offset", (None, None))):
                    return lf_const(c)
        if o == "load":
            t = self.fa.termcache.get(i["id"])
            if t is not None and t[0] == "ld":
                return (0, ((("ld", t[1]), 1),))
            return (0, ((("i", i["id"]), 1),))
        return (0, ((("i", i["id"]), 1),))

    def ptr(self, op, env=None, depth=0):
        """(base atom, offset lf) for caller-buffer cursors: walks GEP chains to a phi / argument."""
        f = self.f
        env = env or {}
        off = lf_const(0)
        while depth < 40:
            depth += 1
            if op[0] == "a":
                return ("a", op[1]), off
            if op[0] != "i":
                return None
            if op[1] in env:
                op = env[op[1]]
                continue
            i = f.insts[op[1]]
            if i["op"] in CASTS:
                op = i["ops"][0]
            elif i["op"] == "getelementptr":
                g = i["gep"]
                off = lf_add(off, lf_const(g["coff"]))
                for (v, sc) in g["vars"]:
                    l = self.lf(v, env)
                    if l is None:
                        return None
                    if lf_is_const(l) and l[0] >= 1 << 63:
                        l = lf_const(l[0] - (1 << 64))
                    off = lf_add(off, lf_scale(l, sc))
                op = g["base"]
            elif i["op"] == "phi":
                return ("phi", i["id"]), off
            else:
                return ("i", i["id"]), off
        return None


def loop_paths(f, header, body, limit=64):
    """acyclic paths through one iteration: header -> ... -> header (latch) or -> the loop's exit target
    (break paths run through blocks outside the natural loop until they join the normal exit)."""
    out = []
    stop = {s for s in f.succs[header] if s not in body}

    def rec(b, acc):
        if len(out) > limit:
            raise AnalysisBroken("too many paths in loop of %s" % f.name)
        for s in f.succs[b]:
            if s == header:
                out.append((acc + [b], "latch", s))
            elif s in stop or f.term(s)["op"] == "ret":
                out.append((acc + [b], "exit", s))
            elif s in acc or s == b:
                raise AnalysisBroken("nested loop in %s" % f.name)
            else:
                rec(s, acc + [b])
    rec(header, [])
    return out


def check_encrypt(prog, an, rep, cn, b, name, f, hidx):
    """R3 / R5 / R7 by path-sensitive abstract interpretation of the buffering protocol (c05_proto)."""
    from .c05_proto import Proto
    C = Ctx5(prog, an, b, f, hidx)
    P = Proto(prog, an, rep, cn, b, name, f, hidx, C)
    P.run()
    return P.inc_helpers


def C_lf_term(C, t, env):
    """linear form of a summary term (used to compare facts with path values)."""
    if t[0] == "c":
        return lf_const(t[1])
    if t[0] == "a":
        return (0, ((t, 1),))
    if t[0] == "ld":
        return (0, ((("ld", t[1]), 1),))
    if t[0] == "bin" and t[1] in ("add", "sub"):
        x, y = C_lf_term(C, t[2], env), C_lf_term(C, t[3], env)
        if x is None or y is None:
            return None
        return lf_add(x, y, 1 if t[1] == "add" else -1)
    return None


def inc_param_roles(g):
    """roles of the integer parameters of a counter-increment helper: 'extent' (bounds its byte loop), 'amount'
    (the value added), 'column' (only selects where).  Decided by where the parameter's value flows: into the loop
    test, into a stored value, or only into addresses."""
    memo = getattr(g, "_inc_roles", None)
    if memo is not None:
        return memo
    roles = {}
    uses = g.uses()
    headers = set(g.loops())
    for k, p in enumerate(g.params):
        if p["type"].endswith("*"):
            continue
        seen = set()
        work = []
        for i in g.all_insts():
            if any(o == ["a", k] for o in i["ops"]):
                work.append(i["id"])
        sinks = set()
        while work:
            x = work.pop()
            if x in seen:
                continue
            seen.add(x)
            i = g.insts[x]
            if i["op"] == "icmp":
                sinks.add("test")
                continue
            if i["op"] == "getelementptr":
                sinks.add("addr")
                # `end = counter + size` walked by a pointer cursor: the parameter bounds the loop through a pointer
                # comparison
                for u in uses.get(x, []):
                    ui = g.insts[u]
                    if ui["op"] in ("phi", "icmp") and ui.get("type", "").endswith("*") or ui["op"] == "icmp":
                        work.append(u)
                continue
            if i["op"] == "store":
                if i["ops"][0][0] == "i" and i["ops"][0][1] in seen:
                    sinks.add("value")
                continue
            if i["op"] in ("zext", "sext", "trunc", "phi", "add", "sub", "shl", "lshr", "and", "or", "mul", "xor"):
                work.extend(uses.get(x, []))
        roles[k] = "extent" if "test" in sinks else ("amount" if "value" in sinks else ("column" if "addr" in sinks else None))
    g._inc_roles = roles
    return roles


def norm_inc_args(prog, f, call, consts, block):
    """legacy tuple of an increment call: (amount,) or (column, amount); an extent argument must be the block size
    (then it is dropped), otherwise the raw constants are returned and will not match the expectation."""
    g = prog.resolve(f.unit, call["callee"][1]) if call["callee"][0] == "f" else None
    if g is None:
        return tuple(consts)
    roles = inc_param_roles(g)
    col = amt = None
    for k, c in enumerate(consts, start=1):
        r = roles.get(k)
        if r == "extent":
            if c != block:
                return tuple(consts)
        elif r == "column":
            col = c
        elif r == "amount":
            amt = c
        else:
            return tuple(consts)
    if amt is None and col is None:
        return tuple(consts)
    return (amt,) if col is None else (col, amt)


def stepper_calls(prog, hf):
    """A batch stepper `step_all(counter)`: no stores and no loops of its own (constant-trip loops are unrolled by
    the specialiser), two or more calls, all to ONE defined helper, each handing on its own first parameter with
    literal further arguments.  Returns (helper, [(call, [constants])]) or None.  Callers treat a call of the
    stepper as that list of increment calls, so the per-lane rules see the same facts as for the unrolled spelling."""
    if hf is None or hf.decl or hf.loops() or any(i["op"] == "store" for i in hf.all_insts()):
        return None
    calls = [i for i in hf.all_insts() if i["op"] == "call"]
    if len(calls) < 2 or any(i["callee"][0] != "f" for i in calls):
        return None
    g = prog.resolve(hf.unit, calls[0]["callee"][1])
    if g is None or g.decl or g is hf:
        return None
    out = []
    for i in calls:
        if prog.resolve(hf.unit, i["callee"][1]) is not g or len(i["ops"]) < 2:
            return None
        op = i["ops"][0]
        while op[0] == "i" and hf.insts[op[1]]["op"] in ("bitcast", "getelementptr") and \
                (hf.insts[op[1]]["op"] == "bitcast" or (not hf.insts[op[1]]["gep"]["vars"] and not hf.insts[op[1]]["gep"]["coff"])):
            op = hf.insts[op[1]]["gep"]["base"] if hf.insts[op[1]]["op"] == "getelementptr" else hf.insts[op[1]]["ops"][0]
        if list(op) != ["a", 0]:
            return None
        cs = []
        for o in i["ops"][1:]:
            while o[0] == "i" and hf.insts[o[1]]["op"] in ("zext", "sext", "trunc"):
                o = hf.insts[o[1]]["ops"][0]
            if o[0] != "c":
                return None
            cs.append(int(o[1]))
        out.append((i, cs))
    return g, out


def inc_tuples(prog, f, call, consts, block):
    """[(helper key or None, legacy tuple)] for one call whose first operand is the counter: the call itself, or the
    calls of a batch stepper it resolves to."""
    hf = prog.resolve(f.unit, call["callee"][1]) if call["callee"][0] == "f" else None
    sc = stepper_calls(prog, hf) if len(call["ops"]) == 1 else None
    if sc:
        g, inner = sc
        return [(g.key, norm_inc_args(prog, hf, i, cs, block)) for (i, cs) in inner]
    return [(hf.key if hf is not None else None, norm_inc_args(prog, f, call, consts, block))]


def counter_helper_ok(f, block, prog=None):
    """increment helper: single loop, constant trip count == block, single exit on the induction variable."""
    loops = f.loops()
    if not loops and prog is not None and not any(i["op"] == "store" for i in f.all_insts()):
        # forwarder: `inc128(counter, n)` = `inc(counter, 16, n)` - the shared helper is checked, and the literal
        # handed to its extent parameter must be this cipher's block size
        calls = [i for i in f.all_insts() if i["op"] == "call" and i["callee"][0] == "f" and prog.resolve(f.unit, i["callee"][1]) is not None
                 and not prog.resolve(f.unit, i["callee"][1]).decl]
        if len(calls) == 1:
            g = prog.resolve(f.unit, calls[0]["callee"][1])
            ops = calls[0]["ops"]
            roles = inc_param_roles(g)
            ext = [k for k, r in roles.items() if r == "extent"]

            def strip(op):
                while op[0] == "i" and f.insts[op[1]]["op"] in ("zext", "sext", "trunc", "bitcast"):
                    op = f.insts[op[1]]["ops"][0]
                return op
            if g is not f and len(ext) == 1 and ext[0] < len(ops) and ops and strip(ops[0]) == ["a", 0]:
                e = strip(ops[ext[0]])
                if e[0] != "c" or int(e[1]) != block:
                    return False, "forwards to %s with extent %s, block is %d" % (g.name, e[1] if e[0] == "c" else "?", block)
                ok, why = counter_helper_ok(g, block, None)
                return ok, "forwards to %s over %d bytes: %s" % (g.name, block, why)
    if not loops:
        # straight-line form (a constant-trip loop is unrolled by the specialiser): one byte store per counter byte
        from ..mem import AddrMap
        am = AddrMap(f)
        offs = []
        for i in f.all_insts():
            if i["op"] != "store":
                continue
            a = am.of(i["ops"][1])
            if a is None or a.root != ("arg", 0) or len(a.segs) != 1:
                return False, "store outside the counter"
            seg = a.segs[0]
            if seg.off is not None:
                offs.append((seg.off, i["size"]))
            elif seg.el and seg.el[0] == "argoff":
                offs.append((seg.el[3], i["size"]))
            else:
                return False, "store at an unrecognised position of the counter"
        if any(sz != 1 for (o, sz) in offs):
            return False, "stores wider than one byte"
        pos = sorted(o for (o, sz) in offs)
        if len(set(pos)) != len(pos):
            return False, "a counter byte is stored twice"
        if len(pos) != block:
            return False, "visits %d bytes, block is %d" % (len(pos), block)
        return True, "%d byte positions stepped once each (straight-line carry chain)" % len(pos)
    if len(loops) != 1:
        return False, "%d loops" % len(loops)
    header, body = next(iter(loops.items()))
    for bb in body:
        for s in f.succs[bb]:
            if s not in body and bb != header:
                return False, "second loop exit"
    t = f.term(header)
    if t["op"] != "br" or len(t["succs"]) != 2 or t["ops"][0][0] != "i":
        return False, "loop test not recognised"
    c = f.insts[t["ops"][0][1]]
    if c["op"] != "icmp":
        return False, "loop test is not a comparison"
    iv = c["ops"][0]
    if iv[0] != "i" or f.insts[iv[1]]["op"] != "phi":
        return False, "loop test does not use an induction variable"
    phi = f.insts[iv[1]]
    start = step = None
    if phi.get("type", "").endswith("*"):
        # pointer cursor over the counter: `p = counter + extent; while (p != counter) { --p; ... }` or upwards
        roles = inc_param_roles(f)
        ext = [k for k, r in roles.items() if r == "extent"]

        def strip(op):
            while op[0] == "i" and f.insts[op[1]]["op"] in ("zext", "sext", "trunc", "bitcast"):
                op = f.insts[op[1]]["ops"][0]
            return op

        def end_of(op, k):
            i = f.insts.get(op[1]) if op[0] == "i" else None
            if not i or i["op"] != "getelementptr":
                return False
            g = i["gep"]
            return strip(g["base"]) == ["a", 0] and g["coff"] == 0 and len(g["vars"]) == 1 and g["vars"][0][1] == 1 and strip(g["vars"][0][0]) == ["a", k]
        pstep = None
        sv = None
        for v, pb in zip(phi["ops"], phi["inblocks"]):
            if pb in body:
                bi = f.insts.get(v[1]) if v[0] == "i" else None
                if bi and bi["op"] == "getelementptr" and strip(bi["gep"]["base"]) == ["i", phi["id"]] and not bi["gep"]["vars"]:
                    pstep = bi["gep"]["coff"]
            else:
                sv = v
        bound = c["ops"][1]
        nst = sum(1 for bb in body for i in f.bbmap[bb]["insts"] if i["op"] == "store")
        if len(ext) == 1 and sv is not None and pstep in (-1, 1) and nst == 1 and c["pred"] in ("ne", "ugt", "ult"):
            k = ext[0]
            down = pstep == -1 and end_of(sv, k) and strip(bound) == ["a", 0]
            up = pstep == 1 and strip(sv) == ["a", 0] and end_of(bound, k)
            if down or up:
                return True, "a pointer cursor visits one byte per iteration over exactly the `%s` bytes the caller names (the block size at every call site), exit only on the cursor" % f.params[k]["name"]
        return False, "pointer-cursor loop whose extent is not the helper's extent parameter"
    for v, pb in zip(phi["ops"], phi["inblocks"]):
        if pb in body:
            bi = f.insts.get(v[1]) if v[0] == "i" else None
            if bi and bi["op"] == "add" and bi["ops"][0] == ["i", phi["id"]] and bi["ops"][1][0] == "c":
                k = int(bi["ops"][1][1])
                bits = bi.get("bits", 32)
                step = k - (1 << bits) if k >= 1 << (bits - 1) else k
        elif v[0] == "c":
            start = int(v[1])
    bound = c["ops"][1]
    if step is not None and (start is None or bound[0] != "c"):
        # the byte count is a parameter (one helper shared by ciphers of different block sizes): the loop must run
        # from that parameter down to 0 (or from 0 up to it); every call site passes the block size (checked where
        # the calls are: an extent argument other than BLOCK does not match the expected increments)
        roles = inc_param_roles(f)
        ext = [k for k, r in roles.items() if r == "extent"]
        def is_param(op, k):
            while op[0] == "i" and f.insts[op[1]]["op"] in ("zext", "sext", "trunc"):
                op = f.insts[op[1]]["ops"][0]
            return op == ["a", k]
        sv = [v for v, pb in zip(phi["ops"], phi["inblocks"]) if pb not in body]
        if len(ext) == 1 and sv:
            k = ext[0]
            down = step == -1 and is_param(sv[0], k) and bound[0] == "c" and int(bound[1]) == 0 and c["pred"] in ("ugt", "ne", "sgt")
            up = step == 1 and sv[0][0] == "c" and int(sv[0][1]) == 0 and is_param(bound, k) and c["pred"] in ("ult", "ne", "slt")
            nst = sum(1 for bb in body for i in f.bbmap[bb]["insts"] if i["op"] == "store")
            if (down or up) and nst == 1:
                return True, "one byte per iteration over exactly the `%s` bytes the caller names (the block size at every call site), exit only on the index" % f.params[k]["name"]
        return False, "trip count is neither constant nor the helper's extent parameter"
    if start is None or step is None or bound[0] != "c":
        return False, "trip count is not constant"
    bnd = int(bound[1])
    trips = (start - bnd) if step == -1 and c["pred"] in ("ugt", "ne", "sgt") else ((bnd - start) if step == 1 and c["pred"] in ("ult", "ne", "slt") else None)
    if trips != block:
        return False, "visits %s bytes, block is %d" % (trips, block)
    nst = sum(1 for bb in body for i in f.bbmap[bb]["insts"] if i["op"] == "store")
    if nst != 1:
        return False, "%d stores per iteration" % nst
    return True, "%d iterations, one byte each, exit only on the index" % trips


def run_config(ctx, rep, cfg):
    cn = config_name(cfg)
    prog = ctx.prog(cfg)
    an = ctx.an(cfg)
    backends = ctr_backends(ctx, prog, an)
    nset = 0
    helpers = {}
    for b in backends:
        off_off, off_sz = b.fields["offset"]
        for name, g in sorted(b.roles.items()):
            kind = b.kinds[name]
            s = an.summaries[g.key]
            cons = construct(g)
            h = b.handle_idx[name]
            if kind in ("key", "tweak", "counter"):
                nset += 1
                nz = s.c("nz")
                val = None
                for k, (loc, t) in ((nz.must or {}).items() if nz else []):
                    a = loc.addr
                    if a.root == ("arg", h) and len(a.segs) == 2 and a.segs[0].off == b.ctx_off and a.segs[1].off == off_off:
                        val = t
                if val == ("c", b.batch):
                    rep.ok("C05.R1", cons, fsite(g), "every success path stores offset := %d = sizeof(%s.ecounter)" % (b.batch, b.ctxty), cfg=cn)
                else:
                    rep.violation("C05.R1", cons, fsite(g), "a successful %s does not invalidate the buffered keystream on every path (offset := %s, need %d): the next output bytes still come from the old key/tweak/counter" %
                                  (name.split("_ctr_")[-1], term_str(val, s.addr_reg, prog) if val else "not stored", b.batch), cfg=cn)
            elif kind == "init":
                nz = s.c("nz")
                val = None
                for k, (loc, t) in ((nz.must or {}).items() if nz else []):
                    a = loc.addr
                    if a.root[0] in ("heap", "heapi") and len(a.segs) == 1 and a.segs[0].off == off_off:
                        val = t
                    # the same store written through obj->ctx (the context was attached to the object first)
                    if a.root == ("arg", h) and len(a.segs) == 2 and a.segs[0].off == b.ctx_off and a.segs[1].off == off_off:
                        val = t
                if val == ("c", b.batch):
                    rep.ok("C05.R2", cons, fsite(g), "fresh context starts exhausted: offset := %d" % b.batch, cfg=cn)
                else:
                    rep.violation("C05.R2", cons, fsite(g), "after init offset is %s, not %d: the first encrypt call would xor with the zero-filled buffer instead of E(0)" %
                                  (term_str(val, s.addr_reg, prog) if val else "left 0 by calloc", b.batch), cfg=cn)
            if kind == "counter":
                # R4
                C = Ctx5(prog, an, b, g, h)
                fl = InitFlow(g, an, track_args=True)
                coff, csz = b.fields["counter"]
                obj = (("arg", h), (b.ctx_off,))
                succ = [e for e in fl.exits if e[0] in ("nz", "?")]
                full = succ and all(InitFlow.covers(e[1].get(obj, ()), lf_const(coff), lf_const(coff + csz)) for e in succ)
                if full:
                    rep.ok("C05.R4", cons + ":load", fsite(g), "all %d counter bytes are defined on every success path (short counter left-padded, NULL = zero)" % csz, cfg=cn)
                else:
                    have = [[(lf_str(x), lf_str(y)) for x, y in e[1].get(obj, ())] for e in succ]
                    rep.violation("C05.R4", cons + ":load", fsite(g), "set_counter leaves part of the counter field [%d,%d) undefined/stale on some success path (written: %s)" % (coff, coff + csz, have[:2]), cfg=cn)
                # left padding: the caller's counter bytes must end exactly at the end of the block
                cidx = None
                for k2, p2 in enumerate(g.params):
                    if k2 != h and p2["type"].endswith("*"):
                        cidx = k2
                ncopy = 0
                for i in g.all_insts():
                    if i["op"] != "call" or (i.get("intrinsic") or "") not in ("llvm.memcpy", "llvm.memmove"):
                        continue
                    sp = fl.ptr(i["ops"][1])
                    if sp is None or sp[0] != (("arg", cidx), ()):
                        continue
                    ncopy += 1
                    dp = fl.ptr(i["ops"][0])
                    n = fl.lf(i["ops"][2])
                    if dp is None or n is None:
                        rep.inconclusive("C05.R4", cons + ":padding", g.loc(i), "destination of the counter copy is not a linear form", cfg=cn)
                        continue
                    base = coff if dp[0] == obj else 0
                    end = lf_add(lf_add(dp[1], n), lf_const(base), -1)
                    if end == lf_const(b.block):
                        rep.ok("C05.R4", cons + ":padding", g.loc(i), "the %s caller bytes are placed at [%d-n, %d): a short counter is left-padded with zeros" % (lf_str(n), b.block, b.block), cfg=cn)
                    else:
                        rep.violation("C05.R4", cons + ":padding", g.loc(i), "the caller's counter bytes end at offset %s of the block instead of %d: a short counter is not left-padded (big-endian value changes)" % (lf_str(end), b.block), cfg=cn)
                if ncopy == 0:
                    rep.violation("C05.R4", cons + ":padding", fsite(g), "set_counter never copies the caller's counter bytes", cfg=cn)
                tuples = []
                for i in direct_calls(g):
                    if prog.resolve(g.unit, i["callee"][1]) is None:
                        continue
                    fl0 = C.field(i["ops"][0]) if i["ops"] else None
                    if fl0 and fl0[0] == "counter" and (len(i["ops"]) >= 2 or stepper_calls(prog, prog.resolve(g.unit, i["callee"][1]))):
                        cs = [C.lf(o) for o in i["ops"][1:]]
                        tuples.extend(t for (_hk, t) in inc_tuples(prog, g, i, [c[0] if c is not None and lf_is_const(c) else None for c in cs], b.block))
                want = [(k, k) for k in range(1, b.lanes)]
                if sorted(tuples, key=str) == sorted(want, key=str):
                    rep.ok("C05.R4", cons + ":stagger", fsite(g), "lanes staggered by %s" % (want or "nothing (one lane)"), cfg=cn)
                else:
                    rep.violation("C05.R4", cons + ":stagger", fsite(g), "lane stagger after set_counter is %s, expected %s: lanes would encrypt the wrong counter values" % (sorted(tuples, key=str), want), cfg=cn)
                for i in direct_calls(g):
                    hf = prog.resolve(g.unit, i["callee"][1])
                    fl0 = C.field(i["ops"][0]) if i["ops"] else None
                    if hf is not None and fl0 and fl0[0] == "counter":
                        sc = stepper_calls(prog, hf) if len(i["ops"]) == 1 else None
                        helpers[(sc[0] if sc else hf).key] = b.block
            if name.endswith("_encrypt"):
                for hk in check_encrypt(prog, an, rep, cn, b, name, g, h) or ():
                    helpers[hk] = b.block
                C = Ctx5(prog, an, b, g, h)
                for i in direct_calls(g):
                    fl0 = C.field(i["ops"][0]) if i["ops"] else None
                    if fl0 and fl0[0] == "counter" and len(i["ops"]) >= 2 and not any((C.field(o) or ("",))[0] == "ecounter" for o in i["ops"]):
                        hf = prog.resolve(g.unit, i["callee"][1])
                        if hf:
                            helpers[hf.key] = b.block
                    elif fl0 and fl0[0] == "counter" and len(i["ops"]) == 1:
                        sc = stepper_calls(prog, prog.resolve(g.unit, i["callee"][1]))
                        if sc:
                            helpers[sc[0].key] = b.block
    # ---- R1 for setters implemented once in the front end (no dispatch through the back-end table): the value they
    # reset the position to must be BATCH for EVERY back end that can serve the object - a constant, or a context
    # field that this back end sets once to a constant (const_fields)
    pubs_all = public_functions(ctx, prog)
    for name, f, c, decl in pubs_all:
        if c["kind"] not in ("key", "tweak") or "_ctr_" not in name:
            continue
        s = an.summaries[f.key]
        if s.indirect:
            continue        # dispatches: its slot targets were checked above
        objp = [pn for pn, sp in c["params"].items() if sp[0] == "OBJ"]
        if not objp:
            continue
        h = [k for k, p in enumerate(decl["params"]) if p["name"] == objp[0]][0]
        fam = family(name)
        nz = s.c("nz")
        for b in backends:
            if b.family != fam:
                continue
            off_off, off_sz = b.fields["offset"]
            val = None
            for k, (loc, t) in ((nz.must or {}).items() if nz else []):
                a = loc.addr
                if a.root == ("arg", h) and len(a.segs) == 2 and a.segs[0].off == b.ctx_off and a.segs[1].off == off_off:
                    val = t
            got = None
            if val is not None and val[0] == "c":
                got = val[1]
            elif val is not None:
                # the stored value as written: a load of another context field that this back end keeps constant
                am_ = s.fa.am
                gots = set()
                for i in f.all_insts():
                    if i["op"] != "store":
                        continue
                    a = am_.of(i["ops"][1])
                    if a is None or not (a.root == ("arg", h) and len(a.segs) == 2 and a.segs[0].off == b.ctx_off and a.segs[1].off == off_off):
                        continue
                    v = i["ops"][0]
                    while v[0] == "i" and f.insts[v[1]]["op"] in CASTS | {"zext", "sext", "trunc"}:
                        v = f.insts[v[1]]["ops"][0]
                    if v[0] == "c":
                        gots.add(int(v[1]))
                    elif v[0] == "i" and f.insts[v[1]]["op"] == "load":
                        a2 = am_.of(f.insts[v[1]]["ops"][0])
                        if a2 is not None and a2.root == ("arg", h) and len(a2.segs) == 2 and a2.segs[0].off == b.ctx_off and a2.segs[1].off is not None:
                            gots.add(b.const_fields.get((a2.segs[1].off, f.insts[v[1]].get("size"))))
                        else:
                            gots.add(None)
                    else:
                        gots.add(None)
                if len(gots) == 1:
                    got = next(iter(gots))
            nset += 1
            cons = "%s:for %s" % (construct(f), b.table)
            if got == b.batch:
                rep.ok("C05.R1", cons, fsite(f), "front-end setter resets the position to %d = sizeof(%s.ecounter) when %s serves the object" % (b.batch, b.ctxty, b.table), cfg=cn)
            else:
                rep.violation("C05.R1", cons, fsite(f), "%s resets the keystream position to %s, which is not the batch size %d of the back end %s (a field that back end never sets is 0 from calloc): after a key / tweak change the next output bytes come from the stale buffer" %
                              (name, ("%d" % got) if got is not None else (term_str(val, s.addr_reg, prog) if val else "nothing"), b.batch, b.table), cfg=cn)
    # ---- R2 (lanes): the documented default counter is all-zero, so a fresh vector context must hold the
    # staggered lanes 0,1,..,L-1 - either its init staggers them or the public init loads the zero counter
    pubs = {n: (f, c, d) for (n, f, c, d) in public_functions(ctx, prog)}
    for b in backends:
        if b.lanes == 1:
            continue
        iname, ifn = b.role("_ctr_init")
        sname, sfn = b.role("_set_counter")
        if ifn is None or sname is None:
            continue
        C = Ctx5(prog, an, b, ifn, 0)
        tuples = []
        for i in direct_calls(ifn):
            if prog.resolve(ifn.unit, i["callee"][1]) is None or not i["ops"]:
                continue
            if len(i["ops"]) < 3 and not (len(i["ops"]) == 1 and stepper_calls(prog, prog.resolve(ifn.unit, i["callee"][1]))):
                continue
            fl0 = C.field(i["ops"][0])
            if fl0 and fl0[0] == "counter":
                cs = [C.lf(o) for o in i["ops"][1:]]
                tuples.extend(t for (_hk, t) in inc_tuples(prog, ifn, i, [c[0] if c is not None and lf_is_const(c) else None for c in cs], b.block))
        want = [(k, k) for k in range(1, b.lanes)]
        init_ok = sorted(tuples, key=str) == sorted(want, key=str)
        # public init dispatching to the set_counter slot with a NULL counter
        pf = pubs[iname][0]
        ps = an.summaries[pf.key]
        slot_sc = None
        for (iid, st, idx, targets) in an.summaries[pubs[sname][0].key].indirect:
            slot_sc = (st, idx)
        pub_ok = False
        for (iid, st, idx, targets) in ps.indirect:
            if (st, idx) == slot_sc:
                call = pf.insts[iid]
                if len(call["ops"]) >= 2 and call["ops"][1][0] == "n":
                    pub_ok = True
        cons = construct(ifn) + ":lanes"
        if init_ok or pub_ok:
            rep.ok("C05.R2", cons, fsite(ifn), "fresh %d-lane context holds the staggered zero counter (%s)" % (b.lanes, "init staggers the lanes" if init_ok else "%s loads the NULL counter through the set_counter slot" % iname), cfg=cn)
        else:
            rep.violation("C05.R2", cons, fsite(ifn),
                          "after init all %d counter lanes are equal (calloc zero) and nothing staggers them: without set_counter the first batch is E(0) repeated %d times instead of E(0)..E(%d), and the generic back end disagrees" %
                          (b.lanes, b.lanes, b.lanes - 1), cfg=cn)
    for hk, blk in sorted(helpers.items()):
        hf = prog.funcs[hk]
        ok, why = counter_helper_ok(hf, blk, prog)
        if ok:
            rep.ok("C05.R6", construct(hf), fsite(hf), "counter step: " + why, cfg=cn)
        else:
            rep.violation("C05.R6", construct(hf), fsite(hf), "counter increment helper does not walk the whole %d-byte counter with a fixed trip count: %s" % (blk, why), cfg=cn)
    return len(backends), nset, len(helpers)


def run(ctx, rep):
    rep.assume("not decided: that the buffered bytes equal E(c+i) (value fact, C01/C02) and that the increment helper's arithmetic is big-endian addition",
               "BATCH is taken from the size of the back end's ecounter field, BLOCK from the cipher family")
    for cfg in ctx.configs():
        nb, nset, nh = run_config(ctx, rep, cfg)
        if cfg is None:
            rep.floor("C05.R1", "CTR back ends", nb, 7)
            rep.floor("C05.R1", "setter functions", nset, 12)
            rep.floor("C05.R6", "counter increment helpers", nh, 4)
            n5 = sum(1 for o in rep.obs if o["rule"] == "C05.R5")
            rep.floor("C05.R5", "encrypt-loop path obligations", n5, 49)
        else:
            ctx.release(cfg)
