"""C13 — back-end selection is deterministic, accurate and never exceeds the CPU."""
import os
import re
import shutil
import subprocess
import tempfile

from ..build import config_name, REPO, AnalysisBroken
from ..ir import CASTS, relpath
from ..mem import addr_str
from ..summary import Analyzer, akey, term_str, fact_str
from .common import public_functions, construct, fsite, csite, handle_type, vtable_instances
from .c14 import state_term
from ..contract import block_size

TITLE = ("(R1) CFG path enumeration of the six init functions over the outcomes of the CPU probes: the table stored for "
         "each outcome needs no ISA beyond what the probes reported and is the widest compiled-in candidate; (R2) dataflow "
         "from the CPUID inline-asm results to the probe's return value against the architecture manual: leaf-7 queries bind "
         "sub-leaf ECX=0 as an asm input, are guarded by max-leaf >= 7, and AVX-class features additionally by OSXSAVE and "
         "XGETBV XCR0[2:1]; (R3) a stubbed back end implies its probe is constant 0 and vice versa under the Makefile's "
         "per-unit flags; (R4) VEX/EVEX instructions in the objects built by the repo's own Makefile occur only in units "
         "that are reachable solely through AVX2-gated tables; (R5) probes have no state and no undeclared inputs; (R6) the "
         "advertised parallel_size equals the byte extent the selected back end processes.")

SUBLEAF_LEAVES = {0x4, 0x7, 0xB, 0xD, 0xF, 0x10, 0x12, 0x14, 0x17, 0x18, 0x1A, 0x1B, 0x1D, 0x1F}
REGNAMES = {"{ax}": "eax", "{bx}": "ebx", "{cx}": "ecx", "{dx}": "edx", "a": "eax", "b": "ebx", "c": "ecx", "d": "edx"}
FEATURES = {(1, "edx", 26): ("SSE2", 128, False), (7, "ebx", 5): ("AVX2", 256, True), (1, "ecx", 28): ("AVX", 256, True),
            (1, "edx", 25): ("SSE", 128, False), (1, "ecx", 27): ("OSXSAVE", 0, False), (7, "ebx", 16): ("AVX512F", 512, True)}


def parse_constraints(cs):
    outs, ins, clob = [], [], []
    for tok in cs.split(","):
        if tok.startswith("="):
            outs.append(tok[1:].lstrip("&"))
        elif tok.startswith("~"):
            clob.append(tok)
        else:
            ins.append(tok)
    return outs, ins, clob


def asm_info(f, inst):
    """decode a cpuid / xgetbv inline-asm call: kind, output index -> register, leaf, subleaf operand."""
    c = inst["callee"]
    text = c[1].lower()
    outs, ins, clob = parse_constraints(c[2])
    kind = "cpuid" if "cpuid" in text else ("xgetbv" if "xgetbv" in text else None)
    regs = {}
    for k, o in enumerate(outs):
        if o in REGNAMES:
            regs[k] = REGNAMES[o]
        elif o in ("r", "&r", "q") and kind == "cpuid":
            regs[k] = "ebx"       # the xchg %rbx idiom of <cpuid.h>
    leaf = sub = None
    for j, i_c in enumerate(ins):
        tied = None
        if i_c.isdigit():
            tied = regs.get(int(i_c))
        elif i_c in REGNAMES:
            tied = REGNAMES[i_c]
        if tied == "eax":
            leaf = inst["ops"][j] if j < len(inst["ops"]) else None
        if tied == "ecx":
            sub = inst["ops"][j] if j < len(inst["ops"]) else None
    return {"kind": kind, "regs": regs, "leaf": leaf, "sub": sub, "ins": ins, "outs": outs}


def const_of(f, op):
    while op is not None and op[0] == "i" and f.insts[op[1]]["op"] in CASTS | {"zext", "sext", "trunc"}:
        op = f.insts[op[1]]["ops"][0]
    if op is not None and op[0] == "c":
        return int(op[1])
    return None


def probe_features(prog, an, f, rep, cn):
    """Decode the probe: list of (feature-name, width, needs_os) proven on every non-zero exit; emits R2 obligations."""
    s = an.summaries[f.key]
    cons = construct(f)
    asms = {}
    for i in f.all_insts():
        if i["op"] == "call" and i["callee"][0] == "asm":
            asms[i["id"]] = (i, asm_info(f, i))
    feats_all = None
    unknown = False
    for (cls, st, esite, src) in s.exit_states:
        if cls != "nz":
            continue
        feats = set()
        maxleaf = 0
        osx = xcr = False
        for (p, x, y) in st.facts:
            # (and asm.out mask) ne 0   |   (and asm.out mask) eq mask
            if x[0] == "bin" and x[1] == "and" and x[2][0] == "asm" and x[3][0] == "c" and y[0] == "c":
                info = asms.get(x[2][1])
                if not info:
                    continue
                inst, ai = info
                reg = ai["regs"].get(x[2][2])
                mask = x[3][1]
                bits = [b for b in range(64) if mask >> b & 1]
                sat = (p == "ne" and y[1] == 0 and len(bits) == 1) or (p == "eq" and y[1] == mask)
                if not sat:
                    continue
                if ai["kind"] == "cpuid":
                    leaf = const_of(f, ai["leaf"])
                    for b in bits:
                        ft = FEATURES.get((leaf, reg, b))
                        if ft:
                            if ft[0] == "OSXSAVE":
                                osx = True
                            else:
                                feats.add(ft + (inst["id"],))
                        else:
                            unknown = True
                elif ai["kind"] == "xgetbv" and reg == "eax" and (mask & 6) == 6 and p == "eq":
                    if const_of(f, ai["sub"]) == 0:
                        xcr = True
            if x[0] == "asm" and y[0] == "c" and p in ("uge", "ugt", "eq"):
                info = asms.get(x[1])
                if info and info[1]["kind"] == "cpuid" and info[1]["regs"].get(x[2]) == "eax" and const_of(f, info[1]["leaf"]) == 0:
                    maxleaf = max(maxleaf, y[1] + (1 if p == "ugt" else 0))
        # obligations for this exit
        for (name, width, needs_os, aid) in sorted(feats):
            inst, ai = asms[aid]
            leaf = const_of(f, ai["leaf"])
            site = f.loc(inst)
            if leaf in SUBLEAF_LEAVES:
                if ai["sub"] is None:
                    rep.violation("C13.R2", cons + ":subleaf", site,
                                  "CPUID leaf %d takes ECX as the sub-leaf input but the asm constraints (%s) do not bind it: the %s answer depends on whatever the caller left in ECX" %
                                  (leaf, inst["callee"][2], name), cfg=cn)
                elif const_of(f, ai["sub"]) != 0:
                    rep.violation("C13.R2", cons + ":subleaf", site, "%s is reported in sub-leaf 0 of leaf %d, but ECX is bound to %s" % (name, leaf, ai["sub"]), cfg=cn)
                else:
                    rep.ok("C13.R2", cons + ":subleaf", site, "leaf %d queried with ECX=0 bound as an asm input" % leaf, cfg=cn)
            if leaf is not None and leaf >= 2:
                if maxleaf >= leaf:
                    rep.ok("C13.R2", cons + ":maxleaf", site, "every %s-positive path tests CPUID.0:EAX >= %d" % (name, maxleaf), cfg=cn)
                else:
                    rep.violation("C13.R2", cons + ":maxleaf", site, "leaf %d is queried without a max-leaf test (CPUID.0:EAX >= %d): on older CPUs the result is that of the highest basic leaf" % (leaf, leaf), cfg=cn)
            if needs_os:
                if osx and xcr:
                    rep.ok("C13.R2", cons + ":osstate", site, "%s only reported under OSXSAVE and XCR0[2:1]=11b" % name, cfg=cn)
                else:
                    rep.violation("C13.R2", cons + ":osstate", site,
                                  "%s is reported without checking that the OS enabled the YMM state (%s): selecting the 256-bit back end then raises #UD" %
                                  (name, ", ".join(w for w, ok in (("CPUID.1:ECX.OSXSAVE[27]", osx), ("XGETBV XCR0[2:1]", xcr)) if not ok)), cfg=cn)
            if not needs_os and leaf == 1:
                rep.ok("C13.R2", cons + ":feature", site, "%s from CPUID.1 (always a valid leaf; state is part of the x86-64 baseline)" % name, cfg=cn)
        fs = {(n, w) for (n, w, o, a) in feats}
        feats_all = fs if feats_all is None else (feats_all & fs)
    return feats_all, unknown, asms


# ---------------------------------------------------------------- path enumeration of init functions

def enum_paths(f, limit=256, collapse_loops=False):
    """acyclic paths entry -> return.  With collapse_loops a natural loop is stepped over: from its header the path
    continues at the loop's exit targets (what happens inside is some other rule's business)."""
    paths = []
    loops = f.loops() if collapse_loops else {}

    def rec(b, acc):
        if len(paths) > limit:
            raise AnalysisBroken("too many paths in %s" % f.name)
        if b in acc:
            if collapse_loops:
                return
            raise AnalysisBroken("loop in init function %s" % f.name)
        acc = acc + [b]
        ss = f.succs[b]
        if b in loops:
            body = loops[b]
            ex = []
            for x in body:
                for y in f.succs[x]:
                    if y not in body and y not in ex:
                        ex.append(y)
            ss = ex
        if not ss:
            paths.append(acc)
            return
        for s in ss:
            rec(s, acc)
    rec(f.entry, [])
    return paths


def resolve(f, op, env, depth=0):
    while op[0] == "i" and depth < 50:
        depth += 1
        i = f.insts[op[1]]
        if i["op"] in CASTS:
            op = i["ops"][0]
        elif i["op"] == "phi":
            if i["id"] in env:
                op = env[i["id"]]
            else:
                break
        elif i["op"] == "select" and ("sel", i["id"]) in env:
            # `probe() ? &table_a : &table_b`: the outcome was fixed for this run (see probe_selects)
            op = i["ops"][1] if env[("sel", i["id"])] else i["ops"][2]
        else:
            break
    if op[0] == "ce" and op[1] in ("bitcast",):
        return resolve(f, op[2][0], env, depth + 1)
    return op


def probe_selects(f, probes):
    """select instructions whose condition is a test of a CPU probe's result: [(select id, probe name, polarity)]"""
    out = []
    for i in f.all_insts():
        if i["op"] != "select":
            continue
        c = i["ops"][0]
        ci = f.insts[c[1]] if c[0] == "i" else None
        if ci and ci["op"] == "icmp" and ci["pred"] in ("ne", "eq") and const_of(f, ci["ops"][1]) == 0:
            x = ci["ops"][0]
            while x[0] == "i" and f.insts[x[1]]["op"] in CASTS | {"zext"}:
                x = f.insts[x[1]]["ops"][0]
            xi = f.insts[x[1]] if x[0] == "i" else None
            if xi and xi["op"] == "call" and xi["callee"][0] == "f" and xi["callee"][1] in probes:
                out.append((i["id"], xi["callee"][1], ci["pred"] == "ne", f.bb_of[i["id"]]))
    return out


def run_path(prog, f, am, path, probes, sel_choice=None):
    """abstractly execute one path: probe outcomes assumed (name -> bool), stores to handle fields.
    sel_choice: {select id: condition value} for probe-conditioned selects on this run."""
    env = {}
    outcomes = {}
    for (sid, nm, pos, blk) in probe_selects(f, probes):
        if sel_choice is not None and sid in sel_choice and blk in path:
            env[("sel", sid)] = sel_choice[sid]
            outcomes[nm] = sel_choice[sid] if pos else (not sel_choice[sid])
    stores = {}
    dispatch = None
    feasible = True
    ret = None
    for n, b in enumerate(path):
        prev = path[n - 1] if n else None
        for i in f.bbmap[b]["insts"]:
            if i["op"] == "phi" and prev is not None:
                for v, pb in zip(i["ops"], i["inblocks"]):
                    if pb == prev:
                        env[i["id"]] = resolve(f, v, env)
            elif i["op"] == "store":
                a = am.of(i["ops"][1])
                if a is not None and a.root == ("arg", 0) and len(a.segs) == 1:
                    stores[a.segs[0].off] = resolve(f, i["ops"][0], env)
            elif i["op"] == "call" and i["callee"][0] == "i":
                dispatch = i
            elif i["op"] == "br" and len(i["succs"]) == 2 and n + 1 < len(path):
                taken_true = (path[n + 1] == i["succs"][0])
                c = i["ops"][0]
                ci = f.insts[c[1]] if c[0] == "i" else None
                if ci and ci["op"] == "icmp" and ci["pred"] in ("ne", "eq") and const_of(f, ci["ops"][1]) == 0:
                    x = ci["ops"][0]
                    while x[0] == "i" and f.insts[x[1]]["op"] in CASTS | {"zext"}:
                        x = f.insts[x[1]]["ops"][0]
                    xi = f.insts[x[1]] if x[0] == "i" else None
                    if xi and xi["op"] == "call" and xi["callee"][0] == "f" and xi["callee"][1] in probes:
                        val = taken_true if ci["pred"] == "ne" else (not taken_true)
                        nm = xi["callee"][1]
                        if nm in outcomes and outcomes[nm] != val:
                            feasible = False
                        outcomes[nm] = val
            elif i["op"] == "ret":
                ret = resolve(f, i["ops"][0], env) if i["ops"] else None
    return feasible, outcomes, stores, dispatch, ret


def table_width(prog, an, unit, g, fs):
    """max vector width (bits) used by any function reachable from the table's slots."""
    w = 0
    seen = set()
    for f in fs or []:
        if f is None:
            continue
        keys = {f.key} | set(an.summaries[f.key].callees)
        for k in keys:
            if k in seen:
                continue
            seen.add(k)
            for i in prog.funcs[k].all_insts():
                # clang widens scalar shift counts to <N x i32> splat temporaries (insertelement /
                # shufflevector / trunc) that say nothing about the ISA: skip those ops
                if i["op"] in ("insertelement", "shufflevector", "trunc", "zext", "sext", "extractelement", "call", "phi", "select"):
                    continue
                if i["op"] == "store":
                    t = str(i.get("vtype", ""))
                elif i["op"] == "alloca":
                    t = i.get("alloc_type", "")
                else:
                    t = i["type"]
                for m in re.finditer(r"<(\d+) x i(\d+)>", t):
                    w = max(w, int(m.group(1)) * int(m.group(2)))
    return w


def output_extent(prog, an, f):
    """bytes of P0 (output) the function certainly covers: max(off+size) of its constant-offset writes."""
    s = an.summaries[f.key]
    hi = 0
    lo = None
    for cl, cs in s.cls.items():
        for k, (loc, w) in cs.may.items():
            if loc.addr.root == ("arg", 0) and len(loc.addr.segs) == 1 and loc.addr.segs[0].off is not None and loc.size:
                hi = max(hi, loc.addr.segs[0].off + loc.size)
                lo = loc.addr.segs[0].off if lo is None else min(lo, loc.addr.segs[0].off)
    return hi if lo == 0 else 0


def is_stub_table(prog, an, g, fs):
    if g["zeroinit"] or not fs:
        return True
    for f in fs:
        if f is None:
            return True
        s = an.summaries[f.key]
        if any(cs.may for cs in s.cls.values()):
            return False
    return True


def run_config(ctx, rep, cfg, objects=True):
    cn = config_name(cfg)
    prog = ctx.prog(cfg)
    an = ctx.an(cfg)
    # probes = zero-argument int functions of the library
    probes = {}
    for f in prog.defined():
        if not f.params and f.ret == "i32" and not f.internal:
            probes[f.name] = f
    probe_info = {}
    for nm, f in sorted(probes.items()):
        s = an.summaries[f.key]
        feats, unknown, asms = probe_features(prog, an, f, rep, cn)
        can_nz = s.c("nz") is not None
        width = max([w for (n, w) in (feats or set())] + [0])
        probe_info[nm] = {"f": f, "feats": feats, "width": width, "can_nz": can_nz}
        if can_nz and not feats:
            rep.inconclusive("C13.R2", construct(f), fsite(f), "probe can return non-zero but no CPUID feature test was recognised on its success paths", cfg=cn)
        if not can_nz:
            rep.ok("C13.R2", construct(f) + ":const0", fsite(f), "probe is the constant 0 in this configuration", cfg=cn)
        # R5: stateless, no undeclared inputs
        probs = []
        for k, (loc, w) in s.reads.items():
            if loc.addr.root[0] != "alloca":
                probs.append("reads %s" % addr_str(loc.addr, prog))
        for cl, cs in s.cls.items():
            for k, (loc, w) in cs.may.items():
                probs.append("writes %s" % addr_str(loc.addr, prog))
        for aid, (inst, ai) in asms.items():
            # every asm input must be a constant (no data flows in from the environment)
            for j, o in enumerate(inst["ops"]):
                if const_of(f, o) is None:
                    probs.append("asm input %d at %s is not a constant" % (j, f.loc(inst)))
            if ai["kind"] is None:
                probs.append("unrecognised inline asm at %s" % f.loc(inst))
        if probs:
            rep.violation("C13.R5", construct(f), fsite(f), "probe result can vary between calls: " + "; ".join(probs[:3]), cfg=cn)
        else:
            rep.ok("C13.R5", construct(f), fsite(f), "no memory read or written; all %d inline-asm inputs are constants" % len(asms), cfg=cn)
    # tables
    tables = {}
    for (st, unit, g, fs) in vtable_instances(prog):
        tables[(unit, g["name"])] = {"struct": st, "unit": unit, "g": g, "fs": fs, "stub": is_stub_table(prog, an, g, fs),
                                     "width": table_width(prog, an, unit, g, fs)}
    # R1 / R3 / R6 per init
    ninit = 0
    gated = {}
    for name, f, c, decl in public_functions(ctx, prog):
        if c["kind"] != "init":
            continue
        ninit += 1
        s = an.summaries[f.key]
        am = s.fa.am
        cons = construct(f)
        vt_off = state_term(prog, f, 0, "vtable")[1][1][0]
        ps = state_term(prog, f, 0, "parallel_size")
        ps_off = ps[1][1][0] if ps else None
        results = []
        cands = set()
        sels = probe_selects(f, probes)
        import itertools
        runs = []
        for path in enum_paths(f):
            for choice in itertools.product([True, False], repeat=len(sels)):
                runs.append((path, {sid: ch for (sid, _, _, _), ch in zip(sels, choice)}))
        for (path, sel_choice) in runs:
            feasible, outcomes, stores, dispatch, ret = run_path(prog, f, am, path, probes, sel_choice)
            if not feasible or vt_off not in stores:
                continue
            if ret is not None and ret[0] == "c" and int(ret[1]) == 0:
                continue    # failure exit (object made inert, C16)
            v = stores[vt_off]
            tab = None
            if v[0] == "g":
                gd = prog.global_def(f.unit, v[1])
                tab = tables.get((gd[0], gd[1]["name"])) if gd else None
                if tab is None:
                    rep.inconclusive("C13.R1", cons, fsite(f), "vtable value @%s is not a known table" % v[1], cfg=cn)
                    continue
                cands.add((gd[0], gd[1]["name"]))
            elif v[0] != "n":
                rep.inconclusive("C13.R1", cons, fsite(f), "vtable value on a path is neither a table nor NULL", cfg=cn)
                continue
            results.append((outcomes, tab, stores.get(ps_off) if ps_off is not None else None))
        if not results:
            rep.inconclusive("C13.R1", cons, fsite(f), "no path stores the vtable", cfg=cn)
            continue
        cand_widths = {0} | {tables[k]["width"] for k in cands if not tables[k]["stub"]}
        for (outcomes, tab, psv) in results:
            avail = {0} | {probe_info[p]["width"] for p, v in outcomes.items() if v and probe_info[p]["can_nz"]}
            # a probe that was not consulted on this path counts as "unknown": both values must be fine -> treat as false
            label = ",".join("%s=%d" % (p.replace("_skinny_has_", ""), int(v)) for p, v in sorted(outcomes.items())) or "no probe"
            inst = "%s:[%s]" % (cons, label)
            infeasible = any(v and not probe_info[p]["can_nz"] for p, v in outcomes.items())
            if infeasible:
                continue
            w = tab["width"] if tab else 0
            best = max(x for x in cand_widths if x <= max(avail))
            tname = tab["g"]["name"] if tab else "NULL (scalar code)"
            if w > max(avail):
                rep.violation("C13.R1", inst, fsite(f), "selects %s which needs %d-bit vectors although the probes only reported %d-bit support" % (tname, w, max(avail)), cfg=cn)
            elif tab is not None and tab["stub"]:
                rep.violation("C13.R3", inst, fsite(f), "selects the stubbed-out table %s (its probe can return non-zero in this build)" % tname, cfg=cn)
            elif w != best:
                rep.violation("C13.R1", inst, fsite(f), "selects %s (%d-bit) although a %d-bit back end is compiled in and supported" % (tname, w, best), cfg=cn)
            else:
                rep.ok("C13.R1", inst, fsite(f), "selects %s (%d-bit): widest compiled-in candidate within the probed ISA" % (tname, w), cfg=cn)
            if tab is not None and w >= 256:
                gated[(tab["unit"], tab["g"]["name"])] = tab
            # R6
            if ps_off is not None:
                B = block_size(name)
                pv = int(psv[1]) if psv is not None and psv[0] == "c" else None
                if pv is None:
                    rep.violation("C13.R6", inst, fsite(f), "parallel_size is not assigned a constant on this path", cfg=cn)
                elif tab is None:
                    if pv > 0 and pv % B == 0:
                        rep.ok("C13.R6", inst, fsite(f), "parallel_size %d is a positive multiple of the block size (scalar back end)" % pv, cfg=cn)
                    else:
                        rep.violation("C13.R6", inst, fsite(f), "parallel_size %d is not a positive multiple of %d" % (pv, B), cfg=cn)
                else:
                    ext = output_extent(prog, an, tab["fs"][0]) if tab["fs"] and tab["fs"][0] else 0
                    if ext == pv:
                        rep.ok("C13.R6", inst, fsite(f), "parallel_size %d = bytes written per call by %s" % (pv, tab["fs"][0].name), cfg=cn)
                    else:
                        rep.violation("C13.R6", inst, fsite(f), "parallel_size %d but %s processes %d bytes per call: blocks are skipped or overrun" % (pv, tab["fs"][0].name, ext), cfg=cn)
    # R3 converse: a compiled-in table whose probe is constant 0 (per-unit flag mismatch)
    for k, t in sorted(tables.items()):
        if t["stub"]:
            continue
        need = t["width"]
        if need == 0:
            continue
        ok = any(pi["can_nz"] and pi["width"] >= need for pi in probe_info.values())
        inst = "src/%s.c:%s" % (t["unit"], t["g"]["name"])
        if ok:
            rep.ok("C13.R3", inst, "", "%d-bit table is compiled in and a probe can report %d-bit support" % (need, need), cfg=cn)
        else:
            rep.violation("C13.R3", inst, "", "%d-bit back end is compiled in but no probe can report that width in this build (dead back end: per-unit flags disagree)" % need, cfg=cn)
    return ninit, probe_info, tables, gated


def vex_scan(rep, gated_units):
    """E8: build the objects with the repo's own Makefile in a scratch copy and attribute VEX/EVEX code to units."""
    tmp = tempfile.mkdtemp(prefix="skv-obj-")
    try:
        dst = os.path.join(tmp, "repo")
        subprocess.run(["rsync", "-a", "--exclude", ".git", "--exclude", "*.o", "--exclude", "*.a", REPO + "/", dst + "/"], check=True)
        p = subprocess.run(["make", "-s", "-j16", "-C", os.path.join(dst, "src"), "all"], capture_output=True, text=True)
        if p.returncode != 0:
            raise AnalysisBroken("scratch build of src/ failed: " + p.stderr[-300:])
        n = 0
        for fn in sorted(os.listdir(os.path.join(dst, "src"))):
            if not fn.endswith(".o"):
                continue
            n += 1
            unit = fn[:-2]
            d = subprocess.run(["objdump", "-d", "--no-show-raw-insn", os.path.join(dst, "src", fn)], capture_output=True, text=True).stdout
            vex = []
            cur = None
            for line in d.splitlines():
                m = re.match(r"^[0-9a-f]+ <([^>]+)>:", line)
                if m:
                    cur = m.group(1)
                    continue
                m = re.match(r"^\s*[0-9a-f]+:\s+(\S+)\s*(.*)$", line)
                if not m:
                    continue
                mn, ops = m.group(1), m.group(2)
                if re.search(r"%[yz]mm\d+", ops) or (mn.startswith("v") and re.search(r"%xmm\d+", ops)) or mn in ("vzeroupper", "vzeroall"):
                    vex.append((cur, mn))
            inst = "src/%s.c:object" % unit
            if vex and unit not in gated_units:
                fnames = sorted({v[0] for v in vex})
                rep.violation("C13.R4", inst, "src/%s.c" % unit,
                              "%d VEX-encoded instructions (e.g. %s in %s) in an object that is not reachable solely through an AVX2-gated table: it executes on CPUs without AVX" %
                              (len(vex), vex[0][1], fnames[0]), fnames[:6])
            else:
                rep.ok("C13.R4", inst, "src/%s.c" % unit, "%d VEX instructions%s" % (len(vex), " (AVX2-gated unit)" if unit in gated_units else ""))
        return n
    finally:
        shutil.rmtree(tmp, ignore_errors=True)


def run(ctx, rep):
    rep.assume("x86 / x86-64 target (the build the repository ships); NEON builds are outside what can be compiled here",
               "Intel SDM vol.2A CPUID and vol.1 ch.14.3: AVX-class features require CPUID.1:ECX.OSXSAVE and XCR0[2:1]=11b; leaf 7 takes ECX as sub-leaf",
               "objects are built by the repository's Makefile with the host cc and only disassembled, never executed")
    first = None
    for cfg in ctx.configs():
        ninit, probe_info, tables, gated = run_config(ctx, rep, cfg)
        if cfg is None:
            first = (probe_info, tables, gated)
            rep.floor("C13.R1", "public init functions", ninit, 6)
            rep.floor("C13.R2", "CPU probes", len(probe_info), 2)
            rep.floor("C13.R3", "constant vtables", len(tables), 11)
            # units whose every externally visible definition is an AVX2-gated table or a slot target of one
            prog = ctx.prog(None)
            gated_syms = set()
            for k, t in gated.items():
                gated_syms.add((t["unit"], t["g"]["name"]))
                for f in t["fs"] or []:
                    if f is not None:
                        gated_syms.add((f.unit, f.name))
            gated_units = set()
            for unit in prog.mods:
                ext = [(unit, f.name) for f in prog.defined() if f.unit == unit and not f.internal]
                ext += [(unit, g["name"]) for (u, gn), g in prog.globals.items() if u == unit and not g["decl"] and not g["internal"]]
                if ext and all(e in gated_syms for e in ext):
                    gated_units.add(unit)
            n = vex_scan(rep, gated_units)
            rep.floor("C13.R4", "objects disassembled", n, 14)
            rep.analysed["avx2_gated_units"] = sorted(gated_units)
        else:
            ctx.release(cfg)
    # fixture
    from ..report import Report
    fp = ctx.fixture("c13_bad_probe.c", flags=("-mavx2",))
    fan = Analyzer(fp)
    tmp = Report("C13", "fixture")
    for nm in ("fx_has_avx2_nosubleaf", "fx_has_cached"):
        f = fp.resolve(None, nm)
        probe_features(fp, fan, f, tmp, "fixture")
    got = {}
    for o in tmp.obs:
        if o["status"] == "VIOLATION":
            got.setdefault(o["rule"], []).append(o["construct"])
    rep.fixture("C13.R2", "c13_bad_probe.c", "C13.R2" in got and len(got["C13.R2"]) >= 3, "flagged: %s" % sorted(got.get("C13.R2", [])))
