"""C04 — tweakable SKINNY: result depends only on key and latest tweak (structural necessary conditions)."""
from ..build import config_name
from ..ir import CASTS, indirect_targets
from ..mem import addr_str
from ..summary import akey
from ..initflow import InitFlow, lf_const, lf_add, lf_str, lf_is_const
from ..contract import block_size, family
from ..report import Report
from .common import public_functions, construct, fsite, csite, handle_type, direct_calls
from .c13 import enum_paths, const_of
from .ctr import ctr_backends
from . import c05, c10
from .routing_rules import helpers as RH
from .c04_alg import Algebra, pass_linearity

TITLE = ("Decided, all necessary for 'result depends only on key and latest tweak' (conformance with the specification is "
         "not decided): (R1) byte-range XOR algebra over every path of set_tweak: the buffers handed to the schedule pass "
         "sum, byte for byte, to old stored tweak ^ zero-padded new tweak (old tweak alone for NULL), whatever the "
         "spelling; the pass routine is linear under the constants of the call (xors only tweakey-derived values into "
         "schedule words), steps the tweakey permutation once per round under the rounds bound, and as a GF(2) affine map "
         "walks the tweakey exactly like the TK1 setter; (R2) a fresh tweaked schedule zero-fills the whole tweak field, "
         "passes that field as TK1 with the domain flag 1, the untweaked path passes flag 0; (R3) after set_tweak every "
         "byte of the stored tweak is argument bytes followed by zeros (NULL = all zeros, never dereferenced) and the "
         "field is only written by copies of the caller's bytes or zero fills; (R4) the CTR tweak API in every back end "
         "hands the caller's arguments unchanged to the core functions on every success path and invalidates buffered "
         "keystream; (R5) round count 48/56 (36/40) by key-length class on the tweaked path.")


def tweak_field(prog, f, k=0):
    ht = handle_type(f, k)
    for m in prog.ditypes.get(ht, {}).get("members", []):
        if m["name"] == "tweak":
            return ht, m["off"], m["size"]
    return ht, None, None


def check_set_tweak(prog, an, rep, cn, name, f, c, decl):
    cons = construct(f)
    s = an.summaries[f.key]
    am = s.fa.am
    ht, toff, tsz = tweak_field(prog, f)
    if toff is None:
        rep.inconclusive("C04.R1", cons, fsite(f), "no `tweak` field in %s" % ht, cfg=cn)
        return
    tidx = [k for k, p in enumerate(decl["params"]) if p["name"] == "tweak"][0]
    fl = InitFlow(f, an, track_args=True)

    def is_field(op):
        p = fl.ptr(op) if op[0] in ("i", "a") else None
        return p is not None and p[0] == (("arg", 0), ()) and lf_is_const(p[1]) and toff <= p[1][0] < toff + tsz

    def is_local(op):
        p = fl.ptr(op) if op[0] in ("i", "a") else None
        return p[0] if p is not None and p[0][0][0] == "alloca" else None
    # the copy of the old tweak
    copy = None
    field_writes = []
    xor_calls = []
    for i in f.all_insts():
        if i["op"] == "call":
            base = i.get("intrinsic") or (i["callee"][1] if i["callee"][0] == "f" else "")
            if base in ("llvm.memcpy", "llvm.memmove"):
                if is_local(i["ops"][0]) and is_field(i["ops"][1]):
                    copy = i
                elif is_field(i["ops"][0]):
                    field_writes.append(i)
            elif base == "llvm.memset" and is_field(i["ops"][0]):
                field_writes.append(i)
            elif i["callee"][0] == "f" and prog.resolve(f.unit, i["callee"][1]) is not None and len(i["ops"]) == 2:
                xor_calls.append(i)
        elif i["op"] == "store" and is_field(i["ops"][1]):
            field_writes.append(i)
    # R3 provenance: the stored tweak may only ever be written with the caller's bytes or zeros
    prov_bad = None
    for i in f.all_insts():
        if i["op"] == "store" and is_field(i["ops"][1]) and not (i["ops"][0][0] == "c" and int(i["ops"][0][1]) == 0):
            prov_bad = (i, "a computed value is stored")
        if i["op"] == "call" and i["callee"][0] == "f":
            g = prog.resolve(f.unit, i["callee"][1])
            if g is None:
                continue
            gs = an.summaries[g.key]
            for j, o in enumerate(i["ops"]):
                if o[0] in ("i", "a") and is_field(o) and any(l.addr.root == ("arg", j) for cs in gs.cls.values() for (l, w) in cs.may.values()):
                    prov_bad = (i, "%s writes computed bytes into it" % g.name)
    # ---- R1: what the passes xor into the schedule (byte-range XOR algebra, c04_alg)
    sidx = [k for k, p in enumerate(decl["params"]) if p["name"] in ("tweak_size", "size")]
    ksoff = None
    for m in prog.ditypes.get(ht, {}).get("members", []):
        if m["name"] == "ks":
            ksoff = m["off"]
    res = None
    if sidx and ksoff is not None:
        A = Algebra(prog, an, f, toff, tsz, tidx, sidx[0], ksoff)
        try:
            res = A.run()
        except Exception:
            res = None
    if res is not None and any(r["calls"] for r in res):
        okA = True
        nsucc = 0
        for r in res:
            if r["success"] is False:
                if r["calls"]:
                    rep.violation("C04.R1", cons + ":reject", f.loc(r["calls"][0][0]), "a rejecting path of set_tweak has already xored into the schedule", cfg=cn)
                    okA = False
                continue
            nsucc += 1
            want_head = frozenset(["OLD"]) if r["null"] else frozenset(["OLD", "ARG"])
            want_tail = frozenset(["OLD"])
            tot = r["total"]
            where = f.loc(r["calls"][0][0]) if r["calls"] else fsite(f)
            label = cons + (":null" if r["null"] else ":bytes")
            def show(x):
                return "unknown bytes" if x is None else ("0" if not x else " ^ ".join(sorted({"OLD": "old tweak", "ARG": "new tweak"}[t] for t in x)))
            if tot["head"] is None or tot["tail"] is None:
                rep.violation("C04.R1", label, where, "bytes of unknown content reach the schedule pass (first tweak_size bytes: %s; rest: %s)" % (show(tot["head"]), show(tot["tail"])), cfg=cn)
                okA = False
            elif tot["head"] != want_head or tot["tail"] != want_tail:
                rep.violation("C04.R1", label, where,
                              "the passes xor (%s) over the first tweak_size bytes and (%s) over the rest into the schedule; a fresh schedule for the new tweak needs (%s) and (%s): %s" %
                              (show(tot["head"]), show(tot["tail"]), show(want_head), show(want_tail),
                               "part of the old tweak is never removed, so the result depends on earlier tweaks" if "OLD" not in (tot["tail"] or ()) or "OLD" not in (tot["head"] or ()) else "the new tweak is not applied as stored"), cfg=cn)
                okA = False
        if nsucc == 0:
            rep.inconclusive("C04.R1", cons, fsite(f), "no success path of set_tweak recognised", cfg=cn)
            okA = False
        # the pass routine(s): same routine everywhere, linear under the constants of the call
        routines = {}
        for r in res:
            for (ci, g, bid) in r["calls"]:
                consts = {k: int(o[1]) for k, o in enumerate(ci["ops"]) if o[0] == "c"}
                for k, o in enumerate(ci["ops"]):
                    if o[0] == "n":
                        consts[k] = 0          # a NULL function / data pointer argument
                    elif o[0] == "f":
                        consts[k] = "fn"       # a function address: non-null
                routines.setdefault((g.key, tuple(sorted(consts.items()))), (ci, g, consts))
        if len({k[0] for k in routines}) > 1:
            rep.violation("C04.R1", cons + ":passes", fsite(f), "old and new tweak go through different routines (%s)" % sorted(k[0][1] for k in routines), cfg=cn)
            okA = False
        for (gk, cs), (ci, g, consts) in sorted(routines.items()):
            bad, nst, nreach = pass_linearity(prog, g, consts)
            if bad:
                rep.violation("C04.R1", construct(g) + ":linear", g.loc(bad[0][0]), "the schedule pass used by set_tweak is not linear in the tweak: %s (the xor-out / xor-in passes only cancel in pairs, so the result depends on how many tweak changes came before)" % bad[0][1], cfg=cn)
                okA = False
            elif nst == 0:
                rep.violation("C04.R1", construct(g) + ":linear", fsite(g), "the routine handed the tweak by set_tweak never stores into the key schedule under these arguments", cfg=cn)
                okA = False
            else:
                rep.ok("C04.R1", construct(g) + ":linear", fsite(g), "%d schedule stores, each xors only key-derived values into the stored word (no constants)" % nst, cfg=cn)
        if okA:
            rep.ok("C04.R1", cons, fsite(f), "on every success path the buffers handed to %s sum to old tweak ^ zero-padded new tweak, byte for byte (%d paths)" % (sorted({g.name for r in res for (_, g, _) in r["calls"]}), nsucc), cfg=cn)
    else:
        def old_idiom():
            if copy is None or len(xor_calls) != 2:
                # single-pass variant: xor(old ^ new) is accepted only if recognised; anything else is not modelled
                rep.inconclusive("C04.R1", cons, fsite(f), "shadow-tweak idiom not recognised (copy of the old tweak: %s, xor passes: %d)" % ("found" if copy else "missing", len(xor_calls)), cfg=cn)
                return False
            n = const_of(f, copy["ops"][2])
            shadow = is_local(copy["ops"][0])
            ok = True
            if n != tsz:
                rep.violation("C04.R1", cons + ":copy", f.loc(copy), "only %s of the %d stored tweak bytes are saved before the field is overwritten" % (n, tsz), cfg=cn)
                ok = False
            late = [w for w in field_writes if not f.inst_dominates(copy["id"], w["id"])]
            if late:
                rep.violation("C04.R1", cons + ":order", f.loc(late[0]), "the stored tweak is overwritten before (or without) the old value being saved: the old tweak cannot be xored out of the schedule", cfg=cn)
                ok = False
            if not field_writes:
                rep.violation("C04.R1", cons + ":store", fsite(f), "the new tweak is never stored in the schedule's tweak field: from the second change on the result depends on earlier tweaks", cfg=cn)
                ok = False
            c_old = [x for x in xor_calls if is_local(x["ops"][1]) == shadow]
            c_new = [x for x in xor_calls if is_field(x["ops"][1])]
            if len(c_old) != 1 or len(c_new) != 1:
                rep.violation("C04.R1", cons + ":passes", f.loc(xor_calls[0]), "the two schedule passes do not take (saved old tweak, stored new tweak): %d use the saved copy, %d use the field" % (len(c_old), len(c_new)), cfg=cn)
                ok = False
            else:
                if c_old[0]["callee"][1] != c_new[0]["callee"][1]:
                    rep.violation("C04.R1", cons + ":passes", f.loc(c_new[0]), "old and new tweak go through different routines (%s / %s)" % (c_old[0]["callee"][1], c_new[0]["callee"][1]), cfg=cn)
                    ok = False
                if not f.inst_dominates(copy["id"], c_old[0]["id"]):
                    rep.violation("C04.R1", cons + ":passes", f.loc(c_old[0]), "the xor-out pass runs before the old tweak is saved", cfg=cn)
                    ok = False
                rds = [r for r in fl.reads if r[0]["id"] == c_new[0]["id"] and r[1] == (("arg", 0), ()) and
                       lf_is_const(r[2]) and toff <= r[2][0] < toff + tsz]
                if not rds or any(not r[4] for r in rds):
                    rep.violation("C04.R1", cons + ":passes", f.loc(c_new[0]), "the xor-in pass reads the tweak field before it has been completely rewritten", cfg=cn)
                    ok = False
                # both passes address the same key schedule (ks->ks)
                a0, a1 = am.of(c_old[0]["ops"][0]), am.of(c_new[0]["ops"][0])
                if a0 is None or a1 is None or akey(a0) != akey(a1):
                    rep.violation("C04.R1", cons + ":passes", f.loc(c_new[0]), "the two passes update different schedules", cfg=cn)
                    ok = False
            if ok:
                rep.ok("C04.R1", cons, fsite(f), "copy(old) -> rewrite field -> xor(old copy), xor(field) through %s" % xor_calls[0]["callee"][1], cfg=cn)
            return True
        old_idiom()
    # R3 from the algebra when it knows the final content of the field on every success path: the stored tweak
    # must be the zero-padded new tweak (all zero for NULL), however it was put there
    alg_field = None
    if res is not None:
        fs = [(r["null"], r["field"]) for r in res if r["success"] is not False]
        if fs and all(fr is not None and fr.get("head") is not None and fr.get("tail") is not None for (_, fr) in fs):
            alg_field = fs
    if alg_field is not None:
        badf = [(nl, fr) for (nl, fr) in alg_field if not (fr["tail"] == frozenset() and fr["head"] == (frozenset() if nl else frozenset(["ARG"])))]
        if badf:
            nl, fr = badf[0]
            def show(x):
                return "0" if not x else " ^ ".join(sorted({"OLD": "old tweak", "ARG": "new tweak"}[t] for t in x))
            rep.violation("C04.R3", cons + ":provenance", fsite(f), "after set_tweak%s the stored tweak holds (%s) in its first tweak_size bytes and (%s) in the rest instead of the new tweak followed by zeros: the remembered tweak no longer equals the last tweak set and later changes depend on earlier tweaks" %
                          (" with a NULL tweak" if nl else "", show(fr["head"]), show(fr["tail"])), cfg=cn)
        else:
            rep.ok("C04.R3", cons + ":provenance", fsite(f), "on every success path the stored tweak ends up as the caller's bytes followed by zeros (byte-range algebra)", cfg=cn)
        if ("a", tidx) in s.needs_nonnull:
            rep.violation("C04.R3", cons + ":null", csite(s.needs_nonnull[("a", tidx)]), "a NULL tweak (documented to mean the all-zero tweak) is dereferenced: %s" % s.needs_nonnull[("a", tidx)], cfg=cn)
        else:
            rep.ok("C04.R3", cons + ":null", fsite(f), "a NULL tweak is never dereferenced; that path zero-fills the field", cfg=cn)
        if not badf:
            rep.ok("C04.R3", cons, fsite(f), "stored tweak := argument bytes followed by zeros on every success path (all %d bytes defined)" % tsz, cfg=cn)
        return
    if prov_bad:
        rep.violation("C04.R3", cons + ":provenance", f.loc(prov_bad[0]), "the stored tweak is not kept as 'argument bytes followed by zeros': %s, so the remembered tweak no longer equals the last tweak set and later changes depend on earlier tweaks" % prov_bad[1], cfg=cn)
    else:
        rep.ok("C04.R3", cons + ":provenance", fsite(f), "the tweak field is only written by copies of the caller's bytes and zero fills", cfg=cn)
    # R3 normalisation
    obj = (("arg", 0), ())
    succ = [e for e in fl.exits if e[0] in ("nz", "?")]
    full = succ and all(InitFlow.covers(e[1].get(obj, ()), lf_const(toff), lf_const(toff + tsz)) for e in succ)
    shape_ok = True
    for w in field_writes:
        base = w.get("intrinsic") or ""
        p = fl.ptr(w["ops"][0] if w["op"] == "call" else w["ops"][1])
        if base in ("llvm.memcpy", "llvm.memmove"):
            sp = fl.ptr(w["ops"][1])
            if sp is None or sp[0] != (("arg", tidx), ()) or sp[1] != lf_const(0) or p[1] != lf_const(toff):
                shape_ok = False
                rep.violation("C04.R3", cons + ":shape", f.loc(w), "the caller's tweak bytes are not copied from its start to the start of the field", cfg=cn)
        elif base == "llvm.memset":
            if const_of(f, w["ops"][1]) != 0:
                shape_ok = False
                rep.violation("C04.R3", cons + ":shape", f.loc(w), "padding is not zero", cfg=cn)
    if ("a", tidx) in s.needs_nonnull:
        rep.violation("C04.R3", cons + ":null", csite(s.needs_nonnull[("a", tidx)]), "a NULL tweak (documented to mean the all-zero tweak) is dereferenced: %s" % s.needs_nonnull[("a", tidx)], cfg=cn)
    else:
        rep.ok("C04.R3", cons + ":null", fsite(f), "a NULL tweak is never dereferenced; that path zero-fills the field", cfg=cn)
    if not full:
        have = [[(lf_str(x), lf_str(y)) for x, y in e[1].get(obj, ())] for e in succ]
        rep.violation("C04.R3", cons, fsite(f), "after set_tweak bytes of the stored tweak [%d,%d) remain from the previous tweak on some path (a short tweak is not zero-extended): written %s" % (toff, toff + tsz, have[:2]), cfg=cn)
    elif shape_ok:
        rep.ok("C04.R3", cons, fsite(f), "stored tweak := argument bytes followed by zeros on every success path (all %d bytes defined)" % tsz, cfg=cn)


def _exclusive(f, a, b):
    """instruction a cannot precede b on any path (different branches)"""
    ba, bb = f.bb_of[a["id"]], f.bb_of[b["id"]]
    return bb not in f.reachable_from(ba) and ba != bb


def run_config(ctx, rep, cfg):
    cn = config_name(cfg)
    prog = ctx.prog(cfg)
    an = ctx.an(cfg)
    pubs = public_functions(ctx, prog)
    nst = 0
    for name, f, c, decl in pubs:
        fam = family(name)
        if fam == "mantis":
            continue
        # ---- R1 / R3
        if c["kind"] == "tweak" and "ks" in c["params"]:
            nst += 1
            if f.loops():
                # a shared schedule driver was inlined into set_tweak by the specialiser: the byte algebra reasons
                # per call, so it runs on the call-shaped IR (clang -O0 + mem2reg only) of the same source
                progc = ctx.prog(cfg, "O0c")
                fc = progc.funcs.get(f.key)
                if fc is not None and not fc.loops():
                    from ..summary import Analyzer
                    anc = ctx.__dict__.setdefault("_anc", {}).get(cn)
                    if anc is None:
                        anc = ctx.__dict__["_anc"][cn] = Analyzer(progc)
                    check_set_tweak(progc, anc, rep, cn, name, fc, c, decl)
                    continue
            check_set_tweak(prog, an, rep, cn, name, f, c, decl)
            # the xor pass routine: bounded by rounds, steps the same permutation helper as the TK1 setter
            xs = [i for i in direct_calls(f) if prog.resolve(f.unit, i["callee"][1]) is not None and len(i["ops"]) == 2]
            if xs:
                x = prog.resolve(f.unit, xs[0]["callee"][1])
                xcallees = {i["callee"][1] for i in direct_calls(x) if prog.resolve(x.unit, i["callee"][1]) is not None}
                # the tweakey permutation is the callee that is a pure bit routing (E7b); other helpers (a shared
                # unpack routine before the loop) are not part of the per-round step
                perms = {k[1] for k, h in RH(prog).items() if h["table"] is not None and k[0] == x.unit}
                if xcallees & perms:
                    xcallees &= perms
                setters = [g for g in prog.defined() if g.unit == x.unit and g is not x and
                           any(i["callee"][1] in xcallees for i in direct_calls(g)) and len(g.params) == 4]
                inl = [i for i in x.all_insts() if i["op"] == "call" and i["callee"][0] == "f" and i["callee"][1] in xcallees]
                loops = x.loops()
                in_loop = all(any(x.bb_of[i["id"]] in body for body in loops.values()) for i in inl)
                from .c11 import loops_bounded_by_rounds
                lb = loops_bounded_by_rounds(prog, x, an.summaries[x.key].fa.am)
                if len(inl) == 1 and in_loop and setters and lb and all(ok for (h, ok, d) in lb):
                    rep.ok("C04.R1", construct(x) + ":pass", fsite(x), "one %s per round inside a loop bounded by rounds, the helper the TK1 setter %s uses" % (inl[0]["callee"][1], setters[0].name), cfg=cn)
                else:
                    rep.violation("C04.R1", construct(x) + ":pass", fsite(x), "the xor pass does not step the tweakey permutation exactly once per round under the rounds bound like the TK1 setter (calls in loop: %d, setters sharing the helper: %d, bounded: %s)" %
                                  (len(inl), len(setters), [d for (h, ok, d) in lb]), cfg=cn)
        # ---- R2
        if c["kind"] == "key" and "key_size" in c["params"] and "ks" in c["params"]:
            cons = construct(f)
            s = an.summaries[f.key]
            ht, toff, tsz = tweak_field(prog, f)
            nz = s.c("nz")
            z = None
            for k, (loc, t) in ((nz.must or {}).items() if nz else []):
                if loc.addr.root == ("arg", 0) and len(loc.addr.segs) == 1 and loc.addr.segs[0].off == toff and loc.size == tsz:
                    z = t
            inner = [i for i in direct_calls(f) if prog.resolve(f.unit, i["callee"][1]) is not None]
            if z != ("c", 0):
                rep.violation("C04.R2", cons + ":zero", fsite(f), "a freshly keyed tweakable schedule does not zero the whole stored tweak on every success path", cfg=cn)
            else:
                rep.ok("C04.R2", cons + ":zero", fsite(f), "stored tweak := 0 (%d bytes) on every success path" % tsz, cfg=cn)
            okp = False
            for i in inner:
                for o in i["ops"]:
                    a = s.fa.am.of(o) if o[0] in ("i", "a") else None
                    if a is not None and a.root == ("arg", 0) and len(a.segs) == 1 and a.segs[0].off == toff:
                        okp = True
            if okp:
                rep.ok("C04.R2", cons + ":tk1", fsite(f), "the zeroed tweak field itself is handed to the schedule builder as TK1", cfg=cn)
            else:
                rep.violation("C04.R2", cons + ":tk1", fsite(f), "the schedule builder is not given the stored tweak field as TK1", cfg=cn)
    # ---- R2 domain flag / R5 via the round-count selector paths
    for f in sorted(prog.defined(), key=lambda x: x.key):
        if not f.name.startswith(("skinny128", "skinny64")) or len(f.params) != 4:
            continue
        am = an.summaries[f.key].fa.am
        sel = any(i["op"] == "store" and i["ops"][0][0] == "c" and am.of(i["ops"][1]) is not None and am.of(i["ops"][1]).root == ("arg", 0) and
                  am.of(i["ops"][1]).segs[-1].ty and am.of(i["ops"][1]).segs[-1].off is not None and
                  prog.describe(am.of(i["ops"][1]).segs[-1].ty, am.of(i["ops"][1]).segs[-1].off)[-1:] == ["rounds"] for i in f.all_insts())
        if not sel:
            continue
        # per path: tweak null? -> flag constant of the first 4-argument call, and its key argument
        for path in enum_paths(f, limit=4000, collapse_loops=True):
            tweak_null = None
            calls = []
            for n, b in enumerate(path):
                for i in f.bbmap[b]["insts"]:
                    if i["op"] == "br" and len(i["succs"]) == 2 and n + 1 < len(path) and i["ops"][0][0] == "i":
                        cnd = f.insts[i["ops"][0][1]]
                        if cnd["op"] == "icmp" and cnd["ops"][1][0] == "n":
                            truth = path[n + 1] == i["succs"][0]
                            isnull = (cnd["pred"] == "eq") == truth
                            tweak_null = isnull
                    elif i["op"] == "call" and i["callee"][0] == "f" and len(i["ops"]) == 4:
                        calls.append(i)
            if tweak_null is None or not calls:
                continue
            tk1 = calls[0]
            flag = const_of(f, tk1["ops"][3])
            inst = "%s:[%s]" % (construct(f), ">".join(path[1:4]))
            src = tk1["ops"][1]
            while src[0] == "i" and f.insts[src[1]]["op"] in CASTS:
                src = f.insts[src[1]]["ops"][0]
            if tweak_null:
                if flag == 0 and src == ["a", 1]:
                    rep.ok("C04.R2", inst, f.loc(tk1), "untweaked path: TK1 := key, domain flag 0", cfg=cn)
                else:
                    rep.violation("C04.R2", inst, f.loc(tk1), "untweaked path sets TK1 from %s with domain flag %s (expected the key, flag 0)" % (src, flag), cfg=cn)
            else:
                if flag == 1 and src == ["a", 3]:
                    rep.ok("C04.R2", inst, f.loc(tk1), "tweaked path: TK1 := tweak, domain flag 1", cfg=cn)
                else:
                    rep.violation("C04.R2", inst, f.loc(tk1), "tweaked path sets TK1 from %s with domain flag %s (expected the tweak, flag 1: tweaked and untweaked ciphers must be domain-separated)" % (src, flag), cfg=cn)
    # ---- R4: CTR tweak API
    nctr = 0
    for b in ctr_backends(ctx, prog, an):
        if b.family == "mantis":
            continue
        for name, g in sorted(b.roles.items()):
            if not (name.endswith("_set_tweak") or name.endswith("_set_tweaked_key")):
                continue
            nctr += 1
            core = name.replace("_ctr_", "_")
            cons = construct(g)
            calls = [i for i in direct_calls(g) if i["callee"][1] == core]
            if len(calls) != 1:
                rep.violation("C04.R4", cons, fsite(g), "does not reach %s exactly once" % core, cfg=cn)
                continue
            i = calls[0]
            gs = an.summaries[g.key]
            skipped = [e for e in gs.exit_states if e[0] == "nz" and ("ne", ("call", i["id"]), ("c", 0)) not in e[1].facts]
            if skipped:
                rep.violation("C04.R4", cons + ":always", csite(skipped[0][2]), "%s can report success on a path where %s was not called (or its result not checked): the tweak/key the caller passed is ignored there" % (name, core), cfg=cn)
            else:
                rep.ok("C04.R4", cons + ":always", g.loc(i), "every success path passes through a successful %s" % core, cfg=cn)
            a1, a2 = i["ops"][1], i["ops"][2]
            while a1[0] == "i" and g.insts[a1[1]]["op"] in CASTS:
                a1 = g.insts[a1[1]]["ops"][0]
            if a1 == ["a", 1] and a2 == ["a", 2]:
                # the object handed over must be this context's tweakable schedule
                C = c05.Ctx5(prog, an, b, g, b.handle_idx[name])
                fld = C.field(i["ops"][0])
                if fld and fld[0] == "kt" and fld[1] == 0:
                    rep.ok("C04.R4", cons, g.loc(i), "caller's pointer and length reach %s unchanged on this context's schedule; buffer invalidated (C05.R1)" % core, cfg=cn)
                else:
                    rep.violation("C04.R4", cons, g.loc(i), "%s is applied to %s, not to the context's tweakable key schedule" % (core, fld), cfg=cn)
            else:
                rep.violation("C04.R4", cons, g.loc(i), "the caller's tweak/key pointer and length are not passed unchanged to %s" % core, cfg=cn)
    # invalidation = C05.R1 on those functions; R5 = C10.R5 tweaked rows
    tmp = Report("C05", "sub")
    c05.run_config(ctx, tmp, cfg)
    for o in tmp.obs:
        if o["rule"] == "C05.R1" and ("set_tweak" in o["construct"]):
            rep.add("C04.R4", o["construct"] + ":invalidate", o["status"], o["site"], o["detail"], cfg=cn)
    tmp = Report("C10", "sub")
    c10.run_config(ctx, tmp, cfg)
    for o in tmp.obs:
        if o["rule"] == "C10.R5" and "[tweaked" in o["construct"]:
            rep.add("C04.R5", o["construct"], o["status"], o["site"], o["detail"], cfg=cn)
    return nst, nctr


def run(ctx, rep):
    rep.assume("not decided: conformance of the tweaked cipher with the specification (values of the S-box, LFSR and permutation tables)",
               "the TK1 part of the schedule is treated as linear in TK1: decided for the xor pass (every schedule word is xored with tweakey bits only, walked like the TK1 setter)")
    from . import affine_rules
    for cfg in ctx.configs():
        nst, nctr = run_config(ctx, rep, cfg)
        nwalk = affine_rules.check_pass_walk(ctx, rep, cfg)
        if cfg is None:
            rep.floor("C04.R1", "xor passes compared with their TK1 setter (GF(2) maps)", nwalk, 0)
            rep.floor("C04.R1", "core set_tweak functions", nst, 2)
            rep.floor("C04.R4", "CTR tweak entry points over all back ends", nctr, 4)
        else:
            ctx.release(cfg)
