"""C11 — results are a function of API inputs only (no uninitialised-memory dependence)."""
import re

from ..build import config_name
from ..ir import CASTS, relpath
from ..mem import addr_str, ALLOCATORS
from ..summary import Analyzer, akey, term_str
from ..initflow import InitFlow, lf_str, scalar_uninit
from .common import public_functions, construct, fsite, csite, handle_type, direct_calls

TITLE = ("(R1) byte-granular definite-initialisation dataflow over every stack object of every function (union members as "
         "byte ranges, symbolic adjacent ranges, loop-filled arrays, callee reads/writes through summaries): no read of "
         "bytes that are not written on all paths; (R2) no undef operand after mem2reg; (R3) the library allocates only "
         "through calloc (directly or via its aligned wrapper); (R4) every init success path must-writes every field of the "
         "caller's handle; (R5) every field of a key-schedule type that any function reads through a pointer-to-const is "
         "must-written (arrays: may-written under R6) on the success paths of every function that keys it; (R6) loops over "
         "the schedule array are bounded by the rounds field of the same object, in writers and readers; (R7) init reads "
         "nothing from the caller's object.")

UNINIT_ALLOC = {"malloc", "realloc", "aligned_alloc", "posix_memalign", "valloc", "memalign", "alloca"}


def top_field(prog, ty, off):
    p = prog.describe(ty, off) if ty else []
    return p[0] if p else None


def schedule_types(prog):
    """key-schedule struct types: struct types that some function receives by pointer-to-const."""
    out = set()
    for f in prog.defined():
        for k, ct in enumerate(f.ctypes[1:] if f.ctypes else []):
            m = re.match(r"^(\w+) const\*$", ct)
            if m and m.group(1) in prog.ditypes and prog.ditypes[m.group(1)]["kind"] == "struct":
                t = m.group(1)
                if not t.endswith("ECB_t") and not t.endswith("CTR_t"):
                    out.add(t)
    return out


def contains_type(prog, outer, inner, depth=0):
    """offset of `inner` inside `outer` when outer (transitively, first member chain) embeds it, else None."""
    if outer == inner:
        return 0
    t = prog.ditypes.get(outer)
    if not t or depth > 4:
        return None
    for m in t["members"]:
        r = contains_type(prog, m["type"], inner, depth + 1)
        if r is not None:
            return m["off"] + r
    return None


def loops_bounded_by_rounds(prog, f, am):
    """[(loop header, ok, detail)] for loops that touch a `schedule` array through a variable position."""
    res = []
    loops = f.loops()
    for header, body in loops.items():
        touches = None
        for b in body:
            for i in f.bbmap[b]["insts"]:
                p = i["ops"][0] if i["op"] == "load" else (i["ops"][1] if i["op"] == "store" else None)
                if p is None:
                    continue
                a = am.of(p)
                if a is None or a.segs[-1].off is not None or not a.segs[-1].ty:
                    continue
                seg = a.segs[-1]
                names = prog.describe(seg.ty, seg.rng[0]) if seg.rng else []
                if "schedule" in names:
                    touches = (a.root, a.segs[:-1], seg.ty)
                elif not seg.rng:
                    # cursor form (schedule++): find the cursor's start
                    pass
        # cursor form: a pointer phi in the header whose initial value points at `schedule`
        if touches is None:
            for i in f.bbmap[header]["insts"]:
                if i["op"] != "phi" or not i["type"].endswith("*"):
                    continue
                for v, pb in zip(i["ops"], i["inblocks"]):
                    if pb in body:
                        continue
                    a = am.of(v)
                    if a is not None and a.segs[-1].ty:
                        off = a.segs[-1].off if a.segs[-1].off is not None else (a.segs[-1].rng[0] if a.segs[-1].rng else None)
                        if off is not None and "schedule" in prog.describe(a.segs[-1].ty, off):
                            touches = (a.root, a.segs[:-1], a.segs[-1].ty)
        if touches is None:
            continue
        # exit condition of the loop
        t = f.term(header)
        ok, detail = False, "loop exit condition not recognised"
        if t["op"] == "br" and len(t["succs"]) == 2 and t["ops"][0][0] == "i":
            c = f.insts[t["ops"][0][1]]
            if c["op"] == "icmp":
                def rounds_load(op, depth=0):
                    while op[0] == "i" and depth < 8:
                        depth += 1
                        ii = f.insts[op[1]]
                        if ii["op"] in ("zext", "sext", "trunc") or ii["op"] in CASTS:
                            op = ii["ops"][0]
                            continue
                        if ii["op"] == "load":
                            a = am.of(ii["ops"][0])
                            if a is not None and a.segs[-1].ty and a.segs[-1].off is not None and \
                                    prog.describe(a.segs[-1].ty, a.segs[-1].off)[-1:] == ["rounds"]:
                                return a
                        return None
                    return None
                lhs, rhs = c["ops"]
                # count-up: i < ks->rounds
                a = rounds_load(rhs)
                if a is not None:
                    same = (a.root == touches[0] and tuple(s.off for s in a.segs[:-1]) == tuple(s.off for s in touches[1]))
                    ok, detail = same, "bounded by %s" % addr_str(a, prog) if same else "bounded by the rounds of a different object %s" % addr_str(a, prog)
                else:
                    # count-down: index = ks->rounds; index > 0
                    x = lhs
                    while x[0] == "i" and f.insts[x[1]]["op"] in ("zext", "sext", "trunc"):
                        x = f.insts[x[1]]["ops"][0]
                    if x[0] == "i" and f.insts[x[1]]["op"] == "phi" and rhs[0] == "c" and int(rhs[1]) == 0:
                        phi = f.insts[x[1]]
                        for v, pb in zip(phi["ops"], phi["inblocks"]):
                            if pb not in body:
                                a = rounds_load(v)
                                if a is not None:
                                    same = (a.root == touches[0] and tuple(s.off for s in a.segs[:-1]) == tuple(s.off for s in touches[1]))
                                    ok = same
                                    detail = "counts down from %s" % addr_str(a, prog) if same else "counts down from the rounds of a different object"
                                else:
                                    detail = "count-down start is not a load of the rounds field"
        res.append((header, ok, detail))
    return res


def keyed_types(ctx, prog):
    """struct types that a public key/tweak function takes as its object (e.g. the tweakable schedules)."""
    out = set()
    for name, f, c, decl in public_functions(ctx, prog):
        if c["kind"] in ("key", "tweak") and "ks" in c["params"]:
            t = handle_type(f)
            if t:
                out.add(t)
    return out


def run_config(ctx, rep, cfg, fixture_prog=None, raw_prog=None):
    cn = config_name(cfg) if fixture_prog is None else "fixture"
    prog = fixture_prog or ctx.prog(cfg)
    an = Analyzer(prog) if fixture_prog else ctx.an(cfg)
    nobj = 0
    # ---- R1 / R2
    for f in sorted(prog.defined(), key=lambda x: x.key):
        fl = InitFlow(f, an)
        cons = construct(f)
        objs = {}
        for (inst, obj, lo, hi, ok, what, have) in fl.reads:
            objs.setdefault(obj, []).append((inst, lo, hi, ok, what, have))
        for obj, rs in sorted(objs.items(), key=repr):
            nobj += 1
            name = f.insts[obj[0][1]].get("name", "local") if obj[0][0] == "alloca" else str(obj[0])
            bad = [r for r in rs if not r[3]]
            inst = "%s:%s" % (cons, name)
            if bad:
                i0, lo, hi, ok, what, have = bad[0]
                rep.violation("C11.R1", inst, f.loc(i0),
                              "bytes [%s,%s) of local `%s` are read (%s) but only %s are written on every path to this point: the value depends on prior stack contents" %
                              (lf_str(lo), lf_str(hi), name, what, ["[%s,%s)" % (lf_str(a), lf_str(b)) for a, b in have] or "none"),
                              [{"site": f.loc(b[0]), "range": [lf_str(b[1]), lf_str(b[2])], "by": b[4]} for b in bad[:6]], cfg=cn)
            else:
                rep.ok("C11.R1", inst, fsite(f), "%d reads of `%s`, every byte read is definitely written before on all paths" % (len(rs), name), cfg=cn)
        for u in fl.unknown:
            rep.inconclusive("C11.R1", cons, fsite(f), u, cfg=cn)
        for i in fl.undef_uses:
            rep.violation("C11.R2", cons, f.loc(i), "%s uses an undefined value (scalar local read before assignment on some path)" % i["op"], cfg=cn)
    # ---- R2 on the unoptimised IR (mem2reg would silently pick a value for an undefined scalar)
    raw = raw_prog if raw_prog is not None else ctx.prog(cfg, "raw")
    for f in sorted(raw.defined(), key=lambda x: x.key):
        bad, n = scalar_uninit(f)
        if bad:
            rep.violation("C11.R2", construct(f) + ":" + bad[0][1], f.loc(bad[0][0]),
                          "scalar local `%s` is read before it is assigned on some path: the value is whatever the stack held" % bad[0][1], cfg=cn)
        elif n:
            rep.ok("C11.R2", construct(f), fsite(f), "%d scalar locals, each stored before every load on all paths" % n, cfg=cn)
    # ---- R3
    nalloc = 0
    for f in sorted(prog.defined(), key=lambda x: x.key):
        for c in direct_calls(f):
            n = c["callee"][1]
            if n in UNINIT_ALLOC:
                nalloc += 1
                rep.violation("C11.R3", construct(f), f.loc(c), "%s returns uninitialised storage: the context starts with whatever the heap held" % n, cfg=cn)
            elif n == "calloc":
                nalloc += 1
                rep.ok("C11.R3", construct(f), f.loc(c), "zero-initialised allocation", cfg=cn)
    if fixture_prog is not None:
        return nobj, nalloc, 0, 0
    # ---- R4 / R7
    pubs = public_functions(ctx, prog)
    ninit = 0
    for name, f, c, decl in pubs:
        if c["kind"] != "init":
            continue
        ninit += 1
        s = an.summaries[f.key]
        ht = handle_type(f)
        nz = s.c("nz")
        missing = []
        for m in prog.ditypes.get(ht, {}).get("members", []):
            found = False
            for k, (loc, t) in ((nz.must or {}).items() if nz else []):
                if loc.addr.root == ("arg", 0) and len(loc.addr.segs) == 1 and loc.addr.segs[0].off == m["off"] and loc.size == m["size"]:
                    found = True
            if not found:
                missing.append(m["name"])
        if missing:
            rep.violation("C11.R4", construct(f), fsite(f), "successful init leaves handle field(s) %s unassigned on some path: later calls read caller garbage" % missing, cfg=cn)
        else:
            rep.ok("C11.R4", construct(f), fsite(f), "all fields of %s are must-written on every success path" % ht, cfg=cn)
        rd = [(addr_str(l.addr, prog), w) for k2, (l, w) in s.reads.items() if l.addr.root == ("arg", 0) and len(l.addr.segs) == 1]
        if rd:
            rep.violation("C11.R7", construct(f), csite(rd[0][1]), "init reads %s of the caller's uninitialised object" % rd[0][0], cfg=cn)
        else:
            rep.ok("C11.R7", construct(f), fsite(f), "no load from *obj", cfg=cn)
    # ---- R5
    nsched = 0
    all_T = schedule_types(prog) | keyed_types(ctx, prog)
    for T in sorted(all_T):
        readers = {}
        for f in prog.defined():
            s = an.summaries[f.key]
            for k, p in enumerate(f.params):
                if handle_type(f, k) is None:
                    continue
                off0 = contains_type(prog, handle_type(f, k), T)
                if off0 is None:
                    continue
                for kk, (loc, w) in s.reads.items():
                    if loc.addr.root == ("arg", k) and len(loc.addr.segs) == 1:
                        seg = loc.addr.segs[0]
                        o = seg.off if seg.off is not None else (seg.rng[0] if seg.rng else None)
                        if o is None:
                            continue
                        fld = top_field(prog, T, o - off0) if 0 <= o - off0 < prog.ditypes[T]["size"] else None
                        if fld:
                            readers.setdefault(fld, (f, w))
        for name, f, c, decl in pubs:
            if c["kind"] != "key" or c["ret"] is None:
                continue
            ht = handle_type(f)
            off0 = contains_type(prog, ht, T) if ht else None
            if off0 is None:
                continue
            s = an.summaries[f.key]
            nz = s.c("nz")
            written = set()
            fl = InitFlow(f, an, track_args=True)
            obj = (("arg", 0), ())
            succ = [e for e in fl.exits if e[0] in ("nz", "?", "void")]
            for mem in prog.ditypes[T]["members"]:
                lo, hi = off0 + mem["off"], off0 + mem["off"] + mem["size"]
                if succ and all(InitFlow.covers(e[1].get(obj, ()), (lo, ()), (hi, ())) for e in succ):
                    written.add(mem["name"])
            arrays = set()
            for k, (loc, w) in (nz.may.items() if nz else []):
                if loc.addr.root == ("arg", 0) and len(loc.addr.segs) == 1:
                    seg = loc.addr.segs[0]
                    o = seg.off if seg.off is not None else (seg.rng[0] if seg.rng else None)
                    if o is not None and 0 <= o - off0 < prog.ditypes[T]["size"]:
                        fld = top_field(prog, T, o - off0)
                        m = [x for x in prog.ditypes[T]["members"] if x["name"] == fld][0]
                        if re.search(r"\[\d+\]$", m["type"]):
                            arrays.add(fld)
            nested = {m["name"] for m in prog.ditypes[T]["members"] if m["type"] in all_T}
            for fld, (rf, w) in sorted(readers.items()):
                if fld in nested:
                    continue      # an embedded schedule type has its own obligations
                nsched += 1
                inst = "%s:%s.%s" % (construct(f), T, fld)
                if fld in written:
                    rep.ok("C11.R5", inst, fsite(f), "%s.%s (read by %s) is must-written on every success path" % (T, fld, rf.name), cfg=cn)
                elif fld in arrays:
                    rep.ok("C11.R5", inst, fsite(f), "%s.%s[] (read by %s) is written under the rounds bound (R6)" % (T, fld, rf.name), cfg=cn)
                else:
                    rep.violation("C11.R5", inst, fsite(f), "%s is read by %s (%s) but %s does not assign it on every success path: results depend on what the caller's memory held" %
                                  ("%s.%s" % (T, fld), rf.name, csite(w), name), cfg=cn)
    # ---- R6
    nloops = 0
    for f in sorted(prog.defined(), key=lambda x: x.key):
        s = an.summaries[f.key]
        for (header, ok, detail) in loops_bounded_by_rounds(prog, f, s.fa.am):
            nloops += 1
            inst = "%s:loop@%s" % (construct(f), header)
            if ok:
                rep.ok("C11.R6", inst, f.loc(f.term(header)), "schedule loop %s" % detail, cfg=cn)
            else:
                rep.violation("C11.R6", inst, f.loc(f.term(header)), "loop over the schedule array is not bounded by the rounds field of the same key schedule (%s): entries beyond what set_key wrote are read or written" % detail, cfg=cn)
    return nobj, nalloc, nsched, nloops


def run(ctx, rep):
    rep.assume("calloc returns zeroed storage; memcpy/memset define exactly their length argument",
               "zext/trunc are transparent in byte-offset arithmetic under the dominating length guards (checked by C09.R2)",
               "'bit-identical under another optimisation level' is claimed only in the sense that uninitialised reads, the UB class that makes results optimisation-dependent here, are excluded")
    for cfg in ctx.configs():
        nobj, nalloc, nsched, nloops = run_config(ctx, rep, cfg)
        if cfg is None:
            rep.floor("C11.R1", "stack objects with reads", nobj, 35)
            rep.floor("C11.R3", "allocation sites", nalloc, 1)
            rep.floor("C11.R5", "(keying function, schedule field) pairs", nsched, 9)
            rep.floor("C11.R6", "schedule loops", nloops, 12)
        else:
            ctx.release(cfg)
    from ..report import Report
    fp = ctx.fixture("c11_uninit.c")
    tmp = Report("C11", "fixture")
    run_config(ctx, tmp, None, fixture_prog=fp, raw_prog=ctx.fixture("c11_uninit.c", shape="raw"))
    got = {}
    for o in tmp.obs:
        if o["status"] == "VIOLATION":
            got.setdefault(o["rule"], []).append(o["construct"])
    for r in ("C11.R1", "C11.R2", "C11.R3"):
        rep.fixture(r, "c11_uninit.c", r in got, "flagged: %s" % sorted(got.get(r, [])))
