"""Shared helpers for rule modules: anchors (public API, vtables, init/cleanup pairing)."""
import re

from ..build import AnalysisBroken
from ..contract import CONTRACT
from ..ir import strip_struct, cname_of, CASTS, relpath
from ..mem import ALLOCATORS


def csite(s):
    """'src/x.c:12 (fn) -> ...' -> 'src/x.c:12'"""
    return s.split(" ")[0] if s else ""


def construct(f):
    return "src/%s.c:%s" % (f.unit, f.name)


def fsite(f):
    return "%s:%s" % (relpath(f.file), f.line)


def public_functions(ctx, prog, rep=None, rule="contract"):
    """[(name, Func, contract-entry)] for every function of include/*.h."""
    out = []
    for name, decl in sorted(ctx.api.items()):
        f = prog.resolve(None, name)
        if f is None:
            raise AnalysisBroken("public function %s is declared in %s but defined in no unit" % (name, decl["header"]))
        c = CONTRACT.get(name)
        if c is None:
            raise AnalysisBroken("public function %s (%s) has no entry in the contract table sa/contract.py" % (name, decl["header"]))
        out.append((name, f, c, decl))
    for name in CONTRACT:
        if name not in ctx.api:
            raise AnalysisBroken("contract table names %s which is no longer declared in include/*.h" % name)
    return out


def param_index(f, decl, pname):
    for k, p in enumerate(decl["params"]):
        if p["name"] == pname:
            return k
    return None


def vtable_instances(prog):
    """[(structname, unit, global, [Func per slot])] for every non-stub constant vtable."""
    out = []
    for st in sorted(prog.vtable_types()):
        for unit, g in prog.vtable_globals(st):
            init = g.get("init")
            if g["zeroinit"] or not init or init[0] != "cv":
                out.append((st, unit, g, None))
                continue
            fs = []
            for el in init[1]:
                while el and el[0] == "ce":
                    el = el[2][0]
                fs.append(prog.resolve(unit, el[1]) if el and el[0] == "f" else None)
            out.append((st, unit, g, fs))
    return out


def handle_type(f, k=0):
    if k >= len(f.params):
        return None
    st, d = strip_struct(f.params[k]["type"])
    return cname_of(st) if st and d == 1 else None


def direct_calls(f, names=None):
    for i in f.all_insts():
        if i["op"] == "call" and i["callee"][0] == "f":
            if names is None or i["callee"][1] in names:
                yield i


def alloc_sites(prog, an, f):
    """direct calls in f that return a fresh allocation: [(inst, requested-size or None, exact)]"""
    out = []
    for i in direct_calls(f):
        n = i["callee"][1]
        if n in ALLOCATORS:
            ops = i["ops"]
            if n == "calloc":
                a, b = _c(f, ops[0]), _c(f, ops[1])
                req = a * b if a is not None and b is not None else None
            else:
                req = _c(f, ops[0])
            out.append((i, req, True))
        elif n in getattr(an, "out_allocs", {}):
            g = prog.resolve(f.unit, n)
            s = an.summaries[g.key]
            req = None
            for (iid, fn, sz, w) in s.allocs:
                ks = _args_in(sz)
                if len(ks) == 1:
                    req = _c(f, i["ops"][ks.pop()])
            out.append((i, req, True))
        elif n in an.fresh_fns:
            g = prog.resolve(f.unit, n)
            s = an.summaries[g.key]
            req = None
            for (iid, fn, sz, w) in s.allocs:
                ks = _args_in(sz)
                if len(ks) == 1:
                    req = _c(f, i["ops"][ks.pop()])
            out.append((i, req, an.fresh_fns[n]))
    return out


def _args_in(t):
    if t[0] == "a":
        return {t[1]}
    if t[0] == "bin":
        return _args_in(t[2]) | _args_in(t[3])
    return set()


def _c(f, op):
    while op[0] == "i" and f.insts[op[1]]["op"] in CASTS | {"zext", "sext", "trunc"}:
        op = f.insts[op[1]]["ops"][0]
    if op[0] == "c":
        return int(op[1])
    return None


def shape_ptr(t):
    return t.endswith("*")


def alloc_object_type(f, call):
    """struct type the allocation result is used as (first struct bitcast of the call result; for an allocator
    that stores the block through a pointer argument: of what is loaded back from that place)."""
    uses = f.uses()
    if not shape_ptr(call.get("type", "")):
        from ..mem import AddrMap
        am = AddrMap(f)
        outs = [am.of(o) for o in call["ops"] if o[0] in ("i", "a")]
        keys = {repr((a.root, tuple(s.off for s in a.segs))) for a in outs if a is not None}
        for i in f.all_insts():
            if i["op"] == "load" and i["type"].endswith("*"):
                a = am.of(i["ops"][0])
                if a is not None and repr((a.root, tuple(s.off for s in a.segs))) in keys:
                    for u in uses.get(i["id"], []):
                        j = f.insts[u]
                        if j["op"] in CASTS:
                            st, d = strip_struct(j["type"])
                            if st and d == 1:
                                return cname_of(st)
        return None
    for u in uses.get(call["id"], []):
        i = f.insts[u]
        if i["op"] in CASTS:
            st, d = strip_struct(i["type"])
            if st and d == 1:
                return cname_of(st)
    return None


def init_cleanup_pairs(prog, an):
    """pair functions that allocate with functions that free, by (unit, handle type of P0)."""
    inits, cleans = {}, {}
    for f in prog.defined():
        ht = handle_type(f)
        if ht is None:
            continue
        if any(True for _ in direct_calls(f, {"free"})) or \
                (an.summaries[f.key].frees and not f.name.startswith("_") and
                 any(a is not None and a.root == ("arg", 0) for (_, _, a, _, _, _) in an.summaries[f.key].frees) and
                 not any(True for i in f.all_insts() if i["op"] == "call" and i["callee"][0] in ("i", "a"))):
            # releases directly, or through a helper that is handed (part of) this function's object; public
            # dispatchers, which release through a back-end table, are not the owners
            cleans.setdefault((f.unit, ht), []).append(f)
        if alloc_sites(prog, an, f):
            inits.setdefault((f.unit, ht), []).append(f)
    pairs = []
    for k in sorted(set(inits) | set(cleans)):
        pairs.append((k, inits.get(k, []), cleans.get(k, [])))
    return pairs
