"""C10 — key lengths: documented range accepted and zero-padded, all others rejected."""
from ..build import config_name
from ..ir import CASTS, indirect_targets
from ..mem import addr_str
from ..summary import Analyzer, fact_str
from ..initflow import InitFlow, lf_str, lf_is_const
from .c05 import Ctx5
from ..report import Report
from .common import public_functions, construct, fsite, csite, handle_type, direct_calls
from . import c14
from .c13 import enum_paths, const_of
from ..contract import CONTRACT, block_size

TITLE = ("Decides the length-acceptance and padding clauses, not the value of the padded schedule: (R1) the interval implied "
         "by the guards on every success path of each key-setting entry point equals the documented range, and every "
         "rejecting path is justified by a violated clause (through composition for the CTR and parallel entry points in "
         "every back end); (R2) those entry points hand the caller's key pointer and length unchanged to the core validator; "
         "(R3) rejection writes nothing; (R4) on the partial-length paths the local tweakey is completely defined (zero "
         "filled) before use and no lossy narrowing lies between a key-byte load and a tweakey store; (R5) the round count "
         "stored for each key-length class is the specification's (40/48/56, 32/36/40; tweaked 48/56, 36/40).")

ROUNDS = {   # (block, tweaked) -> [(lo, hi, rounds)]
    (16, False): [(16, 16, 40), (17, 32, 48), (33, 48, 56)],
    (16, True): [(16, 16, 48), (17, 32, 56)],
    (8, False): [(8, 8, 32), (9, 16, 36), (17, 24, 40)],
    (8, True): [(8, 8, 36), (9, 16, 40)],
}


def bitwidth_bound(f, op, memo, depth=0):
    """upper bound on the number of significant low bits of an integer value."""
    if op[0] == "c":
        return int(op[1]).bit_length()
    if op[0] != "i" or depth > 40:
        return 64
    if op[1] in memo:
        return memo[op[1]]
    i = f.insts[op[1]]
    memo[op[1]] = i.get("bits", 64)
    o = i["op"]
    b = i.get("bits", 64)
    if o == "load":
        r = b
    elif o == "zext":
        r = bitwidth_bound(f, i["ops"][0], memo, depth + 1)
    elif o == "trunc":
        r = min(b, bitwidth_bound(f, i["ops"][0], memo, depth + 1))
    elif o in ("or", "xor"):
        r = max(bitwidth_bound(f, i["ops"][0], memo, depth + 1), bitwidth_bound(f, i["ops"][1], memo, depth + 1))
    elif o == "and":
        r = min(bitwidth_bound(f, i["ops"][0], memo, depth + 1), bitwidth_bound(f, i["ops"][1], memo, depth + 1))
    elif o == "shl" and i["ops"][1][0] == "c":
        r = min(b, bitwidth_bound(f, i["ops"][0], memo, depth + 1) + int(i["ops"][1][1]))
    elif o == "lshr" and i["ops"][1][0] == "c":
        r = max(0, bitwidth_bound(f, i["ops"][0], memo, depth + 1) - int(i["ops"][1][1]))
    elif o == "phi":
        r = max([bitwidth_bound(f, x, memo, depth + 1) for x in i["ops"]] or [b])
    else:
        r = b
    memo[op[1]] = min(r, b)
    return memo[op[1]]


def packed_width(f, op, depth=0):
    """bit width of a word assembled as  b0 | b1<<8 | b2<<16 ...  from byte loads; None for any other shape."""
    if op[0] != "i" or depth > 16:
        return None
    i = f.insts[op[1]]
    o = i["op"]
    if o == "zext":
        src = i["ops"][0]
        if src[0] == "i" and f.insts[src[1]]["op"] == "load" and f.insts[src[1]].get("bits") == 8:
            return 8
        return packed_width(f, src, depth + 1)
    if o == "shl" and i["ops"][1][0] == "c" and int(i["ops"][1][1]) % 8 == 0:
        w = packed_width(f, i["ops"][0], depth + 1)
        return None if w is None else w + int(i["ops"][1][1])
    if o == "or":
        a, b = packed_width(f, i["ops"][0], depth + 1), packed_width(f, i["ops"][1], depth + 1)
        return None if a is None or b is None else max(a, b)
    if o == "trunc":
        w = packed_width(f, i["ops"][0], depth + 1)
        return None if w is None else min(w, i.get("bits", 64))
    if o == "phi":
        ws = [packed_width(f, x, depth + 1) for x in i["ops"]]
        ws = [w for w in ws if w is not None]
        return max(ws) if ws else None
    return None


def key_derived(f, am, key_args):
    """ids of SSA values computed from bytes loaded through one of the key parameters."""
    der = set()
    changed = True
    while changed:
        changed = False
        for i in f.all_insts():
            if i["id"] in der:
                continue
            if i["op"] == "load":
                a = am.of(i["ops"][0])
                if a is not None and a.root[0] == "arg" and a.root[1] in key_args and len(a.segs) == 1:
                    der.add(i["id"])
                    changed = True
            elif i["op"] not in ("store", "br", "call", "ret", "getelementptr", "alloca", "icmp"):
                if any(o[0] == "i" and o[1] in der for o in i["ops"]):
                    der.add(i["id"])
                    changed = True
    return der


def loader_functions(prog, an, pubs):
    """functions reached from the public key setters that read bytes through a key parameter and fill a local
    tweakey: (function, key param indices)"""
    out = {}
    work = []
    for name, f, c, decl in pubs:
        if c["kind"] == "key" and "key" in c["params"]:
            k = [i for i, p in enumerate(decl["params"]) if p["name"] == "key"][0]
            work.append((f, frozenset([k])))
    seen = set()
    while work:
        f, ks = work.pop()
        if (f.key, ks) in seen:
            continue
        seen.add((f.key, ks))
        am = an.summaries[f.key].fa.am
        has_load = False
        for i in f.all_insts():
            if i["op"] == "load":
                a = am.of(i["ops"][0])
                if a is not None and a.root[0] == "arg" and a.root[1] in ks and len(a.segs) == 1:
                    has_load = True
            if i["op"] == "call":
                targets = []
                if i["callee"][0] == "f":
                    g = prog.resolve(f.unit, i["callee"][1])
                    targets = [g] if g else []
                elif i["callee"][0] in ("i", "a"):
                    targets = indirect_targets(prog, f, i)
                for g in targets:
                    nk = set()
                    for j, o in enumerate(i["ops"]):
                        a = am.of(o) if o[0] in ("i", "a") else None
                        if a is not None and a.root[0] == "arg" and a.root[1] in ks and len(a.segs) == 1:
                            nk.add(j)
                    if nk:
                        work.append((g, frozenset(nk)))
        if not has_load:
            # the bytes may be fetched by a helper this function hands the key pointer to
            has_load = any(l.addr.root[0] == "arg" and l.addr.root[1] in ks for (l, w) in an.summaries[f.key].reads.values())
        direct = any(i["op"] == "load" and (lambda a: a is not None and a.root[0] == "arg" and a.root[1] in ks and len(a.segs) == 1)(am.of(i["ops"][0]))
                     for i in f.all_insts())
        if has_load and (direct or any(i["op"] == "alloca" for i in f.all_insts())):
            # a helper that unpacks through a pointer parameter has no local tweakey but still reads the key bytes
            out.setdefault(f.key, set()).update(ks)
    return out


def check_loader(prog, an, rep, cn, f, key_args):
    cons = construct(f)
    am = an.summaries[f.key].fa.am
    fl = InitFlow(f, an)
    bad = [r for r in fl.reads if not r[4]]
    if bad:
        inst, obj, lo, hi, ok, what, have = bad[0]
        nm = f.insts[obj[0][1]].get("name", "local") if obj[0][0] == "alloca" else str(obj)
        rep.violation("C10.R4", cons + ":padding", f.loc(inst),
                      "on a partial-length path bytes [%s,%s) of the local tweakey `%s` are used without having been zero-filled or loaded: an in-between key length does not behave like the zero-padded key" %
                      (lf_str(lo), lf_str(hi), nm), cfg=cn)
    else:
        rep.ok("C10.R4", cons + ":padding", fsite(f), "every byte of the local tweakey is defined (key bytes or zeros) on all paths before use (%d reads)" % len(fl.reads), cfg=cn)
    der = key_derived(f, am, key_args)
    memo = {}
    lossy = []
    for i in f.all_insts():
        if i["op"] == "trunc" and i["id"] in der:
            # only a packed little-endian word (bytes OR-ed at multiples of 8 bits: the READ_WORDnn shape)
            # counts: rotations and carries narrow on purpose
            src = packed_width(f, i["ops"][0])
            if src is not None and src > i.get("bits", 64):
                # only when the narrowed value reaches a store
                reach = False
                seen = set()
                st = [i["id"]]
                while st:
                    x = st.pop()
                    for u in f.uses().get(x, []):
                        if u in seen:
                            continue
                        seen.add(u)
                        if f.insts[u]["op"] == "store" and f.insts[u]["ops"][0] == ["i", x]:
                            reach = True
                        st.append(u)
                if reach:
                    lossy.append((i, src))
    if lossy:
        i, src = lossy[0]
        rep.violation("C10.R4", cons + ":narrowing", f.loc(i),
                      "a value holding %d significant key bits is truncated to %d bits on its way into the tweakey (%d such sites): key bytes are dropped" %
                      (src, i.get("bits", 0), len(lossy)), [f.loc(x[0]) for x in lossy], cfg=cn)
    else:
        rep.ok("C10.R4", cons + ":narrowing", fsite(f), "no lossy narrowing between key-byte loads and tweakey stores (%d key-derived values)" % len(der), cfg=cn)


class _NoTerms:
    termcache = {}


class _LF(Ctx5):
    def __init__(self, f):
        self.f = f
        self.vals = {}
        self.fa = _NoTerms()

    def field(self, op):
        return None


def rounds_paths(prog, an, f, block):
    """paths of the round-count selector: [(interval of the key length, tweak null?, rounds constant)].
    Guards are evaluated as linear forms along the path, so a test on `remaining = key_size - BLOCK` (or on a
    value merged from both) constrains key_size just like a test on key_size itself."""
    am = an.summaries[f.key].fa.am
    E = _LF(f)
    out = []
    for path in enum_paths(f, limit=4000, collapse_loops=True):
        lo, hi = block, 3 * block
        tweak = None
        rounds = None
        env = {}
        for n, b in enumerate(path):
            prev = path[n - 1] if n else None
            for i in f.bbmap[b]["insts"]:
                if i["op"] == "phi" and prev is not None:
                    for v, pb in zip(i["ops"], i["inblocks"]):
                        if pb == prev:
                            env[i["id"]] = v
                if i["op"] == "store":
                    a = am.of(i["ops"][1])
                    if a is not None and a.root == ("arg", 0) and a.segs[-1].ty and a.segs[-1].off is not None and \
                            prog.describe(a.segs[-1].ty, a.segs[-1].off)[-1:] == ["rounds"]:
                        v = E.lf(i["ops"][0], env)
                        rounds = v[0] if v is not None and lf_is_const(v) else rounds
                if i["op"] == "br" and len(i["succs"]) == 2 and n + 1 < len(path) and i["ops"][0][0] == "i":
                    truth = path[n + 1] == i["succs"][0]
                    c = f.insts[i["ops"][0][1]]
                    if c["op"] != "icmp":
                        continue
                    p = c["pred"]
                    if not truth:
                        p = {"eq": "ne", "ne": "eq", "ult": "uge", "uge": "ult", "ule": "ugt", "ugt": "ule"}.get(p, p)
                    x, y = c["ops"]
                    x0 = x
                    while x0[0] == "i" and (x0[1] in env or f.insts[x0[1]]["op"] in CASTS | {"zext"}):
                        x0 = env[x0[1]] if x0[1] in env else f.insts[x0[1]]["ops"][0]
                    if x0[0] == "a" and y[0] == "n":
                        if tweak is not None and tweak != (p == "eq"):
                            lo, hi = 1, 0       # the same pointer tested both ways: infeasible path
                        tweak = (p == "eq")     # tweak pointer is NULL
                        continue
                    lx, ly = E.lf(x, env), E.lf(y, env)
                    if lx is None or ly is None:
                        continue
                    if lf_is_const(lx) and not lf_is_const(ly):
                        lx, ly = ly, lx
                        p = {"ult": "ugt", "ugt": "ult", "ule": "uge", "uge": "ule"}.get(p, p)
                    # size + k  pred  v   with a single parameter atom of coefficient 1; no wrap because the
                    # interval starts at BLOCK and -k never exceeds it
                    if not lf_is_const(ly) or len(lx[1]) != 1 or lx[1][0][1] != 1 or lx[1][0][0][0] != "a" or -lx[0] > block:
                        if lf_is_const(lx) and lf_is_const(ly):
                            holds = {"eq": lx[0] == ly[0], "ne": lx[0] != ly[0], "ult": lx[0] < ly[0], "ule": lx[0] <= ly[0],
                                     "ugt": lx[0] > ly[0], "uge": lx[0] >= ly[0]}.get(p, True)
                            if not holds:
                                lo, hi = 1, 0       # infeasible path
                        continue
                    v = ly[0] - lx[0]
                    if p == "eq":
                        lo, hi = max(lo, v), min(hi, v)
                    elif p == "ne" and lo == v:
                        lo = v + 1
                    elif p == "ne" and hi == v:
                        hi = v - 1
                    elif p == "ult":
                        hi = min(hi, v - 1)
                    elif p == "ule":
                        hi = min(hi, v)
                    elif p == "ugt":
                        lo = max(lo, v + 1)
                    elif p == "uge":
                        lo = max(lo, v)
        if rounds is not None:
            out.append((lo, hi, tweak, rounds))
    return out


def run_config(ctx, rep, cfg):
    cn = config_name(cfg)
    prog = ctx.prog(cfg)
    an = ctx.an(cfg)
    pubs = public_functions(ctx, prog)
    nkey = 0
    # ---- R1 / R3: reuse the contract check on the key-setting entry points (public + slot functions)
    tmp = Report("C14", "sub")
    keyfns = [(n, f, c, d) for (n, f, c, d) in pubs if c["kind"] == "key"]
    for name, f, c, decl in keyfns:
        nkey += 1
        c14.check_function(prog, an, tmp, cn, name, f, c, decl)
        s = an.summaries[f.key]
        for (iid, st, idx, targets) in s.indirect:
            for tk in targets:
                g = prog.funcs[tk]
                if len(g.params) == len(decl["params"]):
                    c2 = dict(c)
                    c2["state"] = [x for x in c["state"] if x != "vtable"]
                    c14.check_function(prog, an, tmp, cn, name, g, c2, decl, level="slot", obj_checked=True)
    for o in tmp.obs:
        lenp = any(o["construct"].endswith(":" + pn) for pn in ("size", "key_size", "rounds"))
        if o["rule"] in ("C14.R2", "C14.R5") and (lenp or ":exit@" in o["construct"]):
            rep.add("C10.R1", o["construct"], o["status"], o["site"], o["detail"], o["witness"], cfg=cn)
        elif o["rule"] == "C14.R1":
            rep.add("C10.R3", o["construct"], o["status"], o["site"], o["detail"], o["witness"], cfg=cn)
    # ---- R2 delegation
    ndel = 0
    pubnames = {n: (f, c, d) for (n, f, c, d) in pubs}
    for f in sorted(prog.defined(), key=lambda x: x.key):
        for call in direct_calls(f):
            tgt = call["callee"][1]
            if tgt not in pubnames or pubnames[tgt][1]["kind"] != "key":
                continue
            tf, tc, td = pubnames[tgt]
            # the caller must itself be a key-setting entry point (public or back-end slot)
            own = None
            for name, pf, c, decl in keyfns:
                if pf.key == f.key:
                    own = decl
                s = an.summaries[pf.key]
                for (iid, st, idx, targets) in s.indirect:
                    if f.key in targets:
                        own = decl
            if own is None:
                continue
            for pn in ("key", "size", "key_size", "rounds"):
                if pn not in tc["params"]:
                    continue
                tj = [j for j, p in enumerate(td["params"]) if p["name"] == pn][0]
                cand = [j for j, p in enumerate(own["params"]) if p["name"] in ((pn,) if pn in ("key", "rounds") else ("size", "key_size"))]
                ndel += 1
                inst = "%s:%s->%s.%s" % (construct(f), f.name, tgt, pn)
                arg = call["ops"][tj]
                while arg[0] == "i" and f.insts[arg[1]]["op"] in CASTS:
                    arg = f.insts[arg[1]]["ops"][0]
                if cand and arg == ["a", cand[0]]:
                    rep.ok("C10.R2", inst, f.loc(call), "caller's %s is passed through unchanged" % pn, cfg=cn)
                else:
                    rep.violation("C10.R2", inst, f.loc(call), "%s hands %s a %s that is not the caller's own argument: lengths accepted here differ from the core validator's" % (f.name, tgt, pn), cfg=cn)
    # ---- R4 loaders
    loaders = loader_functions(prog, an, pubs)
    for fk, ks in sorted(loaders.items()):
        check_loader(prog, an, rep, cn, prog.funcs[fk], ks)
    # ---- R5 rounds by class
    nsel = 0
    for f in sorted(prog.defined(), key=lambda x: x.key):
        am = an.summaries[f.key].fa.am
        sel = False
        def const_like(op, depth=0):
            if op[0] == "c":
                return True
            if op[0] == "i" and depth < 4 and f.insts[op[1]]["op"] == "phi":
                return all(const_like(x, depth + 1) for x in f.insts[op[1]]["ops"])
            return False
        for i in f.all_insts():
            if i["op"] == "store" and const_like(i["ops"][0]):
                a = am.of(i["ops"][1])
                if a is not None and a.root == ("arg", 0) and a.segs[-1].ty and a.segs[-1].off is not None and \
                        prog.describe(a.segs[-1].ty, a.segs[-1].off)[-1:] == ["rounds"]:
                    sel = True
        if not sel or not f.name.startswith(("skinny128", "skinny64")):
            continue
        nsel += 1
        B = block_size(f.name)
        for (lo, hi, tweak_null, r) in rounds_paths(prog, an, f, B):
            tweaked = (tweak_null is False)
            table = ROUNDS[(B, tweaked)]
            lo2, hi2 = max(lo, B), min(hi, (2 if tweaked else 3) * B)
            if lo2 > hi2:
                continue
            inst = "%s:[%s,size %d..%d]" % (construct(f), "tweaked" if tweaked else "plain", lo2, hi2)
            exp = {rr for (a, b, rr) in table if not (b < lo2 or a > hi2)}
            if exp == {r}:
                rep.ok("C10.R5", inst, fsite(f), "rounds = %d for key lengths %d..%d" % (r, lo2, hi2), cfg=cn)
            else:
                rep.violation("C10.R5", inst, fsite(f), "stores rounds = %d for key lengths %d..%d, the specification requires %s" % (r, lo2, hi2, sorted(exp)), cfg=cn)
    return nkey, ndel, len(loaders), nsel


def run(ctx, rep):
    rep.assume("not decided: that a zero-padded key yields the same ciphertexts as the in-between length (follows from R4 only together with C01)",
               "round-count table taken from the property statements C01/C04 (SKINNY specification)")
    for cfg in ctx.configs():
        nkey, ndel, nload, nsel = run_config(ctx, rep, cfg)
        if cfg is None:
            rep.floor("C10.R1", "key-setting public entry points", nkey, 13)
            rep.floor("C10.R2", "delegating call arguments", ndel, 20)
            rep.floor("C10.R4", "tweakey loader functions", nload, 2)
            rep.floor("C10.R5", "round-count selectors", nsel, 2)
        else:
            ctx.release(cfg)
    # fixture: the D1 shapes
    fp = ctx.fixture("c10_bad_loader.c")
    fan = Analyzer(fp)
    tmp = Report("C10", "fixture")
    check_loader(fp, fan, tmp, "fixture", fp.resolve(None, "fx_set_tk"), {1})
    got = {o["construct"].split(":")[-1] for o in tmp.obs if o["status"] == "VIOLATION"}
    rep.fixture("C10.R4", "c10_bad_loader.c", {"padding", "narrowing"} <= got, "flagged: %s" % sorted(got))
