"""C15 — object life cycle: init / cleanup in any order is safe, leak-free, idempotent."""
from ..build import config_name
from ..ir import CASTS
from ..mem import Loc, Addr, Seg, may_overlap, addr_str
from ..summary import Analyzer, FuncAnalysis, akey, term_str, fact_str
from .common import (public_functions, construct, fsite, csite, direct_calls, init_cleanup_pairs,
                     alloc_sites, handle_type)
from .c14 import state_term

TITLE = ("Ownership typestate over init/cleanup pairs (paired by unit and handle type): (R1) each back-end init makes "
         "exactly one allocation and stores it into obj->ctx on every success path; (R2) for every release a cleanup performs, directly or through a helper, the argument of free() is the "
         "exact allocation base - obj->ctx for calloc contexts, the base_ptr field written by the paired init from "
         "skinny_calloc's out-parameter for aligned contexts (never the aligned interior pointer), fetched before any write that may reach the place it is stored in; (R3) obj->ctx := NULL "
         "post-dominates free(), nothing touches the freed block afterwards, and the public CTR cleanup also clears vtable; "
         "(R4) every other entry point dereferences ctx/vtable only under a non-null test of the field cleanup clears; "
         "(R5) every free() is guarded by that same test, so cleanup is null-safe and idempotent; (R6) init reads nothing "
         "from the caller's object before writing it.")


def field_key(prog, f, k, field):
    t = state_term(prog, f, k, field)
    return t[1] if t else None


def post_dominated_by_store(f, am, start_inst, want_key, prog):
    """every path from start_inst to a return passes a store of null to the location `want_key` - or the
    location was already set to null before start_inst on every path and is not written again (an owner that
    detaches the pointer first and releases the block afterwards)."""
    ok, st = _post_dominated(f, am, start_inst, want_key, prog)
    if ok:
        return ok, st
    nulls, others = [], []
    for i in f.all_insts():
        if i["op"] == "store":
            a = am.of(i["ops"][1])
            if a is not None and akey(a) == want_key:
                (nulls if i["ops"][0][0] == "n" else others).append(i)
    dom = [i for i in nulls if f.inst_dominates(i["id"], start_inst["id"])]
    if dom:
        d = dom[-1]
        # no other store to the field can come between the detaching store and a return
        late = [o for o in others if f.bb_of[o["id"]] in f.reachable_from(f.bb_of[d["id"]]) or
                (f.bb_of[o["id"]] == f.bb_of[d["id"]] and not f.inst_dominates(o["id"], d["id"]))]
        if not late:
            return True, d
    return False, None


def _post_dominated(f, am, start_inst, want_key, prog):
    targets = []
    for i in f.all_insts():
        if i["op"] == "store" and i["ops"][0][0] == "n":
            a = am.of(i["ops"][1])
            if a is not None and akey(a) == want_key:
                targets.append(i)
    if not targets:
        return False, None
    sb = f.bb_of[start_inst["id"]]
    # same block, later
    after = False
    for i in f.bbmap[sb]["insts"]:
        if i["id"] == start_inst["id"]:
            after = True
        elif after and i in targets:
            return True, i
    tblocks = {f.bb_of[t["id"]] for t in targets}
    seen = set()
    st = list(f.succs[sb])
    while st:
        b = st.pop()
        if b in seen or b in tblocks:
            continue
        seen.add(b)
        if f.term(b)["op"] == "ret":
            return False, None
        st.extend(f.succs[b])
    return True, targets[0]


def run_config(ctx, rep, cfg):
    cn = config_name(cfg)
    prog = ctx.prog(cfg)
    an = ctx.an(cfg)
    pubs = public_functions(ctx, prog)
    pairs = init_cleanup_pairs(prog, an)
    ninit = nfree = 0
    for (key, inits, cleans) in pairs:
        unit, ht = key
        # ---------------- R1 / R6 (inits)
        init_info = []
        for ini in inits:
            s = an.summaries[ini.key]
            cons = construct(ini)
            sites = alloc_sites(prog, an, ini)
            ninit += 1
            ctxk = field_key(prog, ini, 0, "ctx")
            if ctxk is None:
                continue   # not an object handle (e.g. skinny_calloc itself)
            if len(sites) != 1:
                rep.violation("C15.R1", cons, fsite(ini), "%d allocations in one init: cleanup releases exactly one block" % len(sites), cfg=cn)
            nz = s.c("nz")
            ent = (nz.must or {}).get((ctxk, 8)) if nz else None
            call = sites[0][0]
            if ent is None or ent[1][0] != "p" or ent[1][1][0][0] not in ("heap", "heapi") or ent[1][1][0][1] != call["id"]:
                rep.violation("C15.R1", cons, ini.loc(call), "the allocation is not stored into obj->ctx on every success path (block is lost: cleanup cannot release it)",
                              None if ent is None else term_str(ent[1], s.addr_reg, prog), cfg=cn)
            else:
                rep.ok("C15.R1", cons, ini.loc(call), "single allocation, obj->ctx := %s on all %d success exits" % (term_str(ent[1], s.addr_reg, prog), nz.exits), cfg=cn)
            init_info.append((ini, s, call, sites[0][2], ent))
            # R6
            rd = [(addr_str(l.addr, prog), w) for k2, (l, w) in s.reads.items() if l.addr.root == ("arg", 0) and len(l.addr.segs) == 1]
            if rd:
                rep.violation("C15.R6", cons, csite(rd[0][1]), "init reads %s of the caller's (possibly uninitialised / stale) object at %s" % rd[0], cfg=cn)
            else:
                rep.ok("C15.R6", cons, fsite(ini), "no load from *obj (through %d callees)" % len(s.callees), cfg=cn)
        # ---------------- R2 / R3 / R5 (cleanups)
        for cl in cleans:
            s = an.summaries[cl.key]
            fa = s.fa
            am = fa.am
            cons = construct(cl)
            ctxk = field_key(prog, cl, 0, "ctx")
            if ctxk is None:
                continue
            ctx_t = ("ld", ctxk, 8)
            # every release this cleanup performs, directly or through a helper (skinny_free-style wrappers):
            # the summary carries the freed pointer translated into this function's terms
            rel = {}
            for ent in s.frees:
                rel.setdefault(ent[0], ent)
            for iid, (_, fterm, Af, fwhere, ffacts0, fsrc) in sorted(rel.items()):
                fr = cl.insts[iid]
                nfree += 1
                site = cl.loc(fr)
                obj = Addr(("arg", 0), (Seg(ht, ctxk[1][0], None), Seg(None, 0, None)))
                # the pointer handed to free() must have been fetched before anything wiped the place it lives in
                if fsrc is not None:
                    stale = [(l, w) for (l, w) in fsrc[1] if l.addr is not None and may_overlap(l, fsrc[0])]
                    if stale:
                        rep.violation("C15.R2", cons + ":stale", site, "the pointer given to free() is loaded from %s after that memory was overwritten (%s): free() receives the wiped value and the block is never released" %
                                      (addr_str(fsrc[0].addr, prog), stale[0][1]), cfg=cn)
                    else:
                        rep.ok("C15.R2", cons + ":stale", site, "the freed pointer is fetched from %s before any write that could reach it" % addr_str(fsrc[0].addr, prog), cfg=cn)
                # R2
                if not init_info:
                    rep.inconclusive("C15.R2", cons, site, "no paired init in unit %s for handle %s" % (unit, ht), cfg=cn)
                for (ini, si, call, exact, ent) in init_info:
                    if Af is not None and akey(Af) == akey(obj):
                        if ent is not None and ent[1][0] == "p" and ent[1][1][0][0] == "heap" and ent[1][1][1] == (0,):
                            rep.ok("C15.R2", cons, site, "free(obj->ctx): %s stores the exact calloc result there" % ini.name, cfg=cn)
                        else:
                            rep.violation("C15.R2", cons, site, "free(obj->ctx) but %s stores an aligned interior pointer there (allocated through %s): the allocation base is base_ptr" %
                                          (ini.name, ini.insts[call["id"]]["callee"][1]), cfg=cn)
                    elif Af is not None and Af.root == ("arg", 0) and len(Af.segs) == 3 and akey(Addr(Af.root, Af.segs[:2]))[1][0] == ctxk[1][0] and Af.segs[1].off is not None:
                        off = Af.segs[1].off
                        nz = si.c("nz")
                        found = None
                        for k2, (l, t) in (nz.must or {}).items() if nz else []:
                            if l.addr.root[0] in ("heap", "heapi") and l.addr.root[1] == call["id"] and len(l.addr.segs) == 1 and l.addr.segs[0].off == off:
                                found = t
                        if found is not None and found[0] == "p" and found[1][0] == ("heap", call["id"]) and found[1][1] == (0,):
                            rep.ok("C15.R2", cons, site, "free(ctx->%s): %s stores the allocation base there on every success path" %
                                   (".".join(prog.describe(Af.segs[1].ty or "", off) or [str(off)]), ini.name), cfg=cn)
                        else:
                            rep.violation("C15.R2", cons, site, "free() takes the pointer stored at offset %d of the context, but %s does not store the allocation base there" % (off, ini.name),
                                          None if found is None else term_str(found, si.addr_reg, prog), cfg=cn)
                    else:
                        rep.violation("C15.R2", cons, site, "free() argument %s is neither obj->ctx nor a base pointer stored inside the context" % addr_str(Af, prog), cfg=cn)
                # R3
                okp, st_i = post_dominated_by_store(cl, am, fr, ctxk, prog)
                if okp:
                    rep.ok("C15.R3", cons, cl.loc(st_i), "obj->ctx = NULL post-dominates free()", cfg=cn)
                else:
                    rep.violation("C15.R3", cons, site, "a path from free() to return leaves obj->ctx dangling (double free / use after free on the next call)", cfg=cn)
                uaf = None
                reach = cl.reachable_from(cl.bb_of[fr["id"]])
                after = False
                cand = []
                for i in cl.bbmap[cl.bb_of[fr["id"]]]["insts"]:
                    if after:
                        cand.append(i)
                    if i["id"] == fr["id"]:
                        after = True
                for b in reach:
                    if b != cl.bb_of[fr["id"]]:
                        cand.extend(cl.bbmap[b]["insts"])
                for i in cand:
                    ptrs = []
                    if i["op"] == "load":
                        ptrs = [i["ops"][0]]
                    elif i["op"] == "store":
                        ptrs = [i["ops"][1]]
                    elif i["op"] == "call":
                        ptrs = [o for o in i["ops"] if o[0] in ("i", "a")]
                    for p in ptrs:
                        a = am.of(p) if p[0] in ("i", "a") else None
                        if a is not None and a.root == ("arg", 0) and len(a.segs) >= 2 and a.segs[0].off == ctxk[1][0]:
                            if i["op"] == "call" and i["id"] in rel:
                                uaf = (i, "second free")
                            elif i["op"] in ("load", "store"):
                                uaf = (i, "access")
                            elif i["op"] == "call":
                                uaf = (i, "passed to a callee")
                if uaf:
                    rep.violation("C15.R3", cons + ":after-free", cl.loc(uaf[0]), "the freed context is used after free(): %s" % uaf[1], cfg=cn)
                # R5
                facts = ffacts0
                if facts is not None and ("ne", ctx_t, ("null",)) in facts:
                    rep.ok("C15.R5", cons, site, "free() only under obj->ctx != NULL; with R3 a second cleanup is a no-op", cfg=cn)
                else:
                    rep.violation("C15.R5", cons, site, "free() is not guarded by obj->ctx != NULL: cleanup of a zeroed or already cleaned-up object is not a no-op", cfg=cn)
    # ---------------- public cleanup: null-safety, vtable cleared; R4 for the other entry points
    for name, f, c, decl in pubs:
        s = an.summaries[f.key]
        cons = construct(f)
        objp = [pn for pn, sp in c["params"].items() if sp[0] == "OBJ"]
        if not objp:
            continue
        k = [i for i, p in enumerate(decl["params"]) if p["name"] == objp[0]][0]
        if c["kind"] == "cleanup":
            if ("a", k) in s.needs_nonnull:
                rep.violation("C15.R5", cons + ":null", csite(s.needs_nonnull[("a", k)]), "cleanup(NULL) dereferences the object", cfg=cn)
            else:
                rep.ok("C15.R5", cons + ":null", fsite(f), "cleanup(NULL) touches nothing", cfg=cn)
            if "vtable" in c["state"]:
                vk = field_key(prog, f, k, "vtable")
                calls = [i for i in f.all_insts() if i["op"] == "call" and i["callee"][0] == "i"]
                if not calls:
                    rep.inconclusive("C15.R3", cons + ":vtable", fsite(f), "public cleanup does not dispatch through the vtable", cfg=cn)
                for cin in calls:
                    okp, st_i = post_dominated_by_store(f, s.fa.am, cin, vk, prog)
                    if okp:
                        rep.ok("C15.R3", cons + ":vtable", f.loc(st_i), "obj->vtable = NULL post-dominates the back-end cleanup", cfg=cn)
                    else:
                        rep.violation("C15.R3", cons + ":vtable", f.loc(cin), "obj->vtable stays set after cleanup: later calls dispatch on a dead object", cfg=cn)
        elif c["kind"] != "init":
            # R4
            bad = [(t, w) for t, w in s.needs_nonnull.items() if t[0] == "ld" and t[1][0] == ("arg", k)]
            nz = s.c("nz") or s.c("void")
            missing = []
            if c["ret"] is not None:
                for fld in c["state"]:
                    stt = state_term(prog, f, k, fld)
                    if nz is None or ("ne", stt, ("null",)) not in (nz.guards or ()):
                        missing.append(fld)
            if bad:
                rep.violation("C15.R4", cons, csite(bad[0][1]), "%s is dereferenced without a non-null test: after cleanup this touches freed memory (%s)" %
                              (term_str(bad[0][0], s.addr_reg, prog), bad[0][1]), cfg=cn)
            elif missing:
                rep.violation("C15.R4", cons, fsite(f), "success is possible with obj->%s == NULL (the state cleanup leaves behind)" % missing[0], cfg=cn)
            else:
                rep.ok("C15.R4", cons, fsite(f), "ctx/vtable only dereferenced under the non-null tests %s" % c["state"], cfg=cn)
    return ninit, nfree


def run(ctx, rep):
    rep.assume("free(NULL) is harmless; calloc/free are the only allocator entry points (C18.R2)",
               "init/cleanup are paired by translation unit and handle type; CTR back ends additionally by vtable",
               "distinct caller objects do not alias")
    for cfg in ctx.configs():
        ninit, nfree = run_config(ctx, rep, cfg)
        if cfg is None:
            rep.floor("C15.R1", "allocating functions", ninit, 6)
            rep.floor("C15.R2", "release sites (free() directly or through a helper)", nfree, 6)
            n4 = sum(1 for o in rep.obs if o["rule"] == "C15.R4")
            rep.floor("C15.R4", "non-init public entry points on object handles", n4, 25)
        else:
            ctx.release(cfg)
    # fixture
    from ..report import Report
    fp = ctx.fixture("c15_bad_lifecycle.c")
    fan = Analyzer(fp)
    tmp = Report("C15", "fixture")

    class FakeCtx:
        tier = "quick"
        api = {}

        def prog(self, cfg=None, shape="O0"):
            return fp

        def an(self, cfg=None):
            return fan
    import sa.rules.c15 as me
    saved = me.public_functions
    me.public_functions = lambda c, p: []
    try:
        run_config(FakeCtx(), tmp, None)
    finally:
        me.public_functions = saved
    got = {}
    for o in tmp.obs:
        if o["status"] == "VIOLATION":
            got.setdefault(o["rule"], []).append(o["construct"])
    for r in ("C15.R1", "C15.R2", "C15.R3", "C15.R5", "C15.R6"):
        rep.fixture(r, "c15_bad_lifecycle.c", r in got, "flagged: %s" % sorted(got.get(r, [])))
