"""C18 — no hidden shared state; read-only objects may be shared."""
from ..mem import addr_str
from ..ir import relpath
from ..summary import term_str

TITLE = ("Effect analysis over the whole library: (R1) every global or function-local static is constant; "
         "(R2) no function may write a global and the library calls only calloc/free/memcpy/memset from outside; "
         "(R3) no function writes through a pointer-to-const parameter, directly or through callees (effect "
         "summaries, not the qualifier); (R4) zero-argument functions (the CPU probes) read and write no memory; "
         "(R5) allocation results are only stored into caller-owned objects. Together: two calls can only touch a "
         "common location through a common caller object, and read-only entry points only read it.")

ALLOWED_EXT = {"calloc", "free", "memcpy", "memset", "memmove", "memset_s"}


def rules(prog, an, rep, cfg="shipped", record=True):
    """returns list of (rule, construct) flagged."""
    flagged = []

    def viol(rule, construct, site, detail, wit=None):
        flagged.append((rule, construct))
        if record:
            rep.violation(rule, construct, site, detail, wit, cfg=cfg)

    def ok(rule, construct, site="", detail=""):
        if record:
            rep.ok(rule, construct, site, detail, cfg=cfg)

    # R1 globals
    ng = 0
    for (unit, gname), g in sorted(prog.globals.items()):
        if g["decl"]:
            continue
        ng += 1
        construct = "src/%s.c:%s" % (unit, g.get("cname", gname))
        site = "%s:%s" % (relpath(g.get("file", "src/%s.c" % unit)), g.get("line", "?"))
        if g["constant"]:
            ok("C18.R1", construct, site, "constant global of type %s" % g["type"])
        elif g["tls"]:
            ok("C18.R1", construct, site, "thread-local, not shared")
        else:
            where = " (static inside %s)" % g["function_static"] if g.get("function_static") else ""
            viol("C18.R1", construct, site, "mutable global variable %s%s of type %s" % (g.get("cname", gname), where, g["type"]))
    # R2..R5 per function
    nf = 0
    for f in sorted(prog.defined(), key=lambda x: x.key):
        s = an.summaries[f.key]
        nf += 1
        construct = "src/%s.c:%s" % (f.unit, f.name)
        fsite = "%s:%s" % (relpath(f.file), f.line)
        # R2 global writes
        gw = []
        for cl, cs in s.cls.items():
            for k, (loc, w) in cs.may.items():
                if loc.addr is not None and loc.addr.root[0] == "global":
                    gw.append((addr_str(loc.addr, prog), w))
        if gw:
            viol("C18.R2", construct, gw[0][1].split(" ")[0], "writes global %s at %s" % gw[0], gw)
        else:
            ok("C18.R2", construct, fsite, "no global in MayWrite")
        bad_ext = {n: w for n, w in s.ext_calls.items() if n not in ALLOWED_EXT}
        if bad_ext:
            n, w = sorted(bad_ext.items())[0]
            viol("C18.R2", construct + ":extern", w.split(" ")[0], "calls %s outside the allowed set %s (%s)" % (n, sorted(ALLOWED_EXT), w))
        if s.unknown_shapes:
            if record:
                rep.inconclusive("C18.R2", construct, s.unknown_shapes[0][0], "unmodelled effect: %s" % s.unknown_shapes[0][1], cfg=cfg)
        # R3 const params
        for k, ct in enumerate(f.ctypes[1:] if f.ctypes else []):
            if not ct.endswith("const*") or ct.startswith("void") or ct.startswith("uint8_t") or ct.startswith("char") or ct.startswith("unsigned char"):
                continue
            ws = []
            for cl, cs in s.cls.items():
                for kk, (loc, w) in cs.may.items():
                    if loc.addr is not None and loc.addr.root == ("arg", k):
                        ws.append((addr_str(loc.addr, prog), w))
            c3 = "%s:%s" % (construct, f.params[k]["name"] or "P%d" % k)
            if ws:
                viol("C18.R3", c3, ws[0][1].split(" ")[0], "parameter of type %s is written: %s at %s" % (ct, ws[0][0], ws[0][1]), ws[:5])
            else:
                ok("C18.R3", c3, fsite, "%s never written (effects through %d callees included)" % (ct, len(s.callees)))
        # R4 zero-argument functions are pure
        if not f.params:
            probs = []
            for kk, (loc, w) in s.reads.items():
                if loc.addr.root[0] not in ("alloca",):
                    # constant tables may be read
                    if loc.addr.root[0] == "global":
                        gd = prog.global_def(f.unit, loc.addr.root[1])
                        if gd and gd[1]["constant"]:
                            continue
                    probs.append("reads %s at %s" % (addr_str(loc.addr, prog), w))
            for cl, cs in s.cls.items():
                for kk, (loc, w) in cs.may.items():
                    probs.append("writes %s at %s" % (addr_str(loc.addr, prog), w))
            for n, w in s.ext_calls.items():
                probs.append("calls %s at %s" % (n, w))
            for a in s.asms:
                if "memory" in a[1] or "*m" in a[1]:
                    probs.append("inline asm with memory operand at %s" % a[2])
            if probs:
                viol("C18.R4", construct, fsite, "zero-argument function is not pure: " + probs[0], probs[:5])
            else:
                ok("C18.R4", construct, fsite, "no memory read or written, %d inline asm without memory operands" % len(s.asms))
        # R5 allocation results only stored into caller objects / fresh blocks
        for (sid, loc, vt, site, vol) in s.stores:
            if vt[0] == "p" and vt[1][0][0] in ("heap", "heapi"):
                c5 = "%s:store@%s" % (construct, addr_str(loc.addr, prog))
                if loc.addr is None or loc.addr.root[0] not in ("arg", "heap", "heapi", "alloca"):
                    viol("C18.R5", c5, site.split(" ")[0], "allocation result stored outside caller-owned objects: %s" % addr_str(loc.addr, prog))
                else:
                    ok("C18.R5", c5, site.split(" ")[0], "allocation result stored into %s" % addr_str(loc.addr, prog))
    return flagged, ng, nf


def run(ctx, rep):
    rep.assume("distinct caller-owned objects do not overlap in memory (the API's ownership contract)",
               "libc calloc/free/memcpy/memset are thread-safe",
               "IR-level effects: clang's front end and mem2reg preserve the source's memory accesses")
    total_g = total_f = 0
    for cfg in ctx.configs():
        from ..build import config_name
        cn = config_name(cfg)
        prog = ctx.prog(cfg)
        an = ctx.an(cfg)
        fl, ng, nf = rules(prog, an, rep, cfg=cn)
        if cfg is None:
            total_g, total_f = ng, nf
            rep.floor("C18.R1", "globals defined by the library", ng, 11)
            rep.floor("C18.R2", "functions analysed", nf, 150)
            n3 = sum(1 for o in rep.obs if o["rule"] == "C18.R3")
            rep.floor("C18.R3", "pointer-to-const object parameters", n3, 20)
            n4 = sum(1 for o in rep.obs if o["rule"] == "C18.R4")
            rep.floor("C18.R4", "zero-argument functions (CPU probes)", n4, 2)
            n5 = sum(1 for o in rep.obs if o["rule"] == "C18.R5")
            rep.floor("C18.R5", "stores of allocation results", n5, 10)
        else:
            ctx.release(cfg)
    rep.analysed["functions"] = total_f
    rep.analysed["globals"] = total_g
    rep.analysed["configurations"] = [("shipped" if c is None else __import__("sa.build").build.config_name(c)) for c in ctx.configs()]
    # positive fixture
    fp = ctx.fixture("c18_shared_state.c")
    fan = __import__("sa.summary", fromlist=["Analyzer"]).Analyzer(fp)
    fl, _, _ = rules(fp, fan, rep, record=False)
    got = {r for r, c in fl}
    for r in ("C18.R1", "C18.R2", "C18.R3", "C18.R4", "C18.R5"):
        rep.fixture(r, "c18_shared_state.c", r in got, "flagged: %s" % sorted(c for rr, c in fl if rr == r))
