"""C05.R3 / R5 / R7 — the keystream buffering protocol of a CTR encrypt function, decided by path-sensitive abstract
interpretation over the whole function, whatever its shape.

The object keeps BATCH bytes of keystream in `ecounter` and the index of the first unused byte in `offset`.
Two ghost quantities are tracked along every path:
    pos : index of the first keystream byte that has not been xored into data yet
    T   : data bytes produced so far in this state (the output / input cursors must stand at start + T and the
          remaining size at size - T)
and the stored field   off : the current content of ctx->offset  (a linear form).
Events:
    refill  E(counter) -> ecounter, lanes advanced   needs  pos >= BATCH (provable), then pos := 0
    use     xor of keystream [a, a+n) into data       needs  a == pos, pos + n <= BATCH, n <= size - T,
                                                             out and in both at cursor + T; then pos += n, T += n
    store   ctx->offset := v                          off := v
At a loop back edge, at a loop exit and at return the state must be IN SYNC (off == pos, or both >= BATCH) and the
cursors must have moved by exactly T.  Loops are handled by executing the first iteration with the entry state and
then one generic iteration from fresh symbols under an invariant; the only invariant candidate besides 'in sync' is
'the buffer is exhausted' (off >= BATCH), kept when the first-iteration results establish it and the generic
iteration preserves it (needed for code that drains left-over keystream first and then refills unconditionally).
Static glue helpers without branches (a 'next keystream block' helper) are executed in the caller's state."""
from ..build import AnalysisBroken
from ..ir import CASTS
from ..initflow import lf_add, lf_const, lf_scale, lf_is_const, lf_str
from ..mem import AddrMap
from .common import construct, fsite

NEG = {"eq": "ne", "ne": "eq", "ult": "uge", "uge": "ult", "ule": "ugt", "ugt": "ule",
       "slt": "sge", "sge": "slt", "sle": "sgt", "sgt": "sle"}


def atom(a):
    return (0, ((a, 1),))


class Eval:
    """linear-form evaluation of one function with explicit bindings (phis, offset loads, parameters)."""

    def __init__(self, ctx5, f, am, parent=None, abind=None):
        self.c5 = ctx5          # Ctx5 of the slot function (fields of the context)
        self.f = f
        self.am = am
        self.vals = {}
        self.pvals = {}
        self.parent = parent
        self.abind = abind or {}        # callee parameter -> {"lf":..., "ptr":..., "fld": absolute ctx offset}

    def lf(self, op, depth=0):
        f = self.f
        if op[0] == "c":
            return lf_const(int(op[1]))
        if op[0] == "a":
            b = self.abind.get(op[1])
            if b is not None:
                return b.get("lf")
            return atom(("a", op[1]))
        if op[0] != "i" or depth > 40:
            return None
        if op[1] in self.vals:
            return self.vals[op[1]]
        i = f.insts[op[1]]
        o = i["op"]
        if o in ("zext", "sext", "trunc") or o in CASTS:
            return self.lf(i["ops"][0], depth + 1)
        if o in ("add", "sub"):
            x, y = self.lf(i["ops"][0], depth + 1), self.lf(i["ops"][1], depth + 1)
            if x is None or y is None:
                return None
            r = lf_add(x, y, 1 if o == "add" else -1)
            if lf_is_const(r):
                bits = i.get("bits", 64)
                c = r[0] & ((1 << bits) - 1)
                if c >= 1 << (bits - 1):
                    c -= 1 << bits
                return lf_const(c)
            return r
        if o == "mul" and i["ops"][1][0] == "c":
            x = self.lf(i["ops"][0], depth + 1)
            return lf_scale(x, int(i["ops"][1][1])) if x is not None else None
        if o == "load" and self.parent is None and getattr(self.c5.b, "const_fields", None):
            a = self.am.of(i["ops"][0])
            if a is not None and a.segs[-1].off is not None and a.root == ("arg", self.c5.h) and len(a.segs) == 2 and \
                    a.segs[0].off == self.c5.b.ctx_off:
                k = (a.segs[-1].off, i.get("size"))
                c = self.c5.b.const_fields.get(k)
                if c is not None and k != tuple(self.c5.b.fields.get("offset", (None, None))):
                    return lf_const(c)
        return atom(("i", f.key, i["id"]) if self.parent is not None else ("i", i["id"]))

    def ptr(self, op, depth=0):
        f = self.f
        off = lf_const(0)
        while depth < 60:
            depth += 1
            if op[0] == "a":
                b = self.abind.get(op[1])
                if b is not None:
                    if b.get("ptr") is None:
                        return None
                    return b["ptr"][0], lf_add(b["ptr"][1], off)
                return ("a", op[1]), off
            if op[0] != "i":
                return None
            i = f.insts[op[1]]
            if i["op"] in CASTS:
                op = i["ops"][0]
            elif i["op"] == "getelementptr":
                g = i["gep"]
                off = lf_add(off, lf_const(g["coff"]))
                for (v, sc) in g["vars"]:
                    l = self.lf(v)
                    if l is None:
                        return None
                    if lf_is_const(l) and l[0] >= 1 << 63:
                        l = lf_const(l[0] - (1 << 64))
                    off = lf_add(off, lf_scale(l, sc))
                op = g["base"]
            elif i["op"] == "phi":
                if i["id"] in self.pvals:
                    b, o = self.pvals[i["id"]]
                    return b, lf_add(o, off)
                return ("phi", i["id"]), off
            else:
                return ("i", i["id"]), off
        return None

    def field(self, op):
        """(field name, constant offset inside the field or None) when op points into the context."""
        if self.parent is None:
            return self.c5.field(op)
        a = self.am.of(op) if op[0] in ("i", "a") else None
        if a is None or a.root[0] != "arg" or len(a.segs) != 1:
            return None
        b = self.abind.get(a.root[1])
        if b is None or b.get("fld") is None:
            return None
        seg = a.segs[0]
        o = seg.off if seg.off is not None else (seg.rng[0] if seg.rng else None)
        if o is None:
            return "?", None
        ab = b["fld"] + o
        best = None
        for name, (off, size) in self.c5.b.fields.items():
            if off <= ab < off + size and (best is None or size < best[2]):
                best = (name, (ab - off if seg.off is not None else None), size)
        if best is not None:
            return best[0], best[1]
        return None


class St:
    __slots__ = ("vals", "pvals", "facts", "off", "pos", "T", "blocks", "refills", "uses", "stage", "obase", "ibase",
                 "size0", "off_stores", "bad", "sub", "carrier")

    def copy(self):
        n = St()
        n.vals, n.pvals, n.facts = dict(self.vals), dict(self.pvals), set(self.facts)
        n.off, n.pos, n.T = self.off, self.pos, self.T
        n.blocks = list(self.blocks)
        n.refills = [dict(r, incs=list(r["incs"])) for r in self.refills]
        n.uses = list(self.uses)
        n.stage, n.obase, n.ibase, n.size0 = self.stage, self.obase, self.ibase, self.size0
        n.off_stores = list(self.off_stores)
        n.bad = list(self.bad)
        n.sub = self.sub
        n.carrier = getattr(self, "carrier", None)
        return n


def prove_ge0(d, facts):
    """d >= 0 from constants or one fact (integers; the operands of the recorded comparisons do not wrap)."""
    if d is None:
        return False
    if lf_is_const(d):
        return d[0] >= 0
    for (p, x, y) in facts:
        if p in ("uge", "ugt", "sge", "sgt"):
            base, slack = lf_add(x, y, -1), (1 if p in ("ugt", "sgt") else 0)
        elif p in ("ule", "ult", "sle", "slt"):
            base, slack = lf_add(y, x, -1), (1 if p in ("ult", "slt") else 0)
        elif p == "eq":
            for base in (lf_add(x, y, -1), lf_add(y, x, -1)):
                e = lf_add(d, base, -1)
                if lf_is_const(e) and e[0] >= 0:
                    return True
            continue
        else:
            continue
        e = lf_add(d, base, -1)         # d = base + e, base >= slack
        if lf_is_const(e) and e[0] + slack >= 0:
            return True
    return False


def decide(p, x, y, facts):
    """True / False / None for  x p y  under the facts."""
    d = lf_add(x, y, -1)
    if lf_is_const(d):
        v = d[0]
        if p in ("ult", "ule", "ugt", "uge") and (not lf_is_const(x) or not lf_is_const(y)):
            # difference is constant but operands are symbolic: only decide the cases free of unsigned wrap
            return {"uge": v >= 0, "ugt": v > 0, "ule": v <= 0, "ult": v < 0}[p] if v == 0 else None
        return {"eq": v == 0, "ne": v != 0, "ult": v < 0, "ule": v <= 0, "ugt": v > 0, "uge": v >= 0,
                "slt": v < 0, "sle": v <= 0, "sgt": v > 0, "sge": v >= 0}.get(p)
    if p in ("uge", "sge") and prove_ge0(d, facts):
        return True
    if p in ("ugt", "sgt") and prove_ge0(lf_add(d, lf_const(1), -1), facts):
        return True
    if p in ("ule", "sle") and prove_ge0(lf_scale(d, -1), facts):
        return True
    if p in ("ult", "slt") and prove_ge0(lf_add(lf_scale(d, -1), lf_const(1), -1), facts):
        return True
    if p in ("ult", "slt") and prove_ge0(d, facts):
        return False
    if p in ("ule", "sle") and prove_ge0(lf_add(d, lf_const(1), -1), facts):
        return False
    if p in ("uge", "sge") and prove_ge0(lf_add(lf_scale(d, -1), lf_const(1), -1), facts):
        return False
    if p in ("ugt", "sgt") and prove_ge0(lf_scale(d, -1), facts):
        return False
    return None


class Proto:
    def __init__(self, prog, an, rep, cn, b, name, f, hidx, C5):
        self.prog, self.an, self.rep, self.cn, self.b, self.name, self.f, self.h = prog, an, rep, cn, b, name, f, hidx
        self.C5 = C5
        self.am = C5.am
        self.BATCH, self.BLOCK, self.L = b.batch, b.block, b.lanes
        self.cons = construct(f)
        self.loops = f.loops()
        self.npaths = 0
        self.entries = {}       # loop header -> [state at the first back edge]
        self.nsteps = 0
        self.quiet = False
        self.buffered = []
        self.latch_states = {}
        self.inc_helpers = set()
        # cursor roles from the parameter the pointer is derived from
        self.role_of_param = {}
        for k, p in enumerate(f.params):
            if k == hidx or not p["type"].endswith("*"):
                continue
            nm = p["name"]
            self.role_of_param[k] = "out" if nm.startswith("out") else ("in" if nm.startswith("in") else None)
        if sorted(v for v in self.role_of_param.values() if v) != ["in", "out"]:
            ptrs = sorted(self.role_of_param)
            if len(ptrs) == 2:
                self.role_of_param = {ptrs[0]: "out", ptrs[1]: "in"}
        self.size_param = [k for k, p in enumerate(f.params) if k != hidx and not p["type"].endswith("*")]

    # ------------------------------------------------------------------ reporting
    def emit(self, kind, rule, label, site, msg):
        if self.quiet:
            self.buffered.append((kind, rule, label, site, msg))
            return
        getattr(self.rep, kind)(rule, label, site, msg, cfg=self.cn)

    # ------------------------------------------------------------------ driver
    def run(self):
        f = self.f
        st = St()
        st.vals, st.pvals, st.facts = {}, {}, set()
        st.off = st.pos = atom(("fld", "offset"))
        st.T = lf_const(0)
        st.blocks, st.refills, st.uses, st.off_stores, st.bad = [], [], [], [], []
        st.stage = "entry"
        outk = [k for k, r in self.role_of_param.items() if r == "out"]
        ink = [k for k, r in self.role_of_param.items() if r == "in"]
        if len(outk) != 1 or len(ink) != 1 or len(self.size_param) != 1:
            self.rep.inconclusive("C05.R5", self.cons, fsite(f), "output / input / size parameters of the encrypt function not recognised", cfg=self.cn)
            return
        st.obase, st.ibase = (("a", outk[0]), lf_const(0)), (("a", ink[0]), lf_const(0))
        st.size0 = atom(("a", self.size_param[0]))
        st.sub = None
        st.carrier = None
        self.E = Eval(self.C5, f, self.am)
        self.walk(f.entry, None, st)
        rpo = {b: n for n, b in enumerate(f.rpo())}
        done = set()
        for _ in range(len(self.loops) + 1):
            pend = [h for h in sorted(self.entries, key=lambda h: rpo.get(h, 0)) if h not in done]
            if not pend:
                break
            h = pend[0]
            done.add(h)
            self.generic(h)
        if self.npaths < 3:
            self.rep.inconclusive("C05.R5", self.cons, fsite(f), "only %d keystream-consuming paths through the encrypt function (expected whole-batch, partial and left-over)" % self.npaths, cfg=self.cn)

    def generic(self, h):
        f = self.f
        ents = self.entries[h]
        BATCH = lf_const(self.BATCH)
        offh = atom(("fld", "offset@" + h))
        e_ok = all(prove_ge0(lf_add(s.off, BATCH, -1), s.facts) for s in ents)
        for attempt in ((True, False) if e_ok else (False,)):
            st = St()
            st.vals, st.pvals = {}, {}
            st.facts = {("uge", offh, BATCH)} if attempt else set()
            st.off = st.pos = offh
            st.T = lf_const(0)
            st.blocks, st.refills, st.uses, st.off_stores, st.bad = [], [], [], [], []
            st.stage = "loop@" + h
            st.sub = None
            # the keystream position may be carried by a local across iterations (read from ctx->offset before
            # the loop, written back after it): then the ghost starts as that loop-carried value
            cars = {getattr(s_, "carrier", None) for s_ in ents} - {None}
            st.carrier = next(iter(cars)) if len(cars) == 1 else None
            if st.carrier is not None:
                st.pos = atom(("i", st.carrier))
            hphis = [i for i in f.bbmap[h]["insts"] if i["op"] == "phi"]
            st.obase = st.ibase = None
            st.size0 = None
            ints = []
            for ph in hphis:
                if ph["type"].endswith("*"):
                    a = self.am.of(["i", ph["id"]])
                    r = self.role_of_param.get(a.root[1]) if a is not None and a.root[0] == "arg" and len(a.segs) == 1 else None
                    if r == "out":
                        st.obase = (("phi", ph["id"]), lf_const(0))
                    elif r == "in":
                        st.ibase = (("phi", ph["id"]), lf_const(0))
                elif ph["id"] != st.carrier:
                    ints.append(ph)
            if len(ints) == 1:
                st.size0 = atom(("i", ints[0]["id"]))
            if st.obase is None or st.ibase is None or st.size0 is None:
                self.rep.inconclusive("C05.R5", "%s:loop@%s" % (self.cons, h), f.loc(f.term(h)), "the data loop does not carry an output cursor, an input cursor and one size counter", cfg=self.cn)
                return
            self.quiet = attempt
            self.buffered = []
            self.latch_states[h] = []
            saved = self.npaths
            self.walk(h, None, st, start_generic=h)
            if attempt:
                self.quiet = False
                kept = all(prove_ge0(lf_add(s.off, BATCH, -1), s.facts) for s in self.latch_states[h])
                if kept:
                    for (kind, rule, label, site, msg) in self.buffered:
                        getattr(self.rep, kind)(rule, label, site, msg, cfg=self.cn)
                    return
                self.npaths = saved
                # invariant not preserved: analyse again without it (entries reached further on are recomputed)
                continue
            return

    # ------------------------------------------------------------------ path execution
    def walk(self, b, prev, st, start_generic=None):
        f = self.f
        self.nsteps += 1
        if self.nsteps > 20000:
            raise AnalysisBroken("path explosion in %s" % f.name)
        E = self.E
        E.vals, E.pvals = st.vals, st.pvals
        st.blocks.append(b)
        # phis (parallel assignment)
        if prev is not None:
            newv, newp = {}, {}
            for i in f.bbmap[b]["insts"]:
                if i["op"] != "phi":
                    continue
                for v, pb in zip(i["ops"], i["inblocks"]):
                    if pb == prev:
                        if i["type"].endswith("*"):
                            p = E.ptr(v)
                            if p is not None:
                                newp[i["id"]] = p
                        else:
                            l = E.lf(v)
                            if l is not None:
                                newv[i["id"]] = l
                        break
            st.vals.update(newv)
            st.pvals.update(newp)
        for i in f.bbmap[b]["insts"]:
            o = i["op"]
            if o == "load":
                fld = E.field(i["ops"][0])
                if fld and fld[0] == "offset":
                    st.vals[i["id"]] = st.off
            elif o == "store":
                fld = E.field(i["ops"][1])
                if fld and fld[0] == "offset":
                    v = E.lf(i["ops"][0])
                    st.off = v if v is not None else atom(("i", i["id"]))
                    st.off_stores.append(i)
            elif o == "call" and i["callee"][0] == "f" and self.prog.resolve(f.unit, i["callee"][1]) is not None:
                self.call_event(st, E, i)
        t = f.term(b)
        if t["op"] == "ret":
            self.finish(st, "exit", t)
            return
        if t["op"] != "br":
            return
        succs = t["succs"]
        if len(succs) == 2 and succs[0] != succs[1] and t["ops"][0][0] == "i":
            c = f.insts[t["ops"][0][1]]
            outs = []
            if c["op"] == "icmp":
                x, y = E.lf(c["ops"][0]), E.lf(c["ops"][1])
                for k, s in enumerate(succs):
                    p = c["pred"] if k == 0 else NEG.get(c["pred"], c["pred"])
                    if x is not None and y is not None:
                        d = decide(p, x, y, st.facts)
                        if d is False:
                            continue
                        outs.append((s, (p, x, y)))
                    else:
                        outs.append((s, None))
            else:
                outs = [(s, None) for s in succs]
            for n, (s, fact) in enumerate(outs):
                s2 = st.copy() if n + 1 < len(outs) else st
                if fact:
                    s2.facts.add(fact)
                self.step_to(b, s, s2, start_generic)
        else:
            self.step_to(b, succs[0], st, start_generic)

    def step_to(self, b, s, st, start_generic):
        f = self.f
        if s in self.loops and b in self.loops[s]:
            # back edge: end of an iteration
            self.finish(st, "latch", f.term(b), header=s, latch=b)
            return
        self.walk(s, b, st, start_generic)

    # ------------------------------------------------------------------ events
    def classify(self, E, i):
        flds = [E.field(o) if o[0] in ("i", "a") else None for o in i["ops"]]
        names = [x[0] if x else None for x in flds]
        if "ecounter" in names and "counter" in names:
            return "refill", flds, names
        if names and names[0] == "counter":
            return "inc", flds, names
        if "ecounter" in names:
            return "use", flds, names
        if any(n is not None for n in names):
            return "glue", flds, names
        return None, flds, names

    def call_event(self, st, E, i):
        kind, flds, names = self.classify(E, i)
        f = E.f
        BATCH = lf_const(self.BATCH)
        if kind == "refill":
            ok = prove_ge0(lf_add(st.pos, BATCH, -1), st.facts)
            st.refills.append({"call": i, "f": f, "flds": flds, "names": names, "guard": ok, "pos": st.pos, "incs": [], "E": E})
            st.pos = lf_const(0)
        elif kind == "inc":
            cs = [E.lf(o) for o in i["ops"][1:]]
            from .c05 import inc_tuples
            for (hk, tup) in inc_tuples(self.prog, f, i, [c[0] if c is not None and lf_is_const(c) else None for c in cs], self.BLOCK):
                if hk is not None:
                    self.inc_helpers.add(hk)
                if st.refills:
                    st.refills[-1]["incs"].append((i, tup))
                else:
                    st.bad.append(("C05.R3", f.loc(i), "the counter is advanced although no keystream batch was generated on this path"))
        elif kind == "use":
            kidx = names.index("ecounter")
            kf = flds[kidx]
            a = lf_const(kf[1]) if kf[1] is not None else None
            if a is None:
                kp = i["ops"][kidx]
                while kp[0] == "i" and f.insts[kp[1]]["op"] in CASTS:
                    kp = f.insts[kp[1]]["ops"][0]
                g = f.insts[kp[1]] if kp[0] == "i" else None
                if g is not None and g["op"] == "getelementptr" and g["gep"]["vars"]:
                    a = lf_const(0)
                    for (v, sc) in g["gep"]["vars"]:
                        l = E.lf(v)
                        a = lf_add(a, lf_scale(l, sc)) if (l is not None and a is not None) else None
                    # constant part relative to the start of ecounter
                    if a is not None:
                        bf = E.field(g["gep"]["base"])
                        if bf and bf[0] == "ecounter" and bf[1] is not None:
                            a = lf_add(a, lf_const(bf[1] + g["gep"]["coff"]))
                        else:
                            a = None
            others = [k for k in range(min(3, len(i["ops"]))) if k != kidx]
            ptrs = [E.ptr(i["ops"][k]) for k in others]
            n = E.lf(i["ops"][3]) if len(i["ops"]) == 4 else lf_const(self.BLOCK)
            if len(i["ops"]) == 3:
                # a wide xor (`xor_wide(out, in, ks)` = all blocks of the batch): the bytes it consumes are the bytes
                # its summary says it writes behind its first parameter, when that is a whole number of blocks
                g = self.prog.resolve(f.unit, i["callee"][1]) if i["callee"][0] == "f" else None
                if g is not None and not g.decl and g.key in self.an.summaries:
                    from .c13 import output_extent
                    ext = output_extent(self.prog, self.an, g)
                    if ext and ext > self.BLOCK and ext % self.BLOCK == 0:
                        n = lf_const(ext)
            st.uses.append({"call": i, "f": f, "a": a, "n": n, "ptrs": ptrs, "pos": st.pos, "T": st.T, "facts": set(st.facts)})
            if n is not None:
                st.pos = lf_add(st.pos, n)
                st.T = lf_add(st.T, n)
        elif kind == "glue":
            g = self.prog.resolve(f.unit, i["callee"][1])
            if g is None or g.loops() or any(len(g.succs[bb]) > 1 for bb in g.order):
                return
            ab = {}
            for k, o in enumerate(i["ops"]):
                if o[0] not in ("i", "a"):
                    if o[0] == "c":
                        ab[k] = {"lf": lf_const(int(o[1]))}
                    continue
                d = {"lf": E.lf(o) if not (k < len(g.params) and g.params[k]["type"].endswith("*")) else None,
                     "ptr": E.ptr(o) if (k < len(g.params) and g.params[k]["type"].endswith("*")) else None}
                fl = flds[k]
                if fl and fl[0] != "?" and fl[1] is not None:
                    d["fld"] = self.b.fields[fl[0]][0] + fl[1]
                ab[k] = d
            sub = Eval(self.C5, g, AddrMap(g), parent=E, abind=ab)
            sub.vals, sub.pvals = {}, {}
            for bb in g.order:
                for j in g.bbmap[bb]["insts"]:
                    if j["op"] == "load":
                        fld = sub.field(j["ops"][0])
                        if fld and fld[0] == "offset":
                            sub.vals[j["id"]] = st.off
                    elif j["op"] == "store":
                        fld = sub.field(j["ops"][1])
                        if fld and fld[0] == "offset":
                            v = sub.lf(j["ops"][0])
                            st.off = v if v is not None else atom(("i", g.key, j["id"]))
                            st.off_stores.append(j)
                    elif j["op"] == "call" and j["callee"][0] == "f" and self.prog.resolve(g.unit, j["callee"][1]) is not None:
                        self.call_event(st, sub, j)

    # ------------------------------------------------------------------ end of a path
    def finish(self, st, kind, term, header=None, latch=None):
        f = self.f
        rep = self.rep
        BATCH = lf_const(self.BATCH)
        if not st.uses and not st.refills and not st.off_stores and not st.bad:
            if kind == "latch":
                self.record_latch(st, header, latch, None)
            return
        self.npaths += 1 if st.uses else 0
        blocks = st.blocks[1:] if st.stage == "entry" else st.blocks[1:]
        label = "%s:%s:path[%s]" % (self.cons, st.stage, ">".join(blocks) or "-")
        site = f.loc(term)
        ok5 = True
        ok7 = True
        for (rule, loc, msg) in st.bad:
            self.emit("violation", rule, label, loc, msg)
            ok5 = False
        # ---- uses, in keystream order within each run of constant-offset uses
        for u in st.uses:
            i, uf = u["call"], u["f"]
            loc = uf.loc(i)
            a, n, pos, T = u["a"], u["n"], u["pos"], u["T"]
            if a is None or n is None:
                self.emit("inconclusive", "C05.R5", label, loc, "keystream offset / length of the xor is not a linear form")
                ok5 = False
                continue
            if a != pos:
                if lf_is_const(a) and a[0] == 0 and not st.refills:
                    self.emit("violation", "C05.R3", label, loc, "keystream is consumed from offset 0 without being generated on this path (a whole batch / fresh block is used but there is no refill)")
                else:
                    self.emit("violation", "C05.R5", label, loc, "keystream [%s, +%s) is xored into the data but the first unused keystream byte is at %s: bytes are skipped or used twice" % (lf_str(a), lf_str(n), lf_str(pos)))
                ok5 = False
            room = lf_add(lf_add(BATCH, pos, -1), n, -1)
            if not prove_ge0(room, u["facts"]) or not (lf_is_const(pos) or prove_ge0(lf_add(BATCH, pos, -1), u["facts"])):
                if not lf_is_const(pos) and not prove_ge0(lf_add(BATCH, pos, -1), u["facts"]):
                    self.emit("violation", "C05.R5", label, loc, "left-over keystream is used without the guard offset < %d (BATCH - offset would wrap)" % self.BATCH)
                else:
                    self.emit("violation", "C05.R5", label, loc, "length %s of the keystream xor is not bounded by the bytes left in the buffer (%d - %s)" % (lf_str(n), self.BATCH, lf_str(pos)))
                ok5 = False
            if st.size0 is not None:
                left = lf_add(lf_add(st.size0, T, -1), n, -1)
                if not prove_ge0(left, u["facts"]):
                    if lf_is_const(n) and n[0] >= self.BLOCK and lf_is_const(a):
                        self.emit("violation", "C05.R5", label, loc, "a whole batch (%d bytes) is consumed without the guard size >= %d" % (self.BATCH, self.BATCH))
                    else:
                        self.emit("violation", "C05.R5", label, loc, "%s bytes are processed although only size - %s are known to remain" % (lf_str(n), lf_str(T)))
                    ok5 = False
            # data cursors
            ptrs = u["ptrs"]
            if len(ptrs) != 2 or any(p is None for p in ptrs):
                self.emit("inconclusive", "C05.R7", label, loc, "xor call operands not recognised as output/input cursors")
                ok7 = False
                continue
            (bo, oo), (bi, oi) = ptrs
            wo = (st.obase[0], lf_add(st.obase[1], T))
            wi = (st.ibase[0], lf_add(st.ibase[1], T))
            if bo == wo[0] and bi == wi[0] and lf_add(oo, wo[1], -1) != lf_add(oi, wi[1], -1):
                self.emit("violation", "C05.R7", label, loc, "output is written at offset %s but input is read at offset %s of the same position in the stream" % (lf_str(lf_add(oo, st.obase[1], -1)), lf_str(lf_add(oi, st.ibase[1], -1))))
                ok7 = False
            elif (bo, oo) != wo or (bi, oi) != wi:
                if bo == wi[0] and bi == wo[0]:
                    self.emit("violation", "C05.R7", label + ":inplace", loc, "%s writes through the input cursor / reads the output cursor" % i["callee"][1])
                else:
                    self.emit("violation", "C05.R5", label, loc, "the xor works on data offset %s / %s although %s bytes of this request have been produced (whole-batch path xors keystream offsets into the wrong data offsets)" %
                              (lf_str(lf_add(oo, st.obase[1], -1)) if bo == wo[0] else "?", lf_str(lf_add(oi, st.ibase[1], -1)) if bi == wi[0] else "?", lf_str(T)))
                ok7 = False
        if st.uses and ok7:
            self.emit("ok", "C05.R7", label, st.uses[0]["f"].loc(st.uses[0]["call"]), "%d xor call(s): out and in use the same offset, the bytes produced so far" % len(st.uses))
        # ---- refills
        for r in st.refills:
            i, rf = r["call"], r["f"]
            loc = rf.loc(i)
            okr = True
            names, flds = r["names"], r["flds"]
            if not any(x in ("kt", "ks") for x in names):
                self.emit("violation", "C05.R3", label, loc, "the keystream block is not encrypted under this context's own key schedule")
                okr = False
            if names.index("ecounter") != 0 or flds[0][1] not in (0,) or flds[names.index("counter")][1] != 0:
                self.emit("violation", "C05.R3", label, loc, "refill does not encrypt counter -> ecounter from their starts")
                okr = False
            if not r["guard"]:
                self.emit("violation", "C05.R3", label, loc, "refill is not guarded by offset >= %d (unused keystream from position %s would be discarded)" % (self.BATCH, lf_str(r["pos"])))
                okr = False
            tuples = [t for (_, t) in r["incs"]]
            L = self.L
            want = [(1,)] if L == 1 else [(k, L) for k in range(L)]
            if sorted(tuples, key=str) != sorted(want, key=str):
                self.emit("violation", "C05.R3", label + ":advance", loc, "after a refill the counter lanes are advanced by %s, expected %s (every lane exactly once by %d)" % (sorted(tuples, key=str), want, L))
                okr = False
            if okr:
                self.emit("ok", "C05.R3", label, loc, "refill: E(counter)->ecounter under own schedule, only when the buffer is exhausted, lanes advanced %s" % want)
        # ---- in sync at the end
        sync = st.off == st.pos or (prove_ge0(lf_add(st.pos, BATCH, -1), st.facts) and prove_ge0(lf_add(st.off, BATCH, -1), st.facts))
        if not sync and kind == "latch":
            # a loop-carried local may hold the position instead of the field (written back after the loop)
            E = self.E
            E.vals, E.pvals = st.vals, st.pvals
            for ph in f.bbmap[header]["insts"]:
                if ph["op"] != "phi" or ph["type"].endswith("*"):
                    continue
                for x, pb in zip(ph["ops"], ph["inblocks"]):
                    if pb != latch or st.vals.get(ph["id"], atom(("i", ph["id"]))) == st.size0:
                        continue
                    nx = E.lf(x)
                    both_spent = nx is not None and (st.carrier == ph["id"]) and \
                        prove_ge0(lf_add(st.pos, BATCH, -1), st.facts) and prove_ge0(lf_add(nx, BATCH, -1), st.facts)
                    if nx == st.pos or both_spent:
                        st.carrier = ph["id"]
                        sync = True
        elif kind == "latch" and st.stage.startswith("loop@") and st.carrier is not None:
            pass
        if not sync:
            if st.uses and not st.off_stores:
                self.emit("violation", "C05.R5", label, site, "%s keystream bytes are used but offset is not updated on this path: the next call re-uses or skips keystream" % lf_str(st.T))
            elif st.refills and not st.uses:
                self.emit("violation", "C05.R5", label, st.refills[0]["f"].loc(st.refills[0]["call"]), "a keystream batch is generated on this path but none of it is consumed or accounted for")
            else:
                self.emit("violation", "C05.R5", label, site,
                          "the first unused keystream byte is at %s but offset becomes %s" % (lf_str(st.pos), lf_str(st.off)))
            ok5 = False
        # ---- cursors
        if kind == "latch":
            okc = self.record_latch(st, header, latch, label)
            ok5 = ok5 and okc
        if ok5 and (st.uses or st.refills):
            self.emit("ok", "C05.R5", label, site, "keystream %s used in order and bounded, %s data bytes, offset in sync with the first unused byte (%s)" %
                      ("; ".join("[%s,+%s)" % (lf_str(u["a"]), lf_str(u["n"])) for u in st.uses[:4]) or "-", lf_str(st.T), lf_str(st.off)))

    def record_latch(self, st, header, latch, label):
        """cursor discipline on a back edge; remembers the state for the loop's generic iteration."""
        f = self.f
        E = self.E
        E.vals, E.pvals = st.vals, st.pvals
        ok = True
        nxt = St()
        for ph in f.bbmap[header]["insts"]:
            if ph["op"] != "phi":
                continue
            v = None
            for x, pb in zip(ph["ops"], ph["inblocks"]):
                if pb == latch:
                    v = x
            if v is None:
                continue
            if ph["type"].endswith("*"):
                a = self.am.of(["i", ph["id"]])
                r = self.role_of_param.get(a.root[1]) if a is not None and a.root[0] == "arg" and len(a.segs) == 1 else None
                base = st.obase if r == "out" else (st.ibase if r == "in" else None)
                if base is None:
                    continue
                p = E.ptr(v)
                want = (base[0], lf_add(base[1], st.T))
                if p != want:
                    ok = False
                    if label:
                        self.emit("violation", "C05.R5", label + ":cursor", f.loc(f.term(latch)), "loop cursor `%s` moves by %s although %s bytes were consumed on this path" %
                                  (ph.get("name", "?"), lf_str(lf_add(p[1], base[1], -1)) if p is not None and p[0] == base[0] else "?", lf_str(st.T)))
            else:
                if st.size0 is None:
                    continue
                l = E.lf(v)
                # the integer loop-carried value that starts as the size
                cur = st.vals.get(ph["id"], atom(("i", ph["id"])))
                if cur != st.size0 and st.stage != "entry":
                    continue
                if st.stage == "entry" and cur != st.size0:
                    continue
                want = lf_add(st.size0, st.T, -1)
                if l != want:
                    ok = False
                    if label:
                        self.emit("violation", "C05.R5", label + ":cursor", f.loc(f.term(latch)), "loop cursor `%s` moves by %s although %s bytes were consumed on this path" %
                                  (ph.get("name", "?"), lf_str(lf_add(st.size0, l, -1)) if l is not None else "?", lf_str(st.T)))
        if label and not prove_ge0(lf_add(st.T, lf_const(1), -1), st.facts):
            ok = False
            self.emit("violation", "C05.R5", label + ":progress", f.loc(f.term(latch)), "an iteration of the data loop may consume nothing (%s bytes is not known to be at least 1): with offset == %d the left-over branch uses 0 bytes and the loop never ends" % (lf_str(st.T), self.BATCH))
        if ok and label and (st.uses or st.refills):
            self.emit("ok", "C05.R5", label + ":cursor", f.loc(f.term(latch)), "out, in and size all move by %s" % lf_str(st.T))
        if st.stage == "entry":
            self.entries.setdefault(header, []).append(st)
        elif st.stage == "loop@" + header:
            self.latch_states.setdefault(header, []).append(st)
        else:
            self.entries.setdefault(header, []).append(st)
        return ok
