"""C16 — allocation failure during initialisation is reported cleanly."""
from ..build import config_name
from ..mem import addr_str
from ..summary import Analyzer, term_str, fact_str
from .common import public_functions, construct, fsite, csite, init_cleanup_pairs, alloc_sites, handle_type
from .c14 import state_term

TITLE = ("Per-exit must-store analysis of the six public init functions (composed through the vtable over all back-end "
         "inits): (R1) on every returns-0 exit where the object pointer is non-null, obj->ctx := NULL (or, for CTR objects "
         "whose every entry point tests it first, obj->vtable := NULL) has definitely been stored, whatever the object "
         "held before; (R2) every returns-0 exit carries the fact 'allocation result == NULL' for the allocation made "
         "on that path, so nothing allocated is live; (R3) the failure status is the constant 0.")


def check_init(prog, an, rep, cn, f, kname, inert_fields):
    s = an.summaries[f.key]
    cons = construct(f)
    nexits = 0
    for (cls, st, esite, src) in s.exit_states:
        if cls != "z":
            continue
        if ("eq", ("a", 0), ("null",)) in st.facts:
            rep.ok("C16.R1", "%s:exit@%s" % (cons, csite(esite)), csite(esite), "object pointer is NULL on this exit: nothing to make inert", cfg=cn)
            continue
        nexits += 1
        inst = "%s:exit@%s%s" % (cons, csite(esite), " [alloc failed in callee]" if "callee returned 0" in esite else "")
        # R2
        failed = [x for x in st.facts if x[0] == "eq" and x[2] == ("null",) and x[1][0] == "p" and x[1][1][0][0] in ("heap", "heapi")]
        if failed:
            rep.ok("C16.R2", inst, csite(esite), "exit carries %s: nothing allocated is live" % fact_str(failed[0], s.addr_reg, prog), cfg=cn)
        else:
            rep.violation("C16.R2", inst, csite(esite), "init returns 0 on a path where its allocation may have succeeded (block leaked or object half-built)", cfg=cn)
        # R1: the field every entry point tests FIRST must be NULL; a later-tested field (ctx behind the
        # vtable dispatch) only counts when the first one definitely holds a real table
        hit = None

        def val(fld):
            t = state_term(prog, f, 0, fld)
            if t is None:
                return None
            ent = st.must.get((t[1], t[2]))
            return ent[1] if ent is not None else None
        def is_null(v):
            # a literal NULL, or a value this exit knows to be NULL (the failed allocation's own result stored as is)
            return v in (("null",), ("c", 0)) or (v is not None and ("eq", v, ("null",)) in st.facts)
        first = inert_fields[0]
        v0 = val(first)
        if is_null(v0):
            hit = first
        elif len(inert_fields) > 1 and v0 is not None and v0[0] == "p" and v0[1][0][0] == "global":
            v1 = val(inert_fields[1])
            if is_null(v1):
                hit = "%s (behind a valid %s)" % (inert_fields[1], first)
        if hit:
            rep.ok("C16.R1", inst, csite(esite), "obj->%s := NULL definitely stored before returning 0" % hit, cfg=cn)
        else:
            have = sorted("%s := %s" % (addr_str(l.addr, prog), term_str(t, s.addr_reg, prog)) for k, (l, t) in st.must.items() if l.addr.root == ("arg", 0))
            rep.violation("C16.R1", cons, csite(esite),
                          "allocation failure leaves the caller's object as found (must-stores on this exit: %s): a later cleanup or use dispatches on / frees whatever the object held" % (have or "none"),
                          have, cfg=cn)
    return nexits


def run_config(ctx, rep, cfg):
    cn = config_name(cfg)
    prog = ctx.prog(cfg)
    an = ctx.an(cfg)
    n = 0
    nex = 0
    for name, f, c, decl in public_functions(ctx, prog):
        if c["kind"] != "init":
            continue
        n += 1
        s = an.summaries[f.key]
        ht = handle_type(f)
        # order in which the other entry points on this handle type test the object's fields:
        # CTR objects dispatch through vtable first (then the back end tests ctx); parallel objects test ctx
        kinds = [c2 for n2, f2, c2, d2 in public_functions(ctx, prog) if c2["kind"] != "init" and
                 any(handle_type(f2, k) == ht for k in range(len(f2.params)))]
        if kinds and all("vtable" in c2["state"] for c2 in kinds):
            inert = ["vtable", "ctx"]
        else:
            inert = ["ctx"]
        nex += check_init(prog, an, rep, cn, f, name, inert)
        bad = [r for r in s.retconsts if r not in (0, 1)]
        if bad:
            rep.violation("C16.R3", construct(f), fsite(f), "init may return %s" % sorted(map(str, s.retconsts)), cfg=cn)
        else:
            rep.ok("C16.R3", construct(f), fsite(f), "returns %s" % sorted(s.retconsts), cfg=cn)
        if s.c("z") is None:
            rep.violation("C16.R3", construct(f), fsite(f), "init has no failure return although it allocates", cfg=cn)
    return n, nex


def run(ctx, rep):
    rep.assume("allocation failure = calloc returning NULL (the only allocator the library uses, C18.R2)",
               "an object is inert when the field every other entry point tests first is NULL (C14.R2, C15.R4/R5)")
    for cfg in ctx.configs():
        n, nex = run_config(ctx, rep, cfg)
        if cfg is None:
            rep.floor("C16.R1", "public init functions", n, 6)
            rep.floor("C16.R2", "failure exits with a non-null object", nex, 6)
        else:
            ctx.release(cfg)
    from ..report import Report
    fp = ctx.fixture("c16_bad_init.c")
    fan = Analyzer(fp)
    tmp = Report("C16", "fixture")
    for nm in ("fx_init_garbage", "fx_init_leak"):
        check_init(fp, fan, tmp, "fixture", fp.resolve(None, nm), nm, ["ctx"])
    got = {}
    for o in tmp.obs:
        if o["status"] == "VIOLATION":
            got.setdefault(o["rule"], []).append(o["construct"])
    for r in ("C16.R1", "C16.R2"):
        rep.fixture(r, "c16_bad_init.c", r in got, "flagged: %s" % sorted(got.get(r, [])))
