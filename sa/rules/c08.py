"""C08 — constant time: no branch or address depends on key, tweak, data or counter."""
from ..build import config_name
from ..ir import Program, indirect_targets
from ..taint import Taint, L_FIELDS, type_hints
from .common import construct, fsite

TITLE = ("Security-type (information-flow) check over the LLVM IR of every function of the library, in the source-shaped "
         "(-O0 + mem2reg) IR and in the IR at the Makefile's optimisation level: everything loaded from memory is secret "
         "unless its address resolves to a public field (rounds, offset, parallel_size, pointer-typed fields), a constant "
         "table or a local object that only ever receives public values; by-value parameters and return values are joined "
         "over all call sites (vtable calls resolved to every slot target). Obligations per function: (R1) branch/switch "
         "conditions, (R2) load/store addresses and vector lane indices, (R3) select conditions, (R4) indirect callees, "
         "(R5) memcpy/memset/calloc lengths, (R6) div/rem operands, (R7) no secret stored into a public field, (R8) returned "
         "status - all public. Each violation carries a def-use witness back to the secret load.")

RULES = ("R1", "R2", "R3", "R4", "R5", "R6", "R7", "R8")


def run_one(ctx, rep, cfg, shape, prog=None, record=True):
    cn = "%s/%s" % (config_name(cfg), shape)
    prog = prog or ctx.prog(cfg, shape)
    hints = None
    if shape != "O0" and record:
        # optimised IR may address a context through untyped byte offsets only; the unoptimised shape of the same
        # function still names the struct type behind obj->ctx
        hints = type_hints(ctx.prog(cfg, "O0"))
    pub = set()
    if record:
        try:
            from .ctr import ctr_backends
            for b in ctr_backends(ctx, ctx.prog(cfg, "O0"), ctx.an(cfg)):
                off, size = b.fields["offset"]
                pub.add((b.ctxty, off, size))
        except Exception:
            pub = set()
    T = Taint(prog, lambda f, i: indirect_targets(prog, f, i), hints, pub)
    by = {}
    for x in T.findings:
        by.setdefault((x["func"].key, x["rule"]), []).append(x)
    flagged = set()
    sinks = {}
    # per-function sink counts
    for f in T.funcs:
        for i in f.all_insts():
            pass
    for (fk, rule), xs in sorted(by.items()):
        f = prog.funcs[fk]
        x = xs[0]
        flagged.add("C08." + rule)
        if record:
            rep.violation("C08." + rule, construct(f), f.loc(x["inst"]),
                          "%s%s; flow: %s" % (x["what"], " (+%d more sites in this function)" % (len(xs) - 1) if len(xs) > 1 else "",
                                              " <- ".join(x["witness"][:6]) or "direct"),
                          [{"site": f.loc(y["inst"]), "witness": y["witness"]} for y in xs[:8]], cfg=cn)
    if record:
        for f in T.funcs:
            if not any(fk == f.key for (fk, r) in by):
                n = sum(1 for i in f.all_insts() if i["op"] in ("br", "switch", "load", "store", "select", "call", "udiv", "urem", "sdiv", "srem", "ret", "extractelement", "insertelement"))
                rep.ok("C08.all", construct(f), fsite(f), "%d potential sinks, all operands public; %d secret SSA values in the function" % (n, len(T.H[f.key])), cfg=cn)
        for u in T.unknown:
            rep.inconclusive("C08.model", "model:%s" % u[0], u[0], u[1], cfg=cn)
    return T, flagged


def run(ctx, rep):
    rep.assume("secrets: every byte behind key/tweak/counter/input/output pointers, schedule, tweak, counter, ecounter, k0, k0prime, k1, all cell unions and vector values",
               "public: pointer values, lengths, rounds, mode, offset, parallel_size, CPUID results, contents of constant tables (their index must be public)",
               "IR-level: the compiler back end's lowering of straight-line IR is trusted; gcc's own optimiser is not inspected",
               "x86 shifts/rotates and multiplications are constant-time; variable shift amounts are not failed")
    first = True
    for cfg in ctx.configs():
        for shape in ("O0", "ship"):
            T, _ = run_one(ctx, rep, cfg, shape)
            if first and shape == "O0":
                rep.floor("C08.R1", "conditional branches examined (source-shaped IR, shipped config)", T.counts["R1"], 200)
                rep.floor("C08.R2", "memory accesses examined", T.counts["R2"], 2000)
                rep.floor("C08.R5", "memcpy/memset/calloc lengths examined", T.counts["R5"], 30)
                rep.floor("C08.R4", "indirect calls examined", T.counts["R4"], 20)
                rep.analysed["sink_counts_O0"] = dict(T.counts)
                rep.analysed["treated_as_public"] = dict(T.public_loads)
                rep.analysed["secret_values"] = sum(len(v) for v in T.H.values())
                rep.analysed["secret_params"] = sum(len(v) for v in T.param.values())
            if first and shape == "ship":
                rep.analysed["sink_counts_O3"] = dict(T.counts)
                rep.floor("C08.R3", "select instructions examined (-O3 IR)", T.counts["R3"], 5)
        if cfg is not None:
            ctx.release(cfg)
        first = False
    # fixtures, both shapes
    need = {"O0": {"C08.R1", "C08.R2", "C08.R4", "C08.R5", "C08.R6", "C08.R7", "C08.R8"},
            "ship": {"C08.R1", "C08.R2", "C08.R3", "C08.R5", "C08.R6", "C08.R7", "C08.R8"}}
    for shape in ("O0", "ship"):
        fp = ctx.fixture("c08_leaks.c", shape=shape)
        _, got = run_one(ctx, rep, None, shape, prog=fp, record=False)
        for r in sorted(need[shape]):
            rep.fixture(r, "c08_leaks.c[%s]" % shape, r in got)
