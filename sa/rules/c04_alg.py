"""C04.R1 — what set_tweak xors into the key schedule, decided by a byte-range XOR algebra.

The TK1 part of the schedule is linear in TK1, so any number of xor passes P(b1), P(b2), ... over buffers
b1, b2, ... amounts to P(b1 ^ b2 ^ ...).  For the schedule to end up as the fresh schedule of the new tweak the
buffers handed to the passes must sum, byte for byte, to  OLD ^ NEWPAD  where OLD is the stored tweak at entry
and NEWPAD is the caller's tweak zero-padded (all zero when the tweak pointer is NULL).  This holds whatever the
spelling: "copy old; store new; pass(old copy); pass(field)" or "delta = old ^ new; pass(delta)".

Every 16/8-byte buffer is split at n = tweak_size into head [0,n) and tail [n,SIZE); each region holds a subset of
{OLD, ARG} (a GF(2) sum, position-wise) or UNKNOWN.  Transfer functions: memset 0, memcpy, the library's xor
helper, all on whole regions; anything else makes the region UNKNOWN.  The pass routine itself must be linear
under the constant arguments of the call: every value it xors into the schedule is key-derived (no constant)."""
from ..ir import CASTS
from ..initflow import InitFlow, lf_add, lf_const, lf_is_const, lf_str
from ..mem import AddrMap
from .c13 import enum_paths

OLD, ARG = "OLD", "ARG"
UNK = None


def sym(a, b):
    if a is None or b is None:
        return None
    return frozenset(a) ^ frozenset(b)


NEW = "NEW"


def uniform(reg):
    """value every byte of the buffer holds, over {OLD, NEW} (NEW = zero-padded new tweak at that position)."""
    if reg is None or reg.get("head") is None or reg.get("tail") is None:
        return None
    h, t = reg["head"], reg["tail"]
    if h == t:
        return frozenset(t)
    if ARG in h and ARG not in t and frozenset(h) - {ARG} == frozenset(t):
        return frozenset(t) | {NEW}
    return None


def regions_of(u):
    if u is None:
        return {"head": UNK, "tail": UNK}
    base = frozenset(u) - {NEW}
    return {"head": base | ({ARG} if NEW in u else frozenset()), "tail": base}


def is_xor_helper(g):
    """(dst, a, b, n): every store goes to *dst and stores load(a-derived) ^ load(b-derived)."""
    if len(g.params) < 4 or g.decl:
        return False
    am = AddrMap(g)
    stores = [i for i in g.all_insts() if i["op"] == "store"]
    if not stores:
        return False
    for s in stores:
        a = am.of(s["ops"][1])
        if a is None or a.root != ("arg", 0):
            return False
        v = s["ops"][0]
        while v[0] == "i" and g.insts[v[1]]["op"] in CASTS | {"zext", "trunc", "sext"}:
            v = g.insts[v[1]]["ops"][0]
        if v[0] != "i" or g.insts[v[1]]["op"] != "xor":
            return False
        roots = set()
        for o in g.insts[v[1]]["ops"]:
            while o[0] == "i" and g.insts[o[1]]["op"] in CASTS | {"zext", "trunc", "sext"}:
                o = g.insts[o[1]]["ops"][0]
            if o[0] != "i" or g.insts[o[1]]["op"] != "load":
                return False
            la = am.of(g.insts[o[1]]["ops"][0])
            if la is None or la.root[0] != "arg":
                return False
            roots.add(la.root[1])
        if roots != {1, 2}:
            return False
    return True


def pass_linearity(prog, x, consts):
    """violations [(inst, why)] of 'the pass only xors key-derived values into the schedule' in the blocks of x
    reachable when its parameters have the constant values `consts` {param index: int}."""
    am = AddrMap(x)
    # reachable blocks under the constant parameters
    reach = set()
    work = [x.entry]
    while work:
        b = work.pop()
        if b in reach:
            continue
        reach.add(b)
        t = x.term(b)
        succs = list(x.succs[b])
        if t["op"] == "br" and len(t["succs"]) == 2 and t["ops"][0][0] == "i":
            c = x.insts[t["ops"][0][1]]
            if c["op"] == "icmp" and c["pred"] in ("eq", "ne") and c["ops"][1][0] == "n":
                v = c["ops"][0]
                while v[0] == "i" and x.insts[v[1]]["op"] in CASTS:
                    v = x.insts[v[1]]["ops"][0]
                if v[0] == "a" and v[1] in consts and consts[v[1]] in (0, "fn"):
                    truth = (consts[v[1]] == 0) == (c["pred"] == "eq")
                    succs = [t["succs"][0] if truth else t["succs"][1]]
            if c["op"] == "icmp" and c["pred"] in ("eq", "ne") and c["ops"][1][0] == "c":
                v = c["ops"][0]
                while v[0] == "i" and x.insts[v[1]]["op"] in CASTS | {"zext", "sext", "trunc"}:
                    v = x.insts[v[1]]["ops"][0]
                if v[0] == "a" and v[1] in consts:
                    truth = (consts[v[1]] == int(c["ops"][1][1])) == (c["pred"] == "eq")
                    succs = [t["succs"][0] if truth else t["succs"][1]]
        work.extend(succs)
    keymemo = {}

    def key_derived(op, depth=0):
        if op[0] == "a":
            return False
        if op[0] != "i" or depth > 40:
            return False
        if op[1] in keymemo:
            return keymemo[op[1]]
        keymemo[op[1]] = False
        i = x.insts[op[1]]
        r = False
        if i["op"] == "load":
            a = am.of(i["ops"][0])
            r = a is not None and (a.root[0] == "alloca" or (a.root[0] == "arg" and a.root[1] != 0))
        elif i["op"] not in ("call", "alloca"):
            r = any(key_derived(o, depth + 1) for o in i["ops"])
        keymemo[op[1]] = r
        return r

    def leaves(op, depth=0):
        if op[0] == "i" and depth < 30:
            i = x.insts[op[1]]
            if i["op"] in ("xor", "or"):
                return leaves(i["ops"][0], depth + 1) + leaves(i["ops"][1], depth + 1)
            if i["op"] in ("zext", "trunc", "sext") or i["op"] in CASTS:
                return leaves(i["ops"][0], depth + 1)
        return [op]
    bad = []
    nst = 0
    for b in reach:
        for i in x.bbmap[b]["insts"]:
            if i["op"] != "store":
                continue
            a = am.of(i["ops"][1])
            if a is None or a.root != ("arg", 0):
                continue
            seg = a.segs[-1]
            o = seg.off if seg.off is not None else (seg.rng[0] if seg.rng else None)
            if not seg.ty or o is None or "schedule" not in prog.describe(seg.ty, o):
                continue
            nst += 1
            for lf_ in leaves(i["ops"][0]):
                if lf_[0] == "c":
                    if int(lf_[1]) != 0:
                        bad.append((i, "the constant %s is xored into the schedule" % hex(int(lf_[1]))))
                    continue
                if lf_[0] == "i" and x.insts[lf_[1]]["op"] == "load":
                    la = am.of(x.insts[lf_[1]]["ops"][0])
                    if la is not None and la.root == ("arg", 0):
                        continue        # the schedule word itself (read-modify-write)
                if not key_derived(lf_):
                    bad.append((i, "a value that does not come from the tweak bytes is xored into the schedule"))
    return bad, nst, len(reach)


class Algebra:
    def __init__(self, prog, an, f, toff, tsz, tidx, sidx, ksoff):
        self.prog, self.an, self.f = prog, an, f
        self.toff, self.tsz, self.tidx, self.sidx, self.ksoff = toff, tsz, tidx, sidx, ksoff
        self.fl = InitFlow(f, an, track_args=True)
        self.n = (0, ((("a", sidx), 1),))
        self.unsupported = None
        self.passes = []        # (call inst, callee)

    def buf(self, op):
        """(buffer id, offset lf relative to the buffer start) for a pointer operand."""
        p = self.fl.ptr(op) if op[0] in ("i", "a") else None
        if p is None:
            return None
        obj, off = p
        if obj == (("arg", 0), ()):
            if lf_is_const(off) and self.toff <= off[0] < self.toff + self.tsz:
                return "field", lf_const(off[0] - self.toff)
            rel = lf_add(off, lf_const(self.toff), -1)
            if not lf_is_const(off) and off[0] >= self.toff:
                return "field", rel
            return None
        if obj[0][0] == "alloca":
            return ("local", obj[0][1]), off
        if obj == (("arg", self.tidx), ()):
            return "arg", off
        return None

    def head_loop(self, header, body):
        """[(kind, inst, buffer)] in program order when the loop is  for (i = 0; i < tweak_size; ++i)  with a
        straight-line body whose accesses to tracked buffers are single bytes at position i; None otherwise."""
        f = self.f
        t = f.term(header)
        if t["op"] != "br" or len(t["succs"]) != 2 or t["ops"][0][0] != "i":
            return None
        c = f.insts[t["ops"][0][1]]
        if c["op"] != "icmp" or c["pred"] not in ("ult", "ne", "slt"):
            return None
        iv = c["ops"][0]
        while iv[0] == "i" and f.insts[iv[1]]["op"] in ("zext", "sext", "trunc"):
            iv = f.insts[iv[1]]["ops"][0]
        if iv[0] != "i" or f.insts[iv[1]]["op"] != "phi" or f.bb_of[iv[1]] != header:
            return None
        phi = f.insts[iv[1]]
        okiv = True
        for v, pb in zip(phi["ops"], phi["inblocks"]):
            if pb in body:
                bi = f.insts.get(v[1]) if v[0] == "i" else None
                if not (bi and bi["op"] == "add" and bi["ops"][0] == ["i", phi["id"]] and bi["ops"][1][0] == "c" and int(bi["ops"][1][1]) == 1):
                    okiv = False
            elif not (v[0] == "c" and int(v[1]) == 0):
                okiv = False
        bound = self.fl.lf(c["ops"][1])
        if not okiv or bound != self.n:
            return None
        # straight-line body
        chain = []
        b = [s for s in t["succs"] if s in body]
        if len(b) != 1:
            return None
        b = b[0]
        while b != header:
            chain.append(b)
            ss = f.succs[b]
            if len(ss) != 1:
                return None
            b = ss[0]
        ivatom = (0, ((("i", phi["id"]), 1),))
        out = []
        for bb in chain:
            for i in f.bbmap[bb]["insts"]:
                if i["op"] in ("load", "store"):
                    p = i["ops"][0] if i["op"] == "load" else i["ops"][1]
                    bf = self.buf(p)
                    if bf is None:
                        if i["op"] == "store":
                            a = self.fl.ptr(p)
                            if a is None or a[0][0][0] != "alloca":
                                return None      # a store to something we do not track
                        continue
                    if i.get("size") != 1 or bf[1] != ivatom:
                        return None
                    out.append((i["op"], i, bf[0]))
                elif i["op"] == "call" and not (i.get("intrinsic") or "").startswith(("llvm.dbg", "llvm.lifetime")):
                    return None
        return out

    def region_op(self, off, length):
        """which regions an access [off, off+length) covers exactly: 'both' | 'head' | 'tail' | None"""
        full = lf_const(self.tsz)
        if off == lf_const(0) and length == full:
            return "both"
        if off == lf_const(0) and length == self.n:
            return "head"
        if off == self.n and length == lf_add(full, self.n, -1):
            return "tail"
        return None

    def run(self):
        """[(path blocks, success?, null path?, total {head, tail}, field {head, tail}, pass calls)]"""
        f = self.f
        out = []
        # byte loops  for (i = 0; i < tweak_size; ++i) { ... [i] ... }  act on the head region as a whole
        head_loops = {}
        for h, body in f.loops().items():
            info = self.head_loop(h, body)
            if info is None:
                self.unsupported = "set_tweak contains a loop that is not a byte loop over the first tweak_size bytes"
                return None
            head_loops[h] = info
        xor_memo = {}
        for path in enum_paths(f, limit=2000, collapse_loops=bool(head_loops)):
            env = {}
            st = {"field": {"head": frozenset([OLD]), "tail": frozenset([OLD])},
                  "arg": {"head": frozenset([ARG]), "tail": UNK}}
            total = {"head": frozenset(), "tail": frozenset()}
            null_path = None
            calls = []
            bytes_ = {}         # buffer -> {position: value over {OLD, NEW} | None}
            bval = {}           # SSA byte values

            def flush(bid):
                """fold complete byte-wise contents back into the two regions"""
                bs = bytes_.pop(bid, None)
                if not bs:
                    return
                if len(bs) == self.tsz and all(v is not None for v in bs.values()) and len(set(bs.values())) == 1:
                    st[bid] = regions_of(next(iter(bs.values())))
                else:
                    st[bid] = {"head": UNK, "tail": UNK}

            def byte_of(op):
                if op[0] == "c":
                    return frozenset() if int(op[1]) == 0 else None
                if op[0] != "i":
                    return None
                if op[1] in bval:
                    return bval[op[1]]
                ii = f.insts[op[1]]
                if ii["op"] in ("zext", "sext", "trunc") or ii["op"] in CASTS:
                    return byte_of(ii["ops"][0])
                if ii["op"] == "xor":
                    return sym(byte_of(ii["ops"][0]), byte_of(ii["ops"][1]))
                if ii["op"] == "phi" and ii["id"] in env:
                    return byte_of(env[ii["id"]])
                return None
            for k, b in enumerate(path):
                prev = path[k - 1] if k else None
                if b in head_loops:
                    # one symbolic iteration at "a position below tweak_size"
                    for bid in list(bytes_):
                        flush(bid)
                    cur = {}        # buffer -> value at the current position after this iteration's stores
                    lval = {}
                    okl = True

                    def hv(bid):
                        if bid in cur:
                            return cur[bid]
                        if bid == "arg":
                            return frozenset([ARG])
                        r = st.get(bid)
                        return None if r is None else r.get("head")

                    def lbyte(op):
                        if op[0] == "c":
                            return frozenset() if int(op[1]) == 0 else None
                        if op[0] != "i":
                            return None
                        if op[1] in lval:
                            return lval[op[1]]
                        ii = f.insts[op[1]]
                        if ii["op"] in ("zext", "sext", "trunc") or ii["op"] in CASTS:
                            return lbyte(ii["ops"][0])
                        if ii["op"] == "xor":
                            return sym(lbyte(ii["ops"][0]), lbyte(ii["ops"][1]))
                        return None
                    for (kind, inst, bid) in head_loops[b]:
                        if kind == "load":
                            lval[inst["id"]] = hv(bid)
                        elif kind == "store":
                            cur[bid] = lbyte(inst["ops"][0])
                        else:
                            okl = False
                    for bid, v in cur.items():
                        reg = dict(st.get(bid, {"head": UNK, "tail": UNK}))
                        reg["head"] = v if okl else UNK
                        st[bid] = reg
                for i in f.bbmap[b]["insts"]:
                    o = i["op"]
                    if o == "phi" and prev is not None:
                        for v, pb in zip(i["ops"], i["inblocks"]):
                            if pb == prev:
                                env[i["id"]] = v
                    elif o == "load" and i.get("size") == 1:
                        bf = self.buf(i["ops"][0])
                        if bf is not None and lf_is_const(bf[1]) and 0 <= bf[1][0] < self.tsz:
                            if bf[0] in bytes_ and bf[1][0] in bytes_[bf[0]]:
                                bval[i["id"]] = bytes_[bf[0]][bf[1][0]]
                            elif bf[0] == "arg":
                                bval[i["id"]] = None        # raw caller byte: only meaningful below tweak_size
                            else:
                                bval[i["id"]] = uniform(st.get(bf[0]))
                    elif o == "store":
                        bf = self.buf(i["ops"][1])
                        if bf is not None and bf[0] != "arg":
                            if i.get("size") == 1 and lf_is_const(bf[1]) and 0 <= bf[1][0] < self.tsz:
                                if bf[0] not in bytes_:
                                    # positions not yet rewritten keep the buffer's uniform content
                                    u = uniform(st.get(bf[0]))
                                    bytes_[bf[0]] = {k2: u for k2 in range(self.tsz)} if u is not None else {}
                                bytes_[bf[0]][bf[1][0]] = byte_of(i["ops"][0])
                            else:
                                bytes_.pop(bf[0], None)
                                st[bf[0]] = {"head": UNK, "tail": UNK}
                    elif o == "call":
                        base = i.get("intrinsic") or (i["callee"][1] if i["callee"][0] == "f" else "")
                        if base.startswith(("llvm.dbg", "llvm.lifetime")):
                            continue
                        for o2 in i["ops"]:
                            bf2 = self.buf(o2) if o2[0] in ("i", "a") else None
                            if bf2 is not None:
                                flush(bf2[0])
                        if base in ("llvm.memset",):
                            d = self.buf(i["ops"][0])
                            if d is None or d[0] == "arg":
                                continue
                            ln = self.fl.lf(i["ops"][2])
                            val = i["ops"][1]
                            reg = self.region_op(d[1], ln) if ln is not None else None
                            cur = st.setdefault(d[0], {"head": UNK, "tail": UNK})
                            new = dict(cur)
                            zero = val[0] == "c" and int(val[1]) == 0
                            for r in ("head", "tail"):
                                if reg in ("both", r):
                                    new[r] = frozenset() if zero else UNK
                                elif reg is None:
                                    new[r] = UNK
                            st[d[0]] = new
                        elif base in ("llvm.memcpy", "llvm.memmove"):
                            d, s_ = self.buf(i["ops"][0]), self.buf(i["ops"][1])
                            if d is None or d[0] == "arg":
                                continue
                            ln = self.fl.lf(i["ops"][2])
                            reg = self.region_op(d[1], ln) if ln is not None else None
                            cur = st.setdefault(d[0], {"head": UNK, "tail": UNK})
                            new = dict(cur)
                            src = st.get(s_[0]) if s_ is not None else None
                            same_pos = s_ is not None and s_[1] == d[1]
                            for r in ("head", "tail"):
                                if reg in ("both", r):
                                    new[r] = src[r] if (src is not None and same_pos) else UNK
                                elif reg is None:
                                    new[r] = UNK
                            st[d[0]] = new
                        elif i["callee"][0] == "f":
                            g = self.prog.resolve(f.unit, i["callee"][1])
                            if g is None:
                                continue
                            if g.key not in xor_memo:
                                xor_memo[g.key] = is_xor_helper(g)
                            ops = i["ops"]
                            if xor_memo[g.key] and len(ops) >= 4:
                                d, a_, b_ = self.buf(ops[0]), self.buf(ops[1]), self.buf(ops[2])
                                ln = self.fl.lf(ops[3])
                                if d is None or d[0] == "arg":
                                    continue
                                reg = self.region_op(d[1], ln) if ln is not None else None
                                cur = st.setdefault(d[0], {"head": UNK, "tail": UNK})
                                new = dict(cur)
                                sa, sb = (st.get(a_[0]) if a_ else None), (st.get(b_[0]) if b_ else None)
                                ok_pos = a_ is not None and b_ is not None and a_[1] == d[1] and b_[1] == d[1]
                                for r in ("head", "tail"):
                                    if reg in ("both", r):
                                        new[r] = sym(sa[r], sb[r]) if (ok_pos and sa is not None and sb is not None) else UNK
                                    elif reg is None:
                                        new[r] = UNK
                                st[d[0]] = new
                                continue
                            # a pass: first argument is the key schedule inside the object, second a tracked buffer
                            p0 = self.fl.ptr(ops[0]) if ops and ops[0][0] in ("i", "a") else None
                            bf = self.buf(ops[1]) if len(ops) >= 2 else None
                            if p0 is not None and p0[0] == (("arg", 0), ()) and lf_is_const(p0[1]) and p0[1][0] == self.ksoff and bf is not None and bf[1] == lf_const(0):
                                src = st.get(bf[0], {"head": UNK, "tail": UNK})
                                total = {"head": sym(total["head"], src["head"]), "tail": sym(total["tail"], src["tail"])}
                                calls.append((i, g, bf[0]))
                                continue
                            # any other callee that may write a tracked buffer makes it unknown
                            gs = self.an.summaries.get(g.key)
                            for j, o2 in enumerate(ops):
                                bf2 = self.buf(o2) if o2[0] in ("i", "a") else None
                                if bf2 is None or bf2[0] == "arg":
                                    continue
                                if gs is None or any(l.addr is not None and l.addr.root == ("arg", j) for cs in gs.cls.values() for (l, w) in cs.may.values()):
                                    st[bf2[0]] = {"head": UNK, "tail": UNK}
                    elif o == "br" and len(i["succs"]) == 2 and k + 1 < len(path) and i["ops"][0][0] == "i":
                        c = f.insts[i["ops"][0][1]]
                        if c["op"] == "icmp" and c["pred"] in ("eq", "ne") and c["ops"][1][0] == "n":
                            v = c["ops"][0]
                            while v[0] == "i" and f.insts[v[1]]["op"] in CASTS:
                                v = f.insts[v[1]]["ops"][0]
                            if v == ["a", self.tidx]:
                                truth = path[k + 1] == i["succs"][0]
                                isnull = (c["pred"] == "eq") == truth
                                if null_path is not None and null_path != isnull:
                                    null_path = "infeasible"
                                elif null_path is None:
                                    null_path = isnull
            for bid in list(bytes_):
                flush(bid)
            if null_path == "infeasible":
                continue
            # success?
            t = f.term(path[-1])
            succ = None
            if t["op"] == "ret" and t["ops"]:
                v = t["ops"][0]
                seen = 0
                while v[0] == "i" and seen < 10:
                    seen += 1
                    ii = f.insts[v[1]]
                    if ii["op"] == "phi" and ii["id"] in env:
                        v = env[ii["id"]]
                    elif ii["op"] in CASTS | {"zext", "sext", "trunc"}:
                        v = ii["ops"][0]
                    else:
                        break
                if v[0] == "c":
                    succ = int(v[1]) != 0
            out.append({"path": path, "success": succ, "null": bool(null_path), "total": total, "field": st["field"], "calls": calls})
            self.passes.extend(calls)
        return out
