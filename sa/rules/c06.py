"""C06 — back-end independence: generic and SIMD back ends are observably identical (structural part)."""
from ..build import config_name
from ..ir import indirect_targets
from ..mem import addr_str
from ..summary import fact_str, term_str
from ..lanes import Lanes
from ..contract import block_size
from .common import public_functions, construct, fsite, vtable_instances
from .ctr import ctr_backends
from .c07 import check_lanes
from .c13 import output_extent

TITLE = ("Value equality of the S-box implementations is not decided. Decided: (R1) for every vtable slot the "
         "effect/guard summaries of the sibling back ends of one cipher agree after mapping context fields by name - guards "
         "on success paths, return constants, reject-before-write, and the written field sets of the success class (vector "
         "contexts may additionally write base_ptr and the lane counters); a guard present in the siblings and missing in one "
         "is reported at the deviant; (R2) in a back end with L > 1 lanes a setter that invalidates the buffered batch without "
         "reloading the counter must also rewind the lane counters, otherwise the next block is E(c+L) where the generic back "
         "end produces E(c+1); (R3) vector siblings of one parallel table type read the same key-schedule fields and cover "
         "lanes x BLOCK bytes, and every CTR batch encryptor writes keystream block b from counter lane b only. (R4) vector copies of a permutation helper have the scalar routing table; (R5) GF(2) affine interpretation of the round loop of "
         "every SKINNY block function of every back end (scalar, parallel vec128/vec256, CTR batch encryptors): block by block "
         "the same linear layer as the scalar function - same S-box output bits, key bits and constants for every state bit. "
         "S-box implementations themselves (bit-sliced vs table) are not compared.")


def canon_fields(prog, locs, hidx, b):
    """names of context / handle fields in a set of locations (by field name, not offset)."""
    out = set()
    for loc in locs:
        a = loc.addr
        if a is None:
            out.add("?")
            continue
        if a.root == ("arg", hidx) and len(a.segs) == 2 and a.segs[0].off == b.ctx_off:
            seg = a.segs[1]
            o = seg.off if seg.off is not None else (seg.rng[0] if seg.rng else None)
            nm = None
            best = None
            for name, (off, size) in b.fields.items():
                if o is not None and off <= o < off + size and (best is None or size < best):
                    nm, best = name, size       # the innermost field containing the byte
            if nm in ("kt", "ks") and o is not None:
                p = prog.describe(b.ctxty, o)
                p = [x for x in p if not x.startswith("[") and not x.startswith("<")]
                real = getattr(b, "field_names", {}).get("kt", "kt").split(".")
                if p[:len(real)] == real:
                    p = ["kt"] + p[len(real):]      # the schedule member by role, whatever it is called
                nm = ".".join(p[:3]) if p else nm
                nm = nm.replace("kt.ks.", "ks.").replace("kt.tweak", "tweak")
            out.add("ctx." + (nm or "?"))
        elif a.root == ("arg", hidx) and len(a.segs) == 1:
            out.add("handle")
        elif a.root[0] == "arg":
            out.add("P%d" % a.root[1])
        elif a.root[0] in ("heap", "heapi"):
            out.add("fresh")
    return out


def canon_guards(prog, s, cs, hidx, b):
    out = set()
    def local(t):
        if t[0] in ("p", "ld") and t[1][0][0] in ("heap", "heapi"):
            return True
        if t[0] == "bin":
            return local(t[2]) or local(t[3])
        return False
    for fct in (cs.guards or ()):
        if local(fct[1]) or local(fct[2]):
            continue        # facts about this back end's own allocation are not part of the interface
        if fct[0] in ("ne", "eq") and fct[2] == ("null",) and fct[1][0] == "p" and len(fct[1][1][1]) >= 2:
            continue        # "the address of a field inside the context is not NULL": says nothing (and names the field)
        txt = fact_str(fct, s.addr_reg, prog)
        out.add(txt)
    return out


def run_config(ctx, rep, cfg):
    cn = config_name(cfg)
    prog = ctx.prog(cfg)
    an = ctx.an(cfg)
    backends = ctr_backends(ctx, prog, an)
    fams = {}
    for b in backends:
        fams.setdefault(b.family, []).append(b)
    nsib = 0
    for fam, bs in sorted(fams.items()):
        ref = [b for b in bs if b.lanes == 1]
        if not ref:
            rep.inconclusive("C06.R1", "family:%s" % fam, "", "no generic (one-lane) CTR back end to compare with", cfg=cn)
            continue
        ref = ref[0]
        for b in bs:
            for name, g in sorted(b.roles.items()):
                kind = b.kinds[name]
                if name not in ref.roles:
                    continue
                rg = ref.roles[name]
                s, rs = an.summaries[g.key], an.summaries[rg.key]
                h = b.handle_idx[name]
                cons = construct(g)
                # ---- R1 sibling agreement against the generic back end
                if b is not ref:
                    nsib += 1
                    diffs = []
                    for cl in ("nz", "z", "void"):
                        a, r = s.c(cl), rs.c(cl)
                        if (a is None) != (r is None):
                            diffs.append("return class %s exists only in %s" % (cl, g.name if a else rg.name))
                            continue
                        if a is None:
                            continue
                        ga, gr = canon_guards(prog, s, a, h, b), canon_guards(prog, rs, r, h, ref)
                        if cl != "z" and ga != gr:
                            miss, extra = sorted(gr - ga), sorted(ga - gr)
                            if miss:
                                diffs.append("success paths lack the guard(s) %s that %s has" % (miss, rg.name))
                            if extra:
                                diffs.append("success paths require %s which %s does not" % (extra, rg.name))
                        wa = canon_fields(prog, [l for (l, w) in a.may.values()], h, b)
                        wr = canon_fields(prog, [l for (l, w) in r.may.values()], h, ref)
                        wa -= {"ctx.base_ptr"}
                        if kind == "init":
                            # in init the context IS the fresh block: writes through obj->ctx after attaching it and
                            # writes to the block before attaching it are the same thing; making the handle inert on
                            # the failing path is init's duty (C16), not a deviation
                            wa = {("fresh" if x.startswith("ctx.") else x) for x in wa}
                            wr = {("fresh" if x.startswith("ctx.") else x) for x in wr}
                            if cl == "z":
                                wa -= {"handle"}
                                wr -= {"handle"}
                        if cl != "z":
                            extra_ok = {"ctx.counter"} if b.lanes > 1 else set()
                            if not (wr <= wa and wa - wr <= extra_ok):
                                diffs.append("writes %s but %s writes %s" % (sorted(wa), rg.name, sorted(wr)))
                        elif wa or wr:
                            diffs.append("a rejecting path writes %s" % sorted(wa | wr))
                    if s.retconsts != rs.retconsts:
                        diffs.append("returns %s, %s returns %s" % (sorted(map(str, s.retconsts)), rg.name, sorted(map(str, rs.retconsts))))
                    if diffs:
                        rep.violation("C06.R1", cons, fsite(g), "%s (%d-lane back end) deviates from its generic sibling: %s" % (name.split("_ctr_")[-1], b.lanes, "; ".join(diffs[:3])), diffs, cfg=cn)
                    else:
                        rep.ok("C06.R1", cons, fsite(g), "guards, return constants and written fields agree with %s" % rg.name, cfg=cn)
                # ---- R2 batch-discard reconciliation
                if b.lanes > 1 and kind in ("key", "tweak"):
                    nz = s.c("nz")
                    wa = canon_fields(prog, [l for (l, w) in nz.may.values()], h, b) if nz else set()
                    # the instance is the slot of the back-end table (stable under renaming of the static
                    # function that fills it): <file of the table>:<table>.<public role>
                    cons2 = "src/%s.c:%s.%s" % (b.unit, b.table, name.split("_ctr_")[-1])
                    if "ctx.counter" in wa:
                        rep.ok("C06.R2", cons2, fsite(g), "discarding the batch is reconciled: the lane counters are rewritten", cfg=cn)
                    else:
                        rep.violation("C06.R2", cons2, fsite(g),
                                      "%s discards the buffered %d-block batch (offset := %d) but leaves the lane counters advanced: the next keystream block is E(c+%d) where the generic back end gives E(c+1)" %
                                      (name.split("_ctr_")[-1], b.lanes, b.batch, b.lanes), cfg=cn)
    # ---- R3 CTR batch encryptors: keystream block b from counter lane b only (optimised IR)
    ship = ctx.prog(cfg, "shipinl")
    nlane = 0
    for b in backends:
        if b.lanes == 1:
            continue
        en, ef = b.role("_encrypt")
        sf = ship.funcs.get((ef.unit, ef.name))
        if sf is None or sf.decl:
            rep.inconclusive("C06.R3", construct(ef), fsite(ef), "encrypt slot missing from the optimised IR", cfg=cn)
            continue
        if any(i["op"] == "call" and i["callee"][0] == "f" and prog.resolve(sf.unit, i["callee"][1]) is not None and
               output_extent(prog, an, prog.resolve(sf.unit, i["callee"][1])) == b.batch for i in sf.all_insts()):
            rep.inconclusive("C06.R3", construct(ef), fsite(ef), "batch encryptor was not inlined at -O3: lane analysis needs it in one function", cfg=cn)
            continue
        nlane += 1
        h = b.handle_idx[en]
        coff, csz = b.fields["counter"]
        eoff, esz = b.fields["ecounter"]
        before = len(rep.obs)
        # the function that holds the (inlined) batch encryptor: the slot itself, or a static refill helper that
        # receives the context pointer
        lf_, spec = sf, (h, b.ctx_off)
        from ..mem import AddrMap
        from ..lanes import ctx_seg
        def writes_sink(fn, sp):
            am = AddrMap(fn)
            for i in fn.all_insts():
                if i["op"] == "store":
                    a = am.of(i["ops"][1])
                    cs = ctx_seg(a, sp + (eoff, esz)) if a is not None else None
                    o = None if cs is None else (cs.off if cs.off is not None else (cs.rng[0] if cs.rng else None))
                    if o is not None and eoff <= o < eoff + esz:
                        return True
            return False
        if not writes_sink(sf, spec):
            am0 = AddrMap(sf)
            for i in sf.all_insts():
                if i["op"] != "call" or i["callee"][0] != "f":
                    continue
                g = ship.funcs.get((sf.unit, i["callee"][1]))
                if g is None or g.decl:
                    continue
                for k, o in enumerate(i["ops"]):
                    a = am0.of(o) if o[0] in ("i", "a") else None
                    if a is not None and a.root == ("arg", h) and len(a.segs) == 2 and a.segs[0].off == b.ctx_off and a.segs[1].off == 0 \
                            and writes_sink(g, (k, None)):
                        lf_, spec = g, (k, None)
        check_lanes(ship, rep, cn, lf_, b.block, False, esz, lane_mode=True,
                    field_src=spec + (coff, csz), field_sink=spec + (eoff, esz))
        for o in rep.obs[before:]:
            o["rule"] = "C06.R3"
    # ---- R3 parallel siblings
    tables = {}
    for (st, unit, g, fs) in vtable_instances(prog):
        if fs is None or len(fs) > 3:
            continue
        tables.setdefault(st, []).append((g, fs))
    for st, lst in sorted(tables.items()):
        for slot in range(len(lst[0][1])):
            fns = [fs[slot] for (g, fs) in lst if fs[slot] is not None]
            reads = []
            for fn in fns:
                s = an.summaries[fn.key]
                kidx = len(fn.params) - 1
                names = set()
                for k, (loc, w) in s.reads.items():
                    if loc.addr.root == ("arg", kidx) and len(loc.addr.segs) == 1 and loc.addr.segs[0].ty:
                        seg = loc.addr.segs[0]
                        o = seg.off if seg.off is not None else (seg.rng[0] if seg.rng else None)
                        p = prog.describe(seg.ty, o) if o is not None else []
                        if p:
                            names.add(p[0])
                reads.append((fn, names))
            live = [(fn, n) for fn, n in reads if n]
            for fn, n in live:
                inst = "%s:slot%d" % (construct(fn), slot)
                if all(n == n2 for _, n2 in live):
                    rep.ok("C06.R3", inst, fsite(fn), "reads key-schedule fields %s like its siblings" % sorted(n), cfg=cn)
                else:
                    rep.violation("C06.R3", inst, fsite(fn), "reads key-schedule fields %s, siblings read %s" % (sorted(n), [sorted(x) for _, x in live]), cfg=cn)
    # ---- R4: scalar and vector copies of one permutation helper realise the same bit routing
    from .routing_rules import helpers, table_str
    H = helpers(prog)
    byname = {}
    for fk, h in H.items():
        byname.setdefault(fk[1], []).append(h)
    for nm, lst in sorted(byname.items()):
        if len(lst) < 2:
            continue
        pure = [h for h in lst if h["table"] is not None]
        if not pure:
            continue        # not a permutation helper at all (e.g. MixColumns combines cells)
        from collections import Counter
        ref = Counter(h["table"] for h in pure).most_common(1)[0][0] if pure else None
        for h in sorted(lst, key=lambda x: x["f"].key):
            inst = construct(h["f"])
            if h["table"] is None:
                rep.violation("C06.R4", inst, fsite(h["f"]), "this copy of %s is not a pure bit permutation (its siblings are): the back ends using it compute something else" % nm, cfg=cn)
            elif h["table"] == ref:
                rep.ok("C06.R4", inst, fsite(h["f"]), "same routing %s as the %d other copies (%s)" % (table_str(h), len(lst) - 1, "vector" if h["vector"] else "scalar"), cfg=cn)
            else:
                rep.violation("C06.R4", inst, fsite(h["f"]), "this %s copy of %s routes %s but its siblings route %s: back ends disagree" %
                              ("vector" if h["vector"] else "scalar", nm, table_str(h), table_str([x for x in pure if x["table"] == ref][0])), cfg=cn)
    # the advertised parallel_size of each parallel back end equals what its slot target processes
    from ..report import Report
    from . import c13
    tmp = Report("C13", "sub")
    c13.run_config(ctx, tmp, cfg, objects=False)
    for o in tmp.obs:
        if o["rule"] == "C13.R6":
            rep.add("C06.R3", o["construct"] + ":stride", o["status"], o["site"], o["detail"], cfg=cn)
    return len(backends), nsib, nlane


from . import affine_rules


def run(ctx, rep):
    rep.assume("not decided: value equality of the independently written vector round functions",
               "sibling comparison is on canonical summaries (field names, guard predicates, return constants), never on source text")
    for cfg in ctx.configs():
        nb, nsib, nlane = run_config(ctx, rep, cfg)
        naff = affine_rules.check_siblings(ctx, rep, cfg)
        if cfg is None:
            rep.floor("C06.R5", "block functions whose linear layer was compared with the scalar one", naff, 5)
            rep.analysed["affine_not_analysed"] = affine_rules.skipped(ctx, cfg)
            rep.floor("C06.R1", "CTR back ends", nb, 7)
            rep.floor("C06.R1", "vector slot functions compared with their generic sibling", nsib, 16)
            rep.floor("C06.R3", "CTR batch encryptors analysed lane-wise", nlane, 3)
        else:
            ctx.release(cfg)
