"""C03 — decryption inverts encryption through every entry point (structural necessary conditions)."""
from ..build import config_name
from ..ir import CASTS, indirect_targets
from ..mem import addr_str
from ..summary import akey
from ..contract import block_size, family
from .common import public_functions, construct, fsite, vtable_instances, handle_type, direct_calls
from .c07 import schedule_direction, PE, reached_walkers
from .c11 import loops_bounded_by_rounds
from ..initflow import lf_add, lf_const, lf_str
from .routing_rules import helpers, table_str, compose_canon, identity_canon

TITLE = ("Structural and linear-algebraic necessary conditions of 'decrypt inverts encrypt' (S-box values are not "
         "decided): (R1) every *_encrypt entry point and vtable slot 0 reaches only forward schedule walkers, every "
         "*_decrypt / slot 1 only backward ones; (R2) each walk starts at the right end and visits `rounds` entries of the "
         "same object; (R3) every permutation helper pair X / X_inverse composes to the identity routing (bit-granular "
         "copy propagation); (R4) the Mantis mode switch writes exactly k0, k0prime, k1; (R5) every site that XORs the "
         "reflection constant into k1 applies the same eight bytes; (R6) for every SKINNY encrypt/decrypt pair (scalar and "
         "vector) in every configuration, GF(2) affine interpretation of one round: decrypt's linear layer composed with "
         "encrypt's is the identity on all state bits including key and round-constant terms. (R7) for every Mantis block function (scalar, tweaked, parallel vector, CTR batch) one backward round composed with one forward round restores the tweak and feeds exactly the forward S-box output into the S-box for every state bit. (R8) every non-linear helper that R6/R7 cut out and that works on two or more "
         "ways at once (the interleaved two-/four-way vector S-boxes, forward and inverse) computes each way from that way only (may-dependency propagation): a step of one row that reads another row is reported, the S-box values themselves are not decided.")


def walk_start(prog, an, f):
    """[(header, direction, start_ok, detail)] for schedule cursor loops."""
    s = an.summaries[f.key]
    am = s.fa.am
    P = PE(f)
    out = []
    for header, body in f.loops().items():
        from .c07 import index_walk
        iw = index_walk(prog, am, f, header, body)
        if iw is not None:
            out.append((header, iw[0], iw[1], iw[2]))
            continue
        for i in f.bbmap[header]["insts"]:
            if i["op"] != "phi" or not i["type"].endswith("*"):
                continue
            for v, pb in zip(i["ops"], i["inblocks"]):
                if pb in body:
                    continue
                a = am.of(v)
                if a is None or not a.segs[-1].ty:
                    continue
                seg = a.segs[-1]
                o = seg.off if seg.off is not None else (seg.rng[0] if seg.rng else None)
                if o is None or "schedule" not in prog.describe(seg.ty, o):
                    continue
                # offset of the schedule array inside the key type
                path0 = prog.describe(seg.ty, o)
                if seg.off is not None:
                    first = prog.describe(seg.ty, seg.off)
                    ok = first[-1:] == ["[0]"] or "[0]" in first
                    out.append((header, "forward", ok, "starts at %s" % ".".join(first)))
                else:
                    # &schedule[idx]: idx must be rounds - 1 of the same object
                    g = f.insts.get(v[1]) if v[0] == "i" else None
                    while g is not None and g["op"] in CASTS:
                        o2 = g["ops"][0]
                        g = f.insts.get(o2[1]) if o2[0] == "i" else None
                    ok, detail = False, "start index not recognised"
                    if g is not None and g["op"] == "getelementptr" and len(g["gep"]["vars"]) == 1:
                        idx = g["gep"]["vars"][0][0]
                        l = P.lf(idx)
                        if l is not None and l[0] == -1 and len(l[1]) == 1 and l[1][0][1] == 1 and l[1][0][0][0] == "i":
                            ld = f.insts.get(l[1][0][0][1])
                            if ld is not None and ld["op"] == "load":
                                ra = am.of(ld["ops"][0])
                                if ra is not None and ra.segs[-1].ty and ra.segs[-1].off is not None and \
                                        prog.describe(ra.segs[-1].ty, ra.segs[-1].off)[-1:] == ["rounds"] and ra.root == a.root:
                                    ok, detail = True, "starts at schedule[rounds - 1] of the same key schedule"
                                else:
                                    detail = "start index is not rounds - 1 of the same key schedule"
                        else:
                            detail = "start index is %s, not rounds - 1" % (lf_str(l) if l else "?")
                    out.append((header, "backward", ok, detail))
    return out


def k1_xor_maps(prog, an):
    """per Mantis function: the byte map of constants XORed in place into a k1 object (the alpha constant):
    {(unit, function): (b0..b7)} with None for untouched bytes.  Constants are only moved, never combined."""
    out = {}
    k1type = None
    for tname, t in prog.ditypes.items():
        for mm in t.get("members", []):
            if mm["name"] == "k1" and tname.startswith("Mantis"):
                k1type = mm["type"]
    for f in prog.defined():
        if family(f.name) != "mantis":
            continue
        am = an.summaries[f.key].fa.am
        k1loc = set()
        for i in f.all_insts():
            if i["op"] == "call" and (i.get("intrinsic") or "") == "llvm.memcpy":
                d, sr = am.of(i["ops"][0]), am.of(i["ops"][1])
                if d is not None and d.root[0] == "alloca" and sr is not None and sr.segs[-1].ty and sr.segs[-1].off is not None and \
                        prog.describe(sr.segs[-1].ty, sr.segs[-1].off)[:1] == ["k1"]:
                    k1loc.add(d.root[1])
        m = {}
        site = None
        for i in f.all_insts():
            if i["op"] != "store":
                continue
            a = am.of(i["ops"][1])
            if a is None:
                continue
            base = None
            if a.root[0] == "alloca" and a.root[1] in k1loc and len(a.segs) == 1 and a.segs[0].off is not None:
                base = a.segs[0].off
            elif a.segs[-1].ty and a.segs[-1].off is not None and a.segs[-1].ty in prog.ditypes:
                p = prog.describe(a.segs[-1].ty, a.segs[-1].off)
                if p[:1] == ["k1"]:
                    t = [mm for mm in prog.ditypes[a.segs[-1].ty]["members"] if mm["name"] == "k1"][0]
                    base = a.segs[-1].off - t["off"]
                elif a.root[0] == "arg" and len(a.segs) == 1 and a.segs[0].ty == k1type and a.segs[0].off < 8:
                    base = a.segs[0].off          # helper working on a cells object handed in by pointer
            if base is None:
                continue
            v = i["ops"][0]
            while v[0] == "i" and f.insts[v[1]]["op"] in ("trunc", "zext", "sext"):
                v = f.insts[v[1]]["ops"][0]
            if v[0] != "i" or f.insts[v[1]]["op"] != "xor":
                continue
            x = f.insts[v[1]]
            cs = [o for o in x["ops"] if o[0] == "c"]
            ls = [o for o in x["ops"] if o[0] == "i"]
            if len(cs) != 1 or len(ls) != 1:
                continue
            ld = f.insts[ls[0][1]]
            while ld["op"] in ("trunc", "zext", "sext"):
                o = ld["ops"][0]
                if o[0] != "i":
                    break
                ld = f.insts[o[1]]
            if ld["op"] != "load" or am.of(ld["ops"][0]) is None or akey(am.of(ld["ops"][0])) != akey(a):
                continue
            val = int(cs[0][1])
            for j in range(i["size"]):
                m[base + j] = (val >> (8 * j)) & 0xFF
            site = site or i
        if m:
            out[f.key] = (tuple(m.get(j) for j in range(8)), site)
    return out


def run_config(ctx, rep, cfg):
    cn = config_name(cfg)
    prog = ctx.prog(cfg)
    an = ctx.an(cfg)
    pubs = public_functions(ctx, prog)
    # ---- R5: every site that applies the reflection constant to k1 applies the same bytes
    maps = k1_xor_maps(prog, an)
    by_unit = {}
    for fk, (m, site) in maps.items():
        by_unit.setdefault(fk[0], []).append((fk, m, site))
    for unit, lst in sorted(by_unit.items()):
        from collections import Counter
        cnt = Counter(m for (fk, m, site) in lst)
        ref = cnt.most_common(1)[0][0]
        for (fk, m, site) in sorted(lst):
            f = prog.funcs[fk]
            if m == ref and None not in m:
                rep.ok("C03.R5", construct(f), f.loc(site), "k1 ^= %s (all 8 bytes), as at the %d other sites of this unit" % ("".join("%02x" % b for b in m), len(lst) - 1), cfg=cn)
            else:
                rep.violation("C03.R5", construct(f), f.loc(site), "the reflection constant applied to k1 here is %s but %s elsewhere in this unit: key setup / mode switch and the cipher core disagree, so a decrypt-keyed or switched schedule is not the inverse" %
                              (["%02x" % b if b is not None else "--" for b in m], "".join("%02x" % b if b is not None else "--" for b in ref)), cfg=cn)
    # ---- R3: inverse helper pairs compose to the identity routing, in every copy
    H = helpers(prog)
    npairs = 0
    for fk, h in sorted(H.items()):
        inv = (fk[0], fk[1] + "_inverse")
        if inv not in H:
            continue
        npairs += 1
        f = h["f"]
        hi = H[inv]
        inst = "%s+inverse" % construct(f)
        if h["table"] is None or hi["table"] is None:
            bad = h if h["table"] is None else hi
            rep.violation("C03.R3", inst, fsite(bad["f"]), "%s is not a pure bit permutation any more (two data bits are combined or bits are dropped): it cannot be the inverse of its partner" % bad["f"].name, cfg=cn)
        elif identity_canon(compose_canon(hi, h), h["rowbits"]) and identity_canon(compose_canon(h, hi), h["rowbits"]):
            rep.ok("C03.R3", inst, fsite(f), "%s o %s = identity on all %d bits (routing %s)" % (hi["f"].name, f.name, len(h["table"]), table_str(h)), cfg=cn)
        else:
            rep.violation("C03.R3", inst, fsite(hi["f"]), "%s does not undo %s: routing %s composed with %s is not the identity, so the reflected rounds / mode switch do not invert" %
                          (hi["f"].name, f.name, table_str(h), table_str(hi)), cfg=cn)
    nwalk = 0
    # ---- R1: classification of every block-processing function
    want = {}
    for name, f, c, decl in pubs:
        if c["kind"] != "process" or family(name) == "mantis":
            continue
        if name.endswith("_encrypt") and "_ctr_" not in name:
            want[f.key] = ("forward", name)
        elif name.endswith("_decrypt"):
            want[f.key] = ("backward", name)
    for (st, unit, g, fs) in vtable_instances(prog):
        if fs is None or len(fs) != 2:
            continue
        for idx, fn in enumerate(fs):
            if fn is not None:
                want[fn.key] = ("forward" if idx == 0 else "backward", "%s slot %d" % (g["name"], idx))
    # CTR keystream generators must be forward walkers as well (CTR only ever encrypts)
    for f in prog.defined():
        s = an.summaries[f.key]
    for fk, (dirw, why) in sorted(want.items()):
        f = prog.funcs[fk]
        s = an.summaries[fk]
        # walkers reached (function-pointer arguments resolved at this entry point's own call sites)
        callees = reached_walkers(prog, an, f)
        if not callees:
            if not any(cs.may for cs in s.cls.values()):
                continue    # stub
            rep.inconclusive("C03.R1", construct(f), fsite(f), "%s: no schedule walk found in it or its callees" % why, cfg=cn)
            continue
        for (g, d) in callees:
            nwalk += 1
            inst = "%s->%s" % (construct(f), g.name) if g is not f else construct(f)
            if d == dirw:
                rep.ok("C03.R1", inst, fsite(g), "%s: %s walks the key schedule %s" % (why, g.name, d), cfg=cn)
            else:
                rep.violation("C03.R1", inst, fsite(g), "%s must be a %s walker but %s walks the key schedule %s: this path %s instead of %s" %
                              (why, dirw, g.name, d, "encrypts" if d == "forward" else "decrypts", "decrypting" if d == "forward" else "encrypting"), cfg=cn)
    # ---- R2: start and count of every schedule walk
    nstart = 0
    for f in sorted(prog.defined(), key=lambda x: x.key):
        ws = walk_start(prog, an, f)
        if not ws:
            continue
        bounds = {h: (ok, d) for (h, ok, d) in loops_bounded_by_rounds(prog, f, an.summaries[f.key].fa.am)}
        for (header, direction, ok, detail) in ws:
            nstart += 1
            inst = "%s:loop@%s" % (construct(f), header)
            bok, bdet = bounds.get(header, (False, "trip count not tied to rounds"))
            if ok and bok:
                rep.ok("C03.R2", inst, f.loc(f.term(header)), "%s walk %s, %s" % (direction, detail, bdet), cfg=cn)
            else:
                rep.violation("C03.R2", inst, f.loc(f.term(header)), "%s schedule walk is not aligned with what set_key wrote: %s; %s" % (direction, detail, bdet), cfg=cn)
    # ---- R4: Mantis mode switch frame
    nsw = 0
    for name, f, c, decl in pubs:
        if c["kind"] != "mode":
            continue
        nsw += 1
        s = an.summaries[f.key]
        cons = construct(f)
        if "ecb" in c["params"]:
            # wrapper: must call the core switch with the context pointer itself
            okw = False
            for call in direct_calls(f):
                g = prog.resolve(f.unit, call["callee"][1])
                if g is None:
                    continue
                a = s.fa.am.of(call["ops"][0]) if call["ops"] else None
                ht = handle_type(f)
                ctxm = [m for m in prog.ditypes.get(ht, {}).get("members", []) if m["name"] == "ctx"]
                if a is not None and ctxm and a.root == ("arg", 0) and len(a.segs) == 2 and a.segs[0].off == ctxm[0]["off"] and a.segs[1].off == 0:
                    okw = True
                    rep.ok("C03.R4", cons, f.loc(call), "reaches %s with ecb->ctx itself" % g.name, cfg=cn)
                else:
                    rep.violation("C03.R4", cons, f.loc(call), "mode switch is applied to %s, not to the object's own key schedule" % addr_str(a, prog), cfg=cn)
            if not okw and not any(True for _ in direct_calls(f)):
                rep.violation("C03.R4", cons, fsite(f), "parallel mode switch never reaches the key schedule's switch", cfg=cn)
            continue
        ht = handle_type(f)
        allowed = {"k0", "k0prime", "k1"}
        written = set()
        for cl, cs in s.cls.items():
            for k, (loc, w) in cs.may.items():
                if loc.addr.root == ("arg", 0) and len(loc.addr.segs) == 1:
                    seg = loc.addr.segs[0]
                    o = seg.off if seg.off is not None else (seg.rng[0] if seg.rng else None)
                    p = prog.describe(ht, o) if o is not None else ["?"]
                    written.add(p[0] if p else "?")
                else:
                    written.add(addr_str(loc.addr, prog))
        extra = written - allowed
        if extra:
            rep.violation("C03.R4", cons, fsite(f), "mode switch also writes %s: the tweak / round count are not preserved, so the switched schedule is not the inverse" % sorted(extra), cfg=cn)
        elif written != allowed:
            rep.violation("C03.R4", cons, fsite(f), "mode switch writes only %s (k0, k0prime and k1 must all change)" % sorted(written), cfg=cn)
        else:
            rep.ok("C03.R4", cons, fsite(f), "writes exactly k0, k0prime, k1; tweak and rounds are outside MayWrite", cfg=cn)
    return nwalk, nstart, nsw, len(maps), npairs


from . import affine_rules


def run(ctx, rep):
    rep.assume("not decided: that the inverse round functions, inverse S-boxes and the alpha/k0' algebra are the inverses of the forward ones (value facts)",
               "direction trait: cursor over `schedule` starting at a constant element and stepping up = forward; starting at an index and stepping down = backward")
    for cfg in ctx.configs():
        nwalk, nstart, nsw, nmaps, npairs = run_config(ctx, rep, cfg)
        ninv = affine_rules.check_inverse(ctx, rep, cfg)
        nman = affine_rules.check_mantis(ctx, rep, cfg)
        nway = affine_rules.check_ways(ctx, rep, cfg)
        rep.analysed.setdefault("multiway_cut_helpers", {})[config_name(cfg)] = nway
        if cfg is None:
            rep.floor("C03.R7", "Mantis block functions whose forward and backward rounds were composed", nman, 2)
        if cfg is None:
            rep.floor("C03.R6", "encrypt/decrypt pairs whose linear layers were composed", ninv, 3)
            rep.analysed["affine_not_analysed"] = affine_rules.skipped(ctx, cfg)
            rep.floor("C03.R1", "direction-constrained walkers reached", nwalk, 12)
            rep.floor("C03.R2", "schedule walks", nstart, 8)
            rep.floor("C03.R4", "mode-switch functions", nsw, 2)
            rep.floor("C03.R5", "sites applying the reflection constant to k1", nmaps, 1)
            rep.floor("C03.R3", "inverse helper pairs", npairs, 4)
            # fixture: a way that reads another way must be flagged, the clean twin must not
            fp = ctx.fixture("c03_bad_ways.c")
            sb = affine_rules.way_summary(fp, fp.resolve(None, "fx_sbox_two"))
            sg = affine_rules.way_summary(fp, fp.resolve(None, "fx_sbox_two_ok"))
            rep.fixture("C03.R8", "c03_bad_ways.c", bool(sb) and sb.get(1) == frozenset({0, 1}) and sg == {0: frozenset({0}), 1: frozenset({1})},
                        "mixing helper: %s; clean twin: %s" % (sb, sg))
        else:
            ctx.release(cfg)
