"""E0 build model: compilation database from the repo's Makefile, IR + facts per unit.

Nothing of the library is executed; units are compiled to LLVM IR with clang using
the per-unit flags the repository's own Makefile would use (read from `make -n -B`).
"""
import atexit
import hashlib
import json
import os, time
import re
import shlex
import shutil
import subprocess
import sys
import tempfile
from concurrent.futures import ThreadPoolExecutor

REPO = os.environ.get("VERIF_REPO", "/repo")
VERIF = os.path.dirname(os.path.dirname(os.path.abspath(__file__)))
IRFACTS = os.path.join(VERIF, "bin", "irfacts")
IRSPEC = os.path.join(VERIF, "bin", "irspec")
GUARD = "RWEATHER_SKINNY_C_VERIF"
SWITCHES = ["SKINNY_64BIT", "SKINNY_UNALIGNED", "SKINNY_LITTLE_ENDIAN",
            "SKINNY_VEC128_MATH", "SKINNY_VEC256_MATH"]
CLANG = shutil.which("clang-14") or shutil.which("clang") or "clang"
OPT = shutil.which("opt-14") or shutil.which("opt") or "opt"


class AnalysisBroken(Exception):
    """Raised when the analysis itself cannot run (exit code 2), never a verdict."""


def compdb(repo=REPO):
    """Parse `make -n -B -C src` into [{unit, file, flags, optlevel, cc}]."""
    src = os.path.join(repo, "src")
    p = subprocess.run(["make", "-n", "-B", "-C", src], capture_output=True, text=True)
    if p.returncode != 0:
        raise AnalysisBroken("make -n -B failed: " + p.stderr[-400:])
    units = []
    for line in p.stdout.splitlines():
        try:
            toks = shlex.split(line)
        except ValueError:
            continue
        if "-c" not in toks or not any(t.endswith(".c") for t in toks):
            continue
        cfile = [t for t in toks if t.endswith(".c")][-1]
        flags, opt = [], "-O0"
        skip = False
        for t in toks[1:]:
            if skip:
                skip = False
                continue
            if t == "-o":
                skip = True
                continue
            if t == "-c" or t.endswith(".c"):
                continue
            if re.fullmatch(r"-O[0-3sgz]?|-Ofast", t):
                opt = t
                continue
            if t.startswith("-W"):
                continue
            if t.startswith("-I"):
                inc = t[2:]
                flags.append("-I" + os.path.normpath(os.path.join(src, inc)))
                continue
            flags.append(t)
        units.append({"unit": os.path.splitext(os.path.basename(cfile))[0],
                      "file": os.path.join(src, cfile), "flags": flags,
                      "optlevel": opt, "cc": toks[0], "raw": line})
    return units


def config_name(cfg):
    if not cfg:
        return "shipped"
    return "".join(str(cfg[s]) for s in SWITCHES)


def all_configs():
    out = []
    for m in range(32):
        out.append({s: (m >> (4 - i)) & 1 for i, s in enumerate(SWITCHES)})
    return out


def covering_configs():
    """greedy pairwise (strength-2) covering array over the five binary switches."""
    allc = all_configs()
    need = set()
    n = len(SWITCHES)
    for a in range(n):
        for b in range(a + 1, n):
            for va in (0, 1):
                for vb in (0, 1):
                    need.add((a, va, b, vb))
    chosen = []
    # the all-zero configuration first: it is the one furthest from the shipped build
    order = sorted(allc, key=lambda c: sum(c.values()))
    while need:
        best, gain = None, -1
        for c in order:
            vals = [c[s] for s in SWITCHES]
            g = sum(1 for (a, va, b, vb) in need if vals[a] == va and vals[b] == vb)
            if g > gain:
                best, gain = c, g
        chosen.append(best)
        vals = [best[s] for s in SWITCHES]
        need = {(a, va, b, vb) for (a, va, b, vb) in need if not (vals[a] == va and vals[b] == vb)}
    return chosen


def hook_present(repo=REPO):
    try:
        return GUARD in open(os.path.join(repo, "src", "skinny-internal.h")).read()
    except OSError:
        return False


def config_flags(cfg):
    if not cfg:
        return []
    fl = ["-D" + GUARD]
    for s in SWITCHES:
        if s in cfg:
            fl.append("-DSKINNY_VERIF_%s=%d" % (s.replace("SKINNY_", ""), cfg[s]))
    return fl


def _src_digest(repo):
    h = hashlib.sha256()
    for d in ("src", "include"):
        base = os.path.join(repo, d)
        for fn in sorted(os.listdir(base)):
            if fn.endswith((".c", ".h")) or fn == "Makefile":
                h.update(fn.encode())
                with open(os.path.join(base, fn), "rb") as f:
                    h.update(f.read())
    with open(os.path.join(repo, "options.mak"), "rb") as f:
        h.update(f.read())
    with open(IRFACTS, "rb") as f:
        h.update(hashlib.sha256(f.read()).digest())
    return h.hexdigest()[:20]


def _build_tools():
    """fresh restore: bin/ is not committed; build it once (MANIFEST.setup_cmd), serialised across parallel checks."""
    import fcntl
    verif = os.path.dirname(os.path.dirname(os.path.abspath(__file__)))
    try:
        with open(os.path.join(verif, ".build.lock"), "w") as lk:
            fcntl.flock(lk, fcntl.LOCK_EX)
            if not os.path.exists(IRFACTS) or not os.path.exists(IRSPEC):
                subprocess.run(["make", "-s", "-C", verif], capture_output=True, text=True)
    except OSError:
        pass


class Workspace:
    """Scratch directory (outside /repo and /verif) holding IR and facts for one run."""

    def __init__(self, repo=REPO):
        self.repo = repo
        if not os.path.exists(IRFACTS) or not os.path.exists(IRSPEC):
            _build_tools()
        if not os.path.exists(IRFACTS) or not os.path.exists(IRSPEC):
            raise AnalysisBroken("bin/irfacts or bin/irspec missing: run MANIFEST.setup_cmd (make -C /verif)")
        self.spec_log = []
        self.units = compdb(repo)
        if not self.units:
            raise AnalysisBroken("no compilation units found in src/Makefile")
        self.digest = _src_digest(repo)
        self.tmp = tempfile.mkdtemp(prefix="skv-")
        atexit.register(self.close)
        self._cache = {}

    def close(self):
        shutil.rmtree(self.tmp, ignore_errors=True)

    # -- IR production ---------------------------------------------------
    def _one(self, u, cfg, shape, outdir, extra=()):
        base = os.path.join(outdir, u["unit"])
        ll = base + ".ll"
        flags = list(u["flags"]) + config_flags(cfg) + list(extra)
        if shape == "raw":
            cmd = [CLANG] + flags + ["-O0", "-g", "-fno-discard-value-names", "-S", "-emit-llvm", u["file"], "-o", ll, "-w"]
            p = subprocess.run(cmd, capture_output=True, text=True)
            if p.returncode != 0:
                return (u["unit"], None, p.stderr)
        elif shape == "O0c":
            # call-shaped: clang -O0 + mem2reg WITHOUT helper specialisation (for rules that reason per call)
            cmd = [CLANG] + flags + ["-O0", "-Xclang", "-disable-O0-optnone", "-g",
                                     "-fno-discard-value-names", "-S", "-emit-llvm",
                                     u["file"], "-o", base + ".raw.ll", "-w"]
            p = subprocess.run(cmd, capture_output=True, text=True)
            if p.returncode != 0:
                return (u["unit"], None, p.stderr)
            p = subprocess.run([OPT, "-passes=mem2reg", "-S", base + ".raw.ll", "-o", ll],
                               capture_output=True, text=True)
            if p.returncode != 0:
                return (u["unit"], None, p.stderr)
            os.unlink(base + ".raw.ll")
        elif shape == "O0":
            cmd = [CLANG] + flags + ["-O0", "-Xclang", "-disable-O0-optnone", "-g",
                                     "-fno-discard-value-names", "-S", "-emit-llvm",
                                     u["file"], "-o", base + ".raw.ll", "-w"]
            p = subprocess.run(cmd, capture_output=True, text=True)
            if p.returncode != 0:
                return (u["unit"], None, p.stderr)
            # helper specialisation (tools/irspec.cc): pointer-returning accessors, drivers with indirect calls and
            # helpers behind trivial wrappers are inlined; a tree without such helpers passes through unchanged
            # inlining decisions to a fixpoint first (a helper may only qualify after another one was inlined into
            # it), with loop unrolling switched off so that helpers keep their shape while decisions are made;
            # then one final run that also unrolls
            src_ll = base + ".raw.ll"
            for rnd in range(4):
                final = rnd == 3
                p = subprocess.run([IRSPEC, src_ll, base + ".spec.ll"] + ([] if final else ["-nounroll"]), capture_output=True, text=True)
                if p.returncode != 0:
                    return (u["unit"], None, "irspec: " + p.stderr)
                dec = [l for l in p.stderr.splitlines() if l.startswith(("inline ", "thread "))]
                self.spec_log.extend("%s: %s" % (u["unit"], l) for l in p.stderr.splitlines() if l.startswith("inline "))
                if final:
                    break
                if not dec or rnd == 2:
                    # fixpoint (or round limit): the final run on the result
                    os.replace(base + ".spec.ll", base + ".spec0.ll")
                    src_ll = base + ".spec0.ll"
                    p = subprocess.run([IRSPEC, src_ll, base + ".spec.ll"], capture_output=True, text=True)
                    if p.returncode != 0:
                        return (u["unit"], None, "irspec: " + p.stderr)
                    break
                os.replace(base + ".spec.ll", base + ".spec0.ll")
                src_ll = base + ".spec0.ll"
            if os.path.exists(base + ".spec0.ll"):
                os.unlink(base + ".spec0.ll")
            p = subprocess.run([OPT, "-passes=mem2reg", "-S", base + ".spec.ll", "-o", ll],
                               capture_output=True, text=True)
            if p.returncode != 0:
                return (u["unit"], None, p.stderr)
            os.unlink(base + ".raw.ll")
            os.unlink(base + ".spec.ll")
        else:
            # "shipinl": the shipped optimisation level with the inliner allowed to flatten every static helper -
            # same semantics, one function per entry point (the lane analysis is intraprocedural)
            opt = [u["optlevel"]] if shape in ("ship", "shipinl") else [shape]
            if shape == "shipinl":
                opt += ["-mllvm", "-inline-threshold=100000", "-mllvm", "-inlinehint-threshold=100000"]
            cmd = [CLANG] + flags + opt + ["-g", "-fno-discard-value-names", "-S", "-emit-llvm",
                                           u["file"], "-o", ll, "-w"]
            p = subprocess.run(cmd, capture_output=True, text=True)
            if p.returncode != 0:
                return (u["unit"], None, p.stderr)
        js = base + ".json"
        with open(js, "w") as f:
            p = subprocess.run([IRFACTS, ll], stdout=f, stderr=subprocess.PIPE, text=True)
        if p.returncode != 0:
            return (u["unit"], None, p.stderr)
        os.unlink(ll)
        return (u["unit"], js, "")

    def facts(self, cfg=None, shape="O0", extra=()):
        """dict unit -> facts (parsed JSON) for every unit of the Makefile."""
        key = (config_name(cfg), shape, tuple(extra))
        if key in self._cache:
            return self._cache[key]
        if cfg and not hook_present(self.repo):
            raise AnalysisBroken("configuration override requested but the %s hook is "
                                 "missing from src/skinny-internal.h" % GUARD)
        outdir = os.path.join(self.tmp, "%s-%s-%s" % (key[0], shape, hashlib.md5(repr(extra).encode()).hexdigest()[:6]))
        os.makedirs(outdir, exist_ok=True)
        with ThreadPoolExecutor(max_workers=16) as ex:
            def one(u):
                # a tool that cannot be started right now (binary being replaced, fork failure under load) is
                # retried once; a second failure is reported as analysis-broken with the unit's name
                for attempt in (0, 1):
                    try:
                        return self._one(u, cfg, shape, outdir, extra)
                    except OSError as e:
                        err = "%s: %s" % (type(e).__name__, e)
                        time.sleep(2)
                return (u["unit"], None, err)
            res = list(ex.map(one, self.units))
        mods = {}
        for unit, js, err in res:
            if js is None:
                raise AnalysisBroken("unit %s does not compile (%s/%s): %s" % (unit, key[0], shape, err[-600:]))
            with open(js) as f:
                mods[unit] = json.load(f)
            os.unlink(js)
        shutil.rmtree(outdir, ignore_errors=True)
        self._cache[key] = mods
        return mods

    def drop(self, cfg=None, shape="O0", extra=()):
        self._cache.pop((config_name(cfg), shape, tuple(extra)), None)


if __name__ == "__main__":
    ws = Workspace()
    import time
    t = time.time()
    m = ws.facts()
    print(len(m), "units", sum(len(x["functions"]) for x in m.values()), "functions", time.time() - t)
    t = time.time()
    m = ws.facts(shape="ship")
    print(len(m), "units ship", time.time() - t)
