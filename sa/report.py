"""Obligation bookkeeping, known-findings matching, evidence files, exit codes."""
import hashlib
import json
import os
import re
import sys
import time

VERIF = os.path.dirname(os.path.dirname(os.path.abspath(__file__)))
KNOWN = os.path.join(VERIF, "KNOWN_FINDINGS.txt")
EVID = os.environ.get("VERIF_EVIDENCE_DIR") or os.path.join(VERIF, "evidence")

PASS, VIOL, INCONC = "PASS", "VIOLATION", "INCONCLUSIVE"


def load_known():
    known, fixed = [], []
    if not os.path.exists(KNOWN):
        return known, fixed
    for line in open(KNOWN):
        line = line.strip()
        if not line or line.startswith("#"):
            continue
        m = re.match(r"^known:\s+property=(\S+)\s+rule=(\S+)\s+construct=(\S+)\s*(.*)$", line)
        if m:
            known.append({"property": m.group(1), "rule": m.group(2), "construct": m.group(3), "what": m.group(4)})
            continue
        m = re.match(r"^fixed:\s+property=(\S+)\s+(\S+)\s*(.*)$", line)
        if m:
            fixed.append({"property": m.group(1), "commit": m.group(2), "what": m.group(3)})
    return known, fixed


class Report:
    def __init__(self, pid, tier, title=""):
        self.pid = pid
        self.tier = tier
        self.title = title
        self.obs = []
        self.floors = []
        self.fixtures = []
        self.notes = []
        self.assumptions = []
        self.analysed = {}
        self.t0 = time.time()
        self.extra = {}
        self.seeded = None

    # ---- recording
    def add(self, rule, construct, status, site="", detail="", witness=None, cfg="shipped"):
        self.obs.append({"rule": rule, "construct": construct, "status": status, "site": site,
                         "detail": detail, "witness": witness, "config": cfg})

    def ok(self, rule, construct, site="", detail="", cfg="shipped"):
        self.add(rule, construct, PASS, site, detail, cfg=cfg)

    def violation(self, rule, construct, site, detail, witness=None, cfg="shipped"):
        self.add(rule, construct, VIOL, site, detail, witness, cfg=cfg)

    def inconclusive(self, rule, construct, site, detail, cfg="shipped"):
        self.add(rule, construct, INCONC, site, detail, cfg=cfg)

    def floor(self, rule, what, count, minimum):
        """Instance floor: fewer instances than were confirmed by hand = analysis broken."""
        self.floors.append({"rule": rule, "what": what, "count": count, "floor": minimum, "ok": count >= minimum})

    def fixture(self, rule, name, flagged, detail=""):
        """Positive fixture: the rule must flag it on every run."""
        self.fixtures.append({"rule": rule, "fixture": name, "flagged": bool(flagged), "detail": detail})

    def note(self, s):
        self.notes.append(s)

    def assume(self, *s):
        for x in s:
            if x not in self.assumptions:
                self.assumptions.append(x)

    # ---- finishing
    def finish(self):
        known, fixed = load_known()
        mine = [k for k in known if k["property"] == self.pid]
        lines = []
        viol_unlisted = []
        known_hit = []
        seen_v = set()
        for o in self.obs:
            if o["status"] != VIOL:
                continue
            key = (o["rule"], o["construct"])
            hit = None
            for k in mine:
                if k["rule"] == o["rule"] and k["construct"] == o["construct"]:
                    hit = k
                    break
            if hit:
                if key not in {(h["rule"], h["construct"]) for h in known_hit}:
                    known_hit.append(hit)
                o["known"] = True
            else:
                if key + (o["config"],) in seen_v:
                    continue
                seen_v.add(key + (o["config"],))
                viol_unlisted.append(o)
        broken = [f for f in self.floors if not f["ok"]]
        fx_broken = [f for f in self.fixtures if not f["flagged"]]
        inconc = [o for o in self.obs if o["status"] == INCONC]

        for k in known_hit:
            lines.append("KNOWN-FINDING: property=%s rule=%s construct=%s %s" % (self.pid, k["rule"], k["construct"], k["what"]))
        stale = [k for k in mine if k not in known_hit]
        for k in stale:
            lines.append("note: listed finding not observed any more (repaired?): rule=%s construct=%s" % (k["rule"], k["construct"]))

        os.makedirs(os.path.join(EVID, "replay"), exist_ok=True)
        for fn in os.listdir(os.path.join(EVID, "replay")):
            if fn.startswith(self.pid + "-"):
                os.unlink(os.path.join(EVID, "replay", fn))      # stale reports of earlier runs
        for o in viol_unlisted:
            h = hashlib.sha1(("%s|%s|%s|%s" % (self.pid, o["rule"], o["construct"], o["config"])).encode()).hexdigest()[:10]
            path = os.path.join(EVID, "replay", "%s-%s-%s.json" % (self.pid, o["rule"].split(".")[-1], h))
            with open(path, "w") as f:
                json.dump({"property": self.pid, "rule": o["rule"], "construct": o["construct"], "site": o["site"],
                           "detail": o["detail"], "witness": o["witness"], "config": o["config"], "tier": self.tier},
                          f, indent=1, default=str)
            lines.append("VIOLATION property=%s replay=%s" % (self.pid, path))
            lines.append("  rule=%s construct=%s at %s [%s]: %s" % (o["rule"], o["construct"], o["site"], o["config"], o["detail"]))
        for f in broken:
            lines.append("ANALYSIS-BROKEN property=%s rule=%s: %s = %d below the confirmed floor %d" %
                         (self.pid, f["rule"], f["what"], f["count"], f["floor"]))
        for f in fx_broken:
            lines.append("ANALYSIS-BROKEN property=%s rule=%s: positive fixture %s was not flagged" % (self.pid, f["rule"], f["fixture"]))
        for o in inconc:
            lines.append("INCONCLUSIVE property=%s rule=%s construct=%s at %s: %s" % (self.pid, o["rule"], o["construct"], o["site"], o["detail"]))

        n_ob = len(self.obs)
        n_pass = sum(1 for o in self.obs if o["status"] == PASS)
        per_rule = {}
        for o in self.obs:
            r = per_rule.setdefault(o["rule"], {"obligations": 0, "discharged": 0, "violations": 0, "inconclusive": 0, "known": 0})
            r["obligations"] += 1
            if o["status"] == PASS:
                r["discharged"] += 1
            elif o["status"] == VIOL:
                r["violations"] += 1
                if o.get("known"):
                    r["known"] += 1
            else:
                r["inconclusive"] += 1
        distinct = len({(o["rule"], o["construct"], o["config"]) for o in self.obs})
        samples = []
        seen_rules = set()
        for o in self.obs:
            if o["rule"] in seen_rules and len(samples) >= 12:
                continue
            if o["rule"] not in seen_rules or len(samples) < 12:
                seen_rules.add(o["rule"])
                samples.append({k: o[k] for k in ("rule", "construct", "status", "site", "detail", "config")})
        samples = samples[:40]
        cov = {
            "explanation": self.title,
            "obligations": n_ob,
            "discharged": n_pass,
            "evaluations": max(n_ob, 1),
            "distinct_nontrivial": distinct,
            "rule": "one obligation per (rule, construct, configuration); constructs are functions, call sites, "
                    "stores, globals or CFG paths of /repo's current source; an obligation is non-trivial because it "
                    "is only generated for a construct the rule applies to",
            "samples": samples or [{"note": "no obligations generated"}],
            "per_rule": per_rule,
            "instance_floors": self.floors,
            "positive_fixtures": self.fixtures,
            "analysed": self.analysed,
            "known_findings_reported": ["%s %s" % (k["rule"], k["construct"]) for k in known_hit],
            "notes": self.notes,
            "checker_cmd": "python3 -m sa.check %s --tier %s" % (self.pid, self.tier),
            "trusted_base": ["clang 14 front end", "bin/irspec: LLVM-14 always-inliner / mem2reg / instsimplify / jump threading / complete loop unrolling on the -O0 IR", "bin/irfacts (LLVM API dump)", "sa/contract.py tables"],
            "exhaustive": False,
        }
        cov.update(self.extra)
        if self.seeded is not None:
            cov["seeded_variants"] = self.seeded
        ev = {"property_id": self.pid, "tier": self.tier, "seed": int(os.environ.get("VERIF_SEED", "0") or 0),
              "level": "other", "coverage": cov, "assumptions": self.assumptions,
              "wall_s": round(time.time() - self.t0, 2), "violations": len(viol_unlisted)}
        os.makedirs(EVID, exist_ok=True)
        with open(os.path.join(EVID, "%s.json" % self.pid), "w") as f:
            json.dump(ev, f, indent=1, default=str)

        for l in lines:
            print(l)
        print("%s [%s]: %d obligations, %d discharged, %d known findings, %d new violations, %d inconclusive, "
              "%d floors (%d broken), %d fixtures (%d not flagged), %.1fs" %
              (self.pid, self.tier, n_ob, n_pass, len(known_hit), len(viol_unlisted), len(inconc),
               len(self.floors), len(broken), len(self.fixtures), len(fx_broken), time.time() - self.t0))
        if viol_unlisted:
            return 1
        if broken or fx_broken or inconc:
            return 2
        return 0
