"""Public API (the specification's signature side): every function declared in
include/*.h, read from clang's AST (not from text)."""
import json
import os
import subprocess
import tempfile

from .build import REPO, CLANG, AnalysisBroken


def public_api(repo=REPO):
    inc = os.path.join(repo, "include")
    hdrs = sorted(h for h in os.listdir(inc) if h.endswith(".h"))
    if not hdrs:
        raise AnalysisBroken("no public headers")
    with tempfile.NamedTemporaryFile("w", suffix=".c", delete=False) as f:
        for h in hdrs:
            f.write('#include "%s"\n' % h)
        tu = f.name
    try:
        p = subprocess.run([CLANG, "-std=c99", "-I" + inc, "-fsyntax-only", "-Xclang", "-ast-dump=json", tu],
                           capture_output=True, text=True)
        if p.returncode != 0:
            raise AnalysisBroken("public headers do not parse: " + p.stderr[-300:])
        ast = json.loads(p.stdout)
    finally:
        os.unlink(tu)
    out = {}
    cur_file = None
    for d in ast.get("inner", []):
        loc = d.get("loc", {})
        # clang omits "file" when unchanged from the previous decl
        fl = loc.get("file") or loc.get("includedFrom", {}).get("file") if False else loc.get("file")
        if "file" in loc:
            cur_file = loc["file"]
        elif "expansionLoc" in loc and "file" in loc["expansionLoc"]:
            cur_file = loc["expansionLoc"]["file"]
        if d.get("kind") != "FunctionDecl" or not cur_file or os.path.dirname(os.path.abspath(cur_file)) != os.path.abspath(inc):
            continue
        params = []
        for c in d.get("inner", []):
            if c.get("kind") == "ParmVarDecl":
                params.append({"name": c.get("name", ""), "type": c["type"]["qualType"]})
        out[d["name"]] = {"name": d["name"], "header": os.path.basename(cur_file), "line": loc.get("line"),
                          "ret": d["type"]["qualType"].split("(")[0].strip(), "params": params}
    return out


if __name__ == "__main__":
    a = public_api()
    print(len(a))
    for k, v in a.items():
        print(v["header"], v["ret"], k, [(p["name"], p["type"]) for p in v["params"]])
