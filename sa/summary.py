"""E3: effect / guard summaries with return-class partition (EGS).

Per function and per return class (z = returns 0/null, nz = returns non-zero,
void) a forward dataflow computes
  facts   predicates on immutable terms that hold on ALL paths          (must, ∩)
  must    location -> abstract value definitely stored last             (must, ∩)
  may     locations possibly written, tagged by the callee class        (may,  ∪)
and flat sets: reads, allocations, frees, callees, unchecked dereferences.
Calls are composed through the callee's summaries (direct, cross-unit, and through
the constant vtables); status values are followed through the two idioms the
repository uses (test-and-bail, tail return).
"""
from collections import namedtuple, defaultdict

from .ir import CASTS, INTCASTS, strip_struct, cname_of
from .mem import AddrMap, Addr, Seg, Loc, may_overlap, contains, rebase, addr_str, ALLOCATORS
from .build import AnalysisBroken

NEG = {"eq": "ne", "ne": "eq", "ult": "uge", "uge": "ult", "ule": "ugt", "ugt": "ule",
       "slt": "sge", "sge": "slt", "sle": "sgt", "sgt": "sle"}
SWAP = {"eq": "eq", "ne": "ne", "ult": "ugt", "ugt": "ult", "ule": "uge", "uge": "ule",
        "slt": "sgt", "sgt": "slt", "sle": "sge", "sge": "sle"}

MEMFNS = {"llvm.memcpy": ("w", "r", "n"), "llvm.memmove": ("w", "r", "n"), "llvm.memset": ("w", "v", "n"),
          "memcpy": ("w", "r", "n"), "memmove": ("w", "r", "n"), "memset": ("w", "v", "n")}
PURE_INTRINSICS = ("llvm.fshl", "llvm.fshr", "llvm.bswap", "llvm.umin", "llvm.umax", "llvm.smin",
                   "llvm.smax", "llvm.lifetime", "llvm.dbg", "llvm.ctpop", "llvm.abs",
                   "llvm.experimental.noalias", "llvm.assume", "llvm.vector.reduce")


def akey(addr):
    if addr is None:
        return None
    return (addr.root[:2], tuple(s.off if s.off is not None else (("var", s.rng, s.el) if s.el else ("var", s.rng)) for s in addr.segs))


def is_const_addr(addr):
    return addr is not None and all(s.off is not None for s in addr.segs)


JOINED = ("v", "joined")     # definitely written, value differs between paths


class State:
    __slots__ = ("facts", "must", "may")

    def __init__(self, facts=frozenset(), must=None, may=None):
        self.facts = facts
        self.must = must if must is not None else {}
        self.may = may if may is not None else {}

    def copy(self):
        return State(self.facts, dict(self.must), dict(self.may))

    def same(self, o):
        return self.facts == o.facts and self.must == o.must and self.may.keys() == o.may.keys()


def join(a, b):
    if a is None:
        return b.copy()
    if b is None:
        return a.copy()
    facts = a.facts & b.facts
    must = {}
    for k, v in a.must.items():
        if k in b.must:
            # written on both paths: keep the value when it agrees, else "some value" (still defined)
            must[k] = v if b.must[k][1] == v[1] else (v[0], JOINED)
    may = dict(a.may)
    may.update(b.may)
    return State(facts, must, may)


class ClassSum:
    def __init__(self):
        self.guards = None     # set of exportable facts (∩ over exits)
        self.must = None       # key -> (Loc, term)
        self.may = {}          # key -> (Loc, site)
        self.exits = 0

    def add_exit(self, facts, must, may):
        self.exits += 1
        self.guards = set(facts) if self.guards is None else (self.guards & set(facts))
        if self.must is None:
            self.must = dict(must)
        else:
            self.must = {k: (v if must[k][1] == v[1] else (v[0], JOINED)) for k, v in self.must.items() if k in must}
        for k, v in may.items():
            self.may.setdefault(k, v)


class Summary:
    def __init__(self, func):
        self.func = func
        self.key = func.key
        self.cls = {}                # 'z' / 'nz' / 'void' -> ClassSum
        self.retconsts = set()       # integer constants / 'null' / 'ptr' / 'unknown'
        self.reads = {}              # key -> (Loc, site)
        self.allocs = []             # (inst id, fn, size term, site)
        self.frees = []              # (inst id, ptr term, Addr, site)
        self.callees = set()         # func keys (resolved, incl. vtable targets)
        self.ext_calls = {}          # external name -> site
        self.asms = []               # (asm string, constraints, site)
        self.needs_nonnull = {}      # term -> site (dereferenced without a dominating non-null test)
        self.derefs = []             # (site, term, checked)  for diagnosis
        self.ret_fresh = False
        self.ret_exact = False       # returned pointer is the allocation base itself
        self.indirect = []           # (inst id, struct, idx, targets)
        self.addr_reg = {}           # akey -> Addr (for rendering / rebasing)
        self.unknown_shapes = []     # things the engine could not model
        self.stores = []             # (inst id, Loc, value term, site) every store (flat)
        self.exit_states = []        # (cls, state, site, src block) for path-level rules
        self.fa = None               # the FuncAnalysis (converged block states) for path-level rules

    def c(self, cls):
        return self.cls.get(cls)


def exportable(t):
    k = t[0]
    if k in ("c", "null", "a"):
        return True
    if k == "ld":
        return t[1][0][0] in ("arg", "heap", "heapi")
    if k == "p":
        return t[1][0][0] in ("arg", "global", "heap", "heapi")
    if k == "pi":
        return True
    if k == "bin":
        return exportable(t[2]) and exportable(t[3])
    return False


def term_str(t, reg=None, prog=None):
    k = t[0]
    if k == "c":
        return str(t[1])
    if k == "null":
        return "NULL"
    if k == "a":
        return "P%d" % t[1]
    if k in ("ld", "p"):
        a = reg.get(t[1]) if reg else None
        s = addr_str(a, prog) if a else str(t[1])
        return ("*(%s)" if k == "ld" else "&(%s)") % s
    if k == "pi":
        return "&(%s#%s+?)" % (t[1][0], t[1][1])
    if k == "bin":
        return "(%s %s %s)" % (term_str(t[2], reg, prog), t[1], term_str(t[3], reg, prog))
    if k == "call":
        return "status#%d" % t[1]
    if k == "asm":
        return "asm#%d.out%d" % (t[1], t[2])
    return "%s#%s" % (k, t[1] if len(t) > 1 else "")


def fact_str(f, reg=None, prog=None):
    return "%s %s %s" % (term_str(f[1], reg, prog), f[0], term_str(f[2], reg, prog))


def handle_like(f, k):
    """parameter k is a bare pointer-to-pointer (void **), not an object handle"""
    t = f.params[k]["type"] if k < len(f.params) else ""
    return t.endswith("**")


class Analyzer:
    def __init__(self, prog):
        self.prog = prog
        self.summaries = {}
        self.fresh_fns = {}
        self.out_allocs = {}     # function name -> parameter index that receives a fresh block (int-returning allocators)
        self.order = []
        self._toposort()
        for f in self.order:
            self.summaries[f.key] = FuncAnalysis(f, self).run()
            if self.summaries[f.key].ret_fresh:
                self.fresh_fns[f.name] = self.summaries[f.key].ret_exact
            # allocation through an out-parameter: on success *(parameter k) := the function's own fresh block
            sm = self.summaries[f.key]
            nz = sm.c("nz")
            if sm.allocs and nz is not None and not f.internal and not sm.ret_fresh and not f.ret.endswith("*"):
                own = {iid for (iid, fn, sz, w) in sm.allocs}
                for k2, (loc, t) in (nz.must or {}).items():
                    if loc.addr.root[0] == "arg" and len(loc.addr.segs) == 1 and loc.addr.segs[0].off == 0 and \
                            t[0] == "p" and t[1][0][0] == "heap" and t[1][0][1] in own and t[1][1] == (0,) and \
                            handle_like(f, loc.addr.root[1]):
                        self.out_allocs[f.name] = loc.addr.root[1]

    def init_of(self, fkey):
        """definitely-initialised byte ranges of pointer parameters at the exits of a function (E5 summary):
        {class: {param index: ((lo, hi), ...)}} with constant ends; monotone (stores never un-initialise)."""
        if not hasattr(self, "_init"):
            self._init = {}
        if fkey in self._init:
            return self._init[fkey]
        self._init[fkey] = {}
        from .initflow import InitFlow, lf_is_const
        f = self.prog.funcs[fkey]
        res = {}
        try:
            fl = InitFlow(f, self, track_args=True)
        except Exception:
            return {}
        summ = self.summaries.get(fkey)
        by_src = {}
        if summ is not None:
            for (c2, _st, _site, src2) in summ.exit_states:
                by_src.setdefault(src2, set()).add(c2)
        flat = []
        for (cls, st, src) in fl.exits:
            classes = by_src.get(src) or {cls}
            for c2 in classes:
                flat.append((c2, st, src))
        for (cls, st, src) in flat:
            cur = {}
            for obj, ranges in st.items():
                if obj[0][0] == "arg" and obj[1] == ():
                    cur[obj[0][1]] = tuple((a[0], b[0]) for (a, b) in ranges if lf_is_const(a) and lf_is_const(b))
            if cls not in res:
                res[cls] = cur
            else:
                merged = {}
                for k in set(res[cls]) & set(cur):
                    out = []
                    for (a, b) in res[cls][k]:
                        for (c, d) in cur[k]:
                            lo, hi = max(a, c), min(b, d)
                            if lo < hi:
                                out.append((lo, hi))
                    if out:
                        merged[k] = tuple(out)
                res[cls] = merged
        self._init[fkey] = res
        return res

    def callee_keys(self, f):
        keys = set()
        for i in f.all_insts():
            if i["op"] != "call":
                continue
            c = i.get("callee")
            if c[0] == "f":
                g = self.prog.resolve(f.unit, c[1])
                if g:
                    keys.add(g.key)
            elif c[0] in ("i", "a"):
                for (u, n, gname) in self.indirect_targets(f, i):
                    g = self.prog.resolve(u, n)
                    if g:
                        keys.add(g.key)
        return keys

    def indirect_slot(self, f, call):
        """(structname, idx) when the callee operand is a load from a vtable slot."""
        c = call["callee"]
        if c[0] != "i":
            return None
        ld = f.insts.get(c[1])
        while ld and ld["op"] in CASTS:
            o = ld["ops"][0]
            ld = f.insts.get(o[1]) if o[0] == "i" else None
        if not ld or ld["op"] != "load":
            return None
        p = ld["ops"][0]
        gi = f.insts.get(p[1]) if p[0] == "i" else None
        if not gi or gi["op"] != "getelementptr":
            return None
        steps = [s for s in gi["gep"]["steps"] if s["k"] == "field"]
        if not steps:
            return None
        s = steps[-1]
        return (s["struct"], s["idx"])

    def indirect_targets(self, f, call):
        slot = self.indirect_slot(f, call)
        if not slot:
            from .ir import indirect_targets as it
            return [(g.unit, g.name, None) for g in it(self.prog, f, call)]
        return self.prog.slot_targets(slot[0], slot[1])

    def _toposort(self):
        funcs = {f.key: f for f in self.prog.defined()}
        deps = {k: {c for c in self.callee_keys(f) if c in funcs and c != k} for k, f in funcs.items()}
        done, order = set(), []
        visiting = set()

        def visit(k):
            if k in done:
                return
            if k in visiting:
                raise AnalysisBroken("recursion in call graph at %s" % (k,))
            visiting.add(k)
            for c in sorted(deps[k]):
                visit(c)
            visiting.discard(k)
            done.add(k)
            order.append(funcs[k])
        for k in sorted(funcs):
            visit(k)
        self.order = order


class FuncAnalysis:
    def __init__(self, func, an):
        self.f = func
        self.an = an
        self.prog = an.prog
        self.am = AddrMap(func, an.fresh_fns)
        self.S = Summary(func)
        self.call_gens = {}    # call id -> {'z': {key:(Loc,term)}, 'nz': {...}}
        self.call_class_facts = {}   # call id -> {'z': set(facts), 'nz': set(facts)}
        self.call_saved = {}         # call id -> {'z': must entries surviving a z return, 'nz': ...}
        self.termcache = {}
        self.load_prior = {}

    # ------------------------------------------------------------ helpers
    def site(self, inst):
        return "%s (%s)" % (self.f.loc(inst), self.f.name)

    def reg(self, addr):
        k = akey(addr)
        self.S.addr_reg.setdefault(k, addr)
        return k

    def strip(self, op):
        """strip pointer/integer casts; returns operand."""
        while op[0] == "i":
            i = self.f.insts[op[1]]
            if i["op"] in CASTS or i["op"] in ("zext",):
                op = i["ops"][0]
            else:
                break
        return op

    def term(self, op, st):
        op = self.strip(op)
        k = op[0]
        if k == "c":
            return ("c", op[1] if isinstance(op[1], int) else int(op[1]))
        if k == "n":
            return ("null",)
        if k == "a":
            return ("a", op[1])
        if k in ("g", "f"):
            a = self.am.of(op)
            if a is not None:
                return ("p", self.reg(a))
            return ("fn", op[1])
        if k == "ce":
            a = self.am.of(op)
            if a is not None and is_const_addr(a):
                return ("p", self.reg(a))
            return ("v", "ce")
        if k != "i":
            return ("v", k)
        i = self.f.insts[op[1]]
        o = i["op"]
        if o == "load" and i["id"] in self.termcache:
            return self.termcache[i["id"]]
        if o == "load":
            a = self.am.of(i["ops"][0])
            if a is not None and is_const_addr(a):
                loc = Loc(a, i["size"])
                key = (self.reg(a), i["size"])
                ent = st.must.get(key)
                if ent is not None:
                    return ent[1]
                # covered by a wider definite zero fill?
                for k2, (l2, t2) in st.must.items():
                    if t2 == ("c", 0) and l2.size and l2.size > i["size"] and contains(l2, loc):
                        return ("null",) if i["type"].endswith("*") else ("c", 0)
                if not any(may_overlap(loc, l2) for (l2, _s) in st.may.values()):
                    return ("ld", key[0], i["size"])
            return ("v", i["id"])
        if o == "extractvalue":
            b = i["ops"][0]
            if b[0] == "i" and self.f.insts[b[1]]["op"] == "call" and self.f.insts[b[1]]["callee"][0] == "asm":
                return ("asm", b[1], i["indices"][0])
            return ("v", i["id"])
        if o == "call" and i["callee"][0] == "asm":
            return ("asm", i["id"], 0)
        if o == "call":
            if i["type"].endswith("*"):
                a = self.am.of(op)
                if a is not None and a.root[0] in ("heap", "heapi"):
                    if is_const_addr(a):
                        return ("p", self.reg(a))
                    return ("pi", a.root[:2])
            return ("call", i["id"])
        if o in ("inttoptr", "select", "phi") and i["type"].endswith("*"):
            a = self.am.of(op)
            if a is not None and a.root[0] == "heap" and len(a.segs) == 1 and not is_const_addr(a):
                return ("pi", a.root[:2])
        if o in ("getelementptr", "alloca"):
            a = self.am.of(op)
            if a is not None and is_const_addr(a):
                return ("p", self.reg(a))
            return ("v", i["id"])
        if o in ("urem", "udiv", "and", "sub", "add", "mul", "shl", "lshr", "or", "xor"):
            t1 = self.term(i["ops"][0], st)
            t2 = self.term(i["ops"][1], st)
            if (t1[0] != "v" and t2[0] != "v") or t2[0] == "c" or t1[0] == "c":
                return ("bin", o, t1, t2)
            return ("v", i["id"])
        if o == "phi":
            # only a phi of identical non-instruction operands is transparent
            vals = [self.strip(x) for x in i["ops"]]
            if vals and all(v == vals[0] for v in vals) and vals[0][0] != "i":
                return self.term(vals[0], st)
            return ("v", i["id"])
        if o == "trunc" or o == "sext":
            return ("v", i["id"])
        return ("v", i["id"])

    def _phi_cyclic(self, phi):
        return any(x[0] == "i" and self.f.insts[x[1]]["op"] == "phi" for x in phi["ops"])

    def base_value(self, op, depth=0):
        """walk GEP/cast/phi chains back to the pointer the address is derived from."""
        seen = set()
        while op[0] == "i" and depth < 64:
            depth += 1
            i = self.f.insts[op[1]]
            if i["id"] in seen:
                break
            seen.add(i["id"])
            if i["op"] in CASTS:
                op = i["ops"][0]
            elif i["op"] == "getelementptr":
                op = i["gep"]["base"]
            elif i["op"] == "phi":
                # cursor phi: follow the incoming value that is not derived from the phi itself
                cands = []
                for x in i["ops"]:
                    b = self._chain_root(x, i["id"])
                    if b is not None:
                        cands.append(b)
                uniq = []
                for cnd in cands:
                    if cnd not in uniq:
                        uniq.append(cnd)
                if len(uniq) == 1:
                    op = uniq[0]
                else:
                    break
            else:
                break
        if op[0] == "ce" and op[1] in ("getelementptr", "bitcast"):
            return self.base_value(op[2][0], depth + 1)
        if op[0] == "i" and self.f.insts[op[1]]["op"] in ("phi", "select"):
            a = self.am.of(op)
            if a is not None and a.root[0] == "arg" and len(a.segs) == 1:
                return ["a", a.root[1]]
        return op

    def _chain_root(self, op, phi_id, depth=0):
        """root of a GEP/cast chain; None when it cycles back to phi_id."""
        while op[0] == "i" and depth < 64:
            depth += 1
            if op[1] == phi_id:
                return None
            i = self.f.insts[op[1]]
            if i["op"] in CASTS:
                op = i["ops"][0]
            elif i["op"] == "getelementptr":
                op = i["gep"]["base"]
            else:
                break
        return op

    def nonnull_known(self, t, st):
        if t[0] in ("p", "fn"):
            return True
        if ("ne", t, ("null",)) in st.facts:
            return True
        return False

    def op_nonnull(self, op, st, depth=0):
        """pointer operand certainly non-null at this point (facts, or a phi/select of such)."""
        op = self.strip(op)
        if op[0] in ("g", "f"):
            return True
        if op[0] == "i":
            i = self.f.insts[op[1]]
            if i["op"] == "alloca":
                return True
            if i["op"] in ("phi", "select") and depth < 4:
                ops = i["ops"] if i["op"] == "phi" else i["ops"][1:]
                if all(self.op_nonnull(self.base_value(x), st, depth + 1) for x in ops if x != ["i", i["id"]]):
                    return True
        return self.nonnull_known(self.term(op, st), st)

    def note_deref(self, inst, ptrop, st, why="deref"):
        b = self.base_value(ptrop)
        if self.op_nonnull(b, st):
            self.S.derefs.append((self.site(inst), self.term(b, st), True, why))
            return
        if b[0] in ("g", "f"):
            return
        if b[0] == "i" and self.f.insts[b[1]]["op"] == "alloca":
            return
        t = self.term(b, st)
        ok = self.nonnull_known(t, st)
        self.S.derefs.append((self.site(inst), t, ok, why))
        if not ok and t not in self.S.needs_nonnull:
            self.S.needs_nonnull[t] = self.site(inst) + " " + why

    # ------------------------------------------------------------ writes
    def do_write(self, st, addr, size, valterm, inst, tag=None, site=None):
        site = site or self.site(inst)
        if addr is None:
            self.S.unknown_shapes.append((site, "write through untracked pointer"))
            return
        loc = Loc(addr, size)
        key = (self.reg(addr), size)
        # kill overlapping must entries
        for k in [k for k, (l2, _t) in st.must.items() if may_overlap(loc, l2)]:
            del st.must[k]
        if is_const_addr(addr) and size is not None and valterm is not None:
            st.must[key] = (loc, valterm)
        st.may.setdefault((key, tag), (loc, site))

    def covered_by_must(self, st, addr, size):
        """every byte of [addr, addr+size) lies in some definite store of this function (constant offsets)."""
        if size is None or not is_const_addr(addr):
            return False
        lo = addr.segs[-1].off
        need = set(range(lo, lo + size))
        pre = (addr.root[:2], tuple(s.off for s in addr.segs[:-1]))
        for k, (loc, t) in st.must.items():
            a = loc.addr
            if loc.size is None or not is_const_addr(a) or (a.root[:2], tuple(s.off for s in a.segs[:-1])) != pre:
                continue
            need -= set(range(a.segs[-1].off, a.segs[-1].off + loc.size))
            if not need:
                return True
        return not need

    def do_read(self, addr, size, inst, st=None):
        """upward-exposed reads: loads of memory this function has not definitely written before"""
        if addr is None:
            return
        key = (self.reg(addr), size)
        if st is not None and (key in st.must or self.covered_by_must(st, addr, size)):
            return
        self.S.reads.setdefault(key, (Loc(addr, size), self.site(inst)))

    # ------------------------------------------------------------ instructions
    def step(self, st, inst, collect):
        o = inst["op"]
        if o == "store":
            addr = self.am.of(inst["ops"][1])
            vt = self.term(inst["ops"][0], st)
            if collect:
                self.note_deref(inst, inst["ops"][1], st, "store")
                self.S.stores.append((inst["id"], Loc(addr, inst["size"]), vt, self.site(inst), bool(inst.get("volatile"))))
            self.do_write(st, addr, inst["size"], vt, inst)
        elif o == "load":
            addr = self.am.of(inst["ops"][0])
            self.termcache.pop(inst["id"], None)
            self.termcache[inst["id"]] = self.term(["i", inst["id"]], st)
            if collect:
                self.note_deref(inst, inst["ops"][0], st, "load")
                self.do_read(addr, inst["size"], inst, st)
                if inst["type"].endswith("*") and addr is not None:
                    # memory writes that may precede this pointer load (C15: a freed pointer fetched after a wipe)
                    self.load_prior[inst["id"]] = (Loc(addr, inst["size"]), [(l, w) for (l, w) in st.may.values()])
        elif o == "call":
            self.do_call(st, inst, collect)

    def const_of(self, op):
        op = self.strip(op)
        if op[0] == "c":
            return int(op[1])
        return None

    def do_call(self, st, inst, collect):
        c = inst["callee"]
        name = c[1] if c[0] == "f" else None
        if c[0] == "asm":
            if collect:
                self.S.asms.append((c[1], c[2], self.site(inst), inst["id"]))
            if "memory" in c[2] or "*m" in c[2]:
                self.S.unknown_shapes.append((self.site(inst), "inline asm touches memory"))
            return
        base = inst.get("intrinsic") or name
        if base and base.startswith(PURE_INTRINSICS):
            return
        if base in MEMFNS:
            n = self.const_of(inst["ops"][2])
            dst = self.am.of(inst["ops"][0])
            val = None
            if MEMFNS[base][1] == "v":
                v = self.const_of(inst["ops"][1])
                if v == 0:
                    val = ("c", 0)
            if collect:
                if n != 0:
                    self.note_deref(inst, inst["ops"][0], st, base + " dest")
                    if MEMFNS[base][1] == "r":
                        self.note_deref(inst, inst["ops"][1], st, base + " source")
                if MEMFNS[base][1] == "r":
                    self.do_read(self.am.of(inst["ops"][1]), n, inst)
            self.do_write(st, dst, n, val, inst)
            return
        if name in ALLOCATORS:
            if collect:
                self.S.ext_calls.setdefault(name, self.site(inst))
                if name == "calloc":
                    sz = ("bin", "mul", self.term(inst["ops"][0], st), self.term(inst["ops"][1], st))
                else:
                    sz = self.term(inst["ops"][0], st)
                self.S.allocs.append((inst["id"], name, sz, self.site(inst)))
            return
        if name == "free":
            if collect:
                self.S.ext_calls.setdefault(name, self.site(inst))
                a = self.am.of(inst["ops"][0])
                src = None
                op = inst["ops"][0]
                while op[0] == "i" and self.f.insts[op[1]]["op"] in CASTS:
                    op = self.f.insts[op[1]]["ops"][0]
                if op[0] == "i" and op[1] in self.load_prior:
                    src = self.load_prior[op[1]]
                self.S.frees.append((inst["id"], self.term(inst["ops"][0], st), a, self.site(inst), st.facts, src))
            return
        # library function (direct or through a vtable)
        targets = []
        if name is not None:
            g = self.prog.resolve(self.f.unit, name)
            if g is None:
                if collect:
                    self.S.ext_calls.setdefault(name, self.site(inst))
                return
            targets = [g]
        else:
            slot = self.an.indirect_slot(self.f, inst)
            if slot is None:
                from .ir import resolve_fnptr
                ts, complete = resolve_fnptr(self.prog, self.f, inst["callee"])
                if not complete and not ts:
                    self.S.unknown_shapes.append((self.site(inst), "indirect call whose targets cannot be resolved (not a vtable slot, not a resolvable function-pointer argument)"))
                    return
                targets = list(ts)
                if collect:
                    self.S.indirect.append((inst["id"], None, None, [t.key for t in targets]))
                if not targets:
                    return      # only NULL reaches this call (guarded by a non-null test)
            else:
                tl = self.prog.slot_targets(slot[0], slot[1])
                for (u, n, gname) in tl:
                    g = self.prog.resolve(u, n)
                    if g is not None and not g.decl:
                        targets.append(g)
                if collect:
                    self.S.indirect.append((inst["id"], slot[0], slot[1], [t.key for t in targets]))
                if not targets:
                    self.S.unknown_shapes.append((self.site(inst), "vtable slot %s[%d] has no target" % slot))
                    return
        sums = []
        for g in targets:
            s = self.an.summaries.get(g.key)
            if s is None:
                raise AnalysisBroken("summary of %s missing while analysing %s" % (g.key, self.f.key))
            sums.append(s)
            if collect:
                self.S.callees.add(g.key)
        actual_addrs = [self.am.of(a) for a in inst["ops"]]
        actual_terms = [self.term(a, st) for a in inst["ops"]]
        site = self.site(inst)

        def xl_addr(addr):
            r = addr.root
            if r[0] == "arg":
                k = r[1]
                if k >= len(actual_addrs) or actual_addrs[k] is None:
                    return None
                # callee access at  scale * parameter j + constant  and this call passes a constant for j:
                # the offset is a constant here
                s0 = addr.segs[0]
                if s0.off is None and s0.el and s0.el[0] == "argoff" and s0.el[1] < len(actual_terms):
                    t = actual_terms[s0.el[1]]
                    if t is not None and t[0] == "c":
                        addr = Addr(addr.root, (Seg(s0.ty, s0.el[2] * t[1] + s0.el[3], None),) + addr.segs[1:])
                return rebase(addr, actual_addrs[k])
            if r[0] in ("heap", "heapi"):
                # the callee's fresh block: named after this call site in the caller
                return Addr((r[0], inst["id"]), addr.segs)
            if r[0] == "global":
                return addr
            return None

        def xl_term(t, s):
            k = t[0]
            if k in ("c", "null"):
                return t
            if k == "a":
                return actual_terms[t[1]] if t[1] < len(actual_terms) else None
            if k in ("ld", "p"):
                a = s.addr_reg.get(t[1])
                if a is None:
                    return None
                a2 = xl_addr(a)
                if a2 is None or not is_const_addr(a2):
                    return None
                if k == "p":
                    return ("p", self.reg(a2))
                key = (self.reg(a2), t[2])
                ent = st.must.get(key)
                if ent is not None:
                    return ent[1]
                loc = Loc(a2, t[2])
                if any(may_overlap(loc, l2) for (l2, _s) in st.may.values()):
                    return None
                return ("ld", key[0], t[2])
            if k == "pi":
                a2 = Addr(("heapi", inst["id"]), (Seg(None, 0, None),))
                return ("p", self.reg(a2))
            if k == "bin":
                x, y = xl_term(t[2], s), xl_term(t[3], s)
                if x is None or y is None:
                    return None
                return ("bin", t[1], x, y)
            return None

        # 1. unchecked dereferences required by the callees
        if collect:
            for s in sums:
                for t, w in s.needs_nonnull.items():
                    if t[0] == "a":
                        if t[1] >= len(inst["ops"]):
                            continue
                        b = self.base_value(inst["ops"][t[1]])
                        if b[0] in ("g", "f") or (b[0] == "i" and self.f.insts[b[1]]["op"] == "alloca"):
                            continue
                        tt = self.term(b, st)
                    else:
                        tt = xl_term(t, s)
                        if tt is None:
                            tt = ("v", "xl%d" % inst["id"])
                    ok = self.nonnull_known(tt, st)
                    self.S.derefs.append((site, tt, ok, "via %s: %s" % (s.func.name, w)))
                    if not ok and tt not in self.S.needs_nonnull:
                        self.S.needs_nonnull[tt] = "%s -> %s" % (site, w)
                for (k2, (loc, w)) in s.reads.items():
                    a2 = xl_addr(loc.addr)
                    if a2 is not None and a2.root[0] != "alloca":
                        if (akey(a2), loc.size) in st.must or self.covered_by_must(st, a2, loc.size):
                            continue      # the callee reads what this function has definitely written itself
                        self.S.reads.setdefault((self.reg(a2), loc.size), (Loc(a2, loc.size), site + " -> " + w))
                for (iid, fn, sz, w) in s.allocs:
                    self.S.allocs.append((inst["id"], fn, xl_term(sz, s) or ("v", "sz"), site + " -> " + w))
                for (iid, t, a, w, ffacts, src) in s.frees:
                    a2 = xl_addr(a) if a is not None else None
                    src2 = None
                    if src is not None:
                        la = xl_addr(src[0].addr)
                        if la is not None:
                            prior = [(l, pw) for (l, pw) in st.may.values()]
                            for (l, pw) in src[1]:
                                xa = xl_addr(l.addr) if l.addr is not None else None
                                if xa is not None:
                                    prior.append((Loc(xa, l.size), site + " -> " + str(pw)))
                            src2 = (Loc(la, src[0].size), prior)
                    self.S.frees.append((inst["id"], xl_term(t, s) or ("v", "fr"), a2, site + " -> " + w, st.facts, src2))
                for n2, w in s.ext_calls.items():
                    self.S.ext_calls.setdefault(n2, site + " -> " + w)
                for a in s.asms:
                    self.S.asms.append((a[0], a[1], site + " -> " + a[2], inst["id"]))
                for u in s.unknown_shapes:
                    self.S.unknown_shapes.append((site + " -> " + u[0], u[1]))
                self.S.callees |= s.callees

        # 2. effects per callee class
        classes = set()
        for s in sums:
            classes |= set(s.cls.keys())
        gens = {}
        facts = {}
        for cl in classes:
            g_all = None
            f_all = None
            for s in sums:
                cs = s.cls.get(cl)
                if cs is None:
                    # this target never returns in that class: contributes nothing
                    continue
                g = {}
                for key, (loc, t) in (cs.must or {}).items():
                    a2 = xl_addr(loc.addr)
                    t2 = xl_term(t, s)
                    if a2 is None or not is_const_addr(a2):
                        continue
                    if t2 is None:
                        t2 = ("v", "callee")      # definitely written by the callee, value not nameable here
                    g[(self.reg(a2), loc.size)] = (Loc(a2, loc.size), t2)
                fs = set()
                for fct in (cs.guards or ()):
                    x, y = xl_term(fct[1], s), xl_term(fct[2], s)
                    if x is not None and y is not None:
                        fs.add((fct[0], x, y))
                g_all = g if g_all is None else {k: (v if g[k][1] == v[1] else (v[0], JOINED)) for k, v in g_all.items() if k in g}
                f_all = fs if f_all is None else (f_all & fs)
            gens[cl] = g_all or {}
            facts[cl] = f_all or set()
        # may-writes, tagged by class
        pending = []
        for s in sums:
            for cl, cs in s.cls.items():
                for key, (loc, w) in cs.may.items():
                    a2 = xl_addr(loc.addr)
                    if loc.addr.root[0] == "alloca":
                        continue
                    if a2 is None:
                        self.S.unknown_shapes.append((site, "callee %s writes %s which cannot be named here" % (s.func.name, addr_str(loc.addr, self.prog))))
                        continue
                    pending.append((a2, loc.size, cl, site + " -> " + w))
        # must entries that only one class's writes would kill survive under the other class:
        # remember them so that learning the class (test-and-bail / tail return) restores them
        killed_by = {}
        for (a2, size, cl, w) in pending:
            loc = Loc(a2, size)
            for k, (l2, _t) in st.must.items():
                if may_overlap(loc, l2):
                    killed_by.setdefault(cl, set()).add(k)
        saved = {}
        if killed_by and all(c in ("z", "nz") for c in killed_by):
            allk = set().union(*killed_by.values())
            for cl in ("z", "nz"):
                keep = {k: st.must[k] for k in allk if k not in killed_by.get(cl, set())}
                if keep:
                    saved[cl] = keep
        self.call_saved[inst["id"]] = saved
        for (a2, size, cl, w) in pending:
            tag = (inst["id"], cl) if cl in ("z", "nz") else None
            self.do_write(st, a2, size, None, inst, tag=tag, site=w)
        # must gens common to all classes apply immediately
        if gens:
            common = None
            for cl, g in gens.items():
                common = dict(g) if common is None else {k: (v if g[k][1] == v[1] else (v[0], JOINED)) for k, v in common.items() if k in g}
            for k, v in (common or {}).items():
                st.must[k] = v
            cf = None
            for cl, fs in facts.items():
                cf = set(fs) if cf is None else (cf & fs)
            if cf:
                st.facts = st.facts | frozenset(cf)
        self.call_gens[inst["id"]] = gens
        self.call_class_facts[inst["id"]] = facts

    # ------------------------------------------------------------ edges
    def cond_facts(self, cond_op, truth, st):
        """facts implied by branch condition being `truth`."""
        op = cond_op
        # look through xor-with-true (not) and zext/trunc of i1
        if op[0] != "i":
            return []
        i = self.f.insts[op[1]]
        if i["op"] == "xor" and i["type"] == "i1":
            o2 = [x for x in i["ops"] if x[0] != "c"]
            if len(o2) == 1:
                return self.cond_facts(o2[0], not truth, st)
        if i["op"] == "icmp" and i["pred"] in ("ne", "eq") and i["ops"][1][0] == "c" and int(i["ops"][1][1]) == 0:
            # (int)(a < b) != 0  is  a < b : a boolean that travelled through an integer (inlined predicate helper)
            z = i["ops"][0]
            while z[0] == "i" and self.f.insts[z[1]]["op"] in ("zext", "sext"):
                inner = self.f.insts[z[1]]["ops"][0]
                if inner[0] != "i" or self.f.insts[inner[1]]["type"] != "i1":
                    break
                z = inner
            if z != i["ops"][0] and z[0] == "i" and self.f.insts[z[1]]["type"] == "i1":
                return self.cond_facts(z, truth if i["pred"] == "ne" else (not truth), st)
        if i["op"] == "icmp":
            p = i["pred"]
            a = self.term(i["ops"][0], st)
            b = self.term(i["ops"][1], st)
            if a[0] in ("c", "null") and b[0] not in ("c", "null"):
                a, b, p = b, a, SWAP[p]
            if not truth:
                p = NEG[p]
            return [(p, a, b)]
        if i["op"] == "trunc" and i["type"] == "i1":
            return []
        return []

    def learn_class(self, st, fct, src_bb):
        """when a fact fixes the status of a call made in src_bb, apply class effects."""
        if fct[0] not in ("eq", "ne"):
            return
        if fct[1][0] == "call" and fct[2] == ("c", 0):
            cid = fct[1][1]
        elif fct[1][0] == "p" and fct[2] == ("null",) and fct[1][1][0][0] in ("heap", "heapi") and \
                len(fct[1][1][1]) == 1 and isinstance(fct[1][1][0][1], int) and \
                self.f.insts.get(fct[1][1][0][1], {}).get("op") == "call":
            cid = fct[1][1][0][1]     # pointer-returning callee: null / non-null classes
        elif fct[1][0] == "pi" and fct[2] == ("null",) and isinstance(fct[1][1][1], int) and \
                self.f.insts.get(fct[1][1][1], {}).get("op") == "call":
            cid = fct[1][1][1]
        else:
            return
        cl = "nz" if fct[0] == "ne" else "z"
        other = "z" if cl == "nz" else "nz"
        # drop may-writes of the other class
        for k in [k for k in st.may if k[1] == (cid, other)]:
            del st.may[k]
        # pending must gens / facts: only when the call is the last memory effect of its block
        if self.f.bb_of.get(cid) != src_bb:
            return
        after = False
        for i in self.f.bbmap[src_bb]["insts"]:
            if i["id"] == cid:
                after = True
                continue
            if after and i["op"] in ("store", "call"):
                return
        for k, v in self.call_saved.get(cid, {}).get(cl, {}).items():
            st.must.setdefault(k, v)
        g = self.call_gens.get(cid, {}).get(cl)
        if g:
            for k, v in g.items():
                st.must[k] = v
        fs = self.call_class_facts.get(cid, {}).get(cl)
        if fs:
            st.facts = st.facts | frozenset(fs)

    def edge_states(self, bb, st):
        """[(succ, state)] after the terminator of bb."""
        t = self.f.term(bb)
        out = []
        if t["op"] == "br" and len(t["succs"]) == 2 and t["succs"][0] != t["succs"][1]:
            cond = t["ops"][0]
            for k, succ in enumerate(t["succs"]):
                s2 = st.copy()
                fs = self.cond_facts(cond, k == 0, s2)
                s2.facts = s2.facts | frozenset(fs)
                for fct in fs:
                    self.learn_class(s2, fct, bb)
                out.append((succ, s2))
        else:
            for succ in self.f.succs[bb]:
                out.append((succ, st.copy()))
        return out

    def edge_facts(self, bb, succ):
        """facts the branch at the end of bb adds on the edge to succ (after convergence)."""
        t = self.f.term(bb)
        st = self.term_state.get(bb)
        if st is None:
            return []
        if t["op"] == "br" and len(t["succs"]) == 2 and t["succs"][0] != t["succs"][1]:
            out = []
            for k, sname in enumerate(t["succs"]):
                if sname == succ:
                    out += self.cond_facts(t["ops"][0], k == 0, st)
            return out
        return []

    def all_paths_have(self, pred_fact, exit_block, via_pred=None):
        """True when every CFG path from the entry to exit_block (entered from via_pred when given)
        crosses an edge carrying a fact accepted by pred_fact."""
        f = self.f
        rpo = f.rpo()
        J = {b: None for b in rpo}
        J[f.entry] = False
        changed = True
        def edge_val(p, b):
            if J[p] is None:
                return None
            return J[p] or any(pred_fact(x) for x in self.edge_facts(p, b))
        while changed:
            changed = False
            for b in rpo:
                if b == f.entry:
                    continue
                vals = [edge_val(p, b) for p in f.preds[b]]
                vals = [v for v in vals if v is not None]
                if not vals:
                    continue
                n = all(vals)
                if J[b] != n:
                    J[b] = n
                    changed = True
        if via_pred is not None:
            return bool(edge_val(via_pred, exit_block))
        return bool(J.get(exit_block))

    # ------------------------------------------------------------ driver
    def run(self):
        f = self.f
        if f.decl or not f.blocks:
            return self.S
        rpo = f.rpo()
        IN = {b: None for b in rpo}
        IN[f.entry] = State()
        edge_out = {}
        changed = True
        it = 0
        while changed:
            it += 1
            if it > 60:
                raise AnalysisBroken("dataflow did not converge in %s" % (f.key,))
            changed = False
            for b in rpo:
                if b != f.entry:
                    acc = None
                    for p in f.preds[b]:
                        e = edge_out.get((p, b))
                        if e is not None:
                            acc = join(acc, e)
                    if acc is None:
                        continue
                    if IN[b] is None or not IN[b].same(acc):
                        IN[b] = acc
                        changed = True
                    elif it > 1:
                        continue
                st = IN[b].copy()
                for inst in f.bbmap[b]["insts"][:-1]:
                    self.step(st, inst, False)
                for succ, s2 in self.edge_states(b, st):
                    old = edge_out.get((b, succ))
                    if old is None or not old.same(s2):
                        edge_out[(b, succ)] = s2
                        changed = True
        # final collecting pass
        self.S.stores = []
        self.IN = IN
        self.edge_out = edge_out
        self.term_state = {}
        self.S.fa = self
        for b in rpo:
            if IN[b] is None:
                continue
            st = IN[b].copy()
            insts = f.bbmap[b]["insts"]
            for inst in insts[:-1]:
                self.step(st, inst, True)
            self.term_state[b] = st.copy()
            t = insts[-1]
            if t["op"] == "ret":
                self.do_ret(b, t, st, IN, edge_out)
            elif t["op"] == "unreachable":
                pass
        self.finish()
        return self.S

    def do_ret(self, b, t, st, IN, edge_out):
        f = self.f
        site = self.site(t)
        if not t["ops"]:
            self._exit_src = b
            self.add_exit("void", st, site)
            return
        rv = t["ops"][0]
        # return block of the form  phi ; ret phi  -> one exit per incoming edge
        insts = f.bbmap[b]["insts"]
        body = [i for i in insts[:-1]]
        if rv[0] == "i" and f.insts[rv[1]]["op"] == "phi" and f.bb_of[rv[1]] == b and \
                all(i["op"] == "phi" for i in body):
            phi = f.insts[rv[1]]
            for val, pb in zip(phi["ops"], phi["inblocks"]):
                e = edge_out.get((pb, b))
                if e is None:
                    continue
                self.classify_exit(val, e.copy(), "%s via %s" % (site, pb), pb)
            return
        self.classify_exit(rv, st, site, b)

    def classify_exit(self, val, st, site, src_bb):
        self._exit_src = src_bb
        t = self.term(val, st)
        if t[0] == "c":
            self.S.retconsts.add(t[1])
            self.add_exit("z" if t[1] == 0 else "nz", st, site)
        elif t[0] == "null":
            self.S.retconsts.add("null")
            self.add_exit("z", st, site)
        elif t[0] in ("p", "pi"):
            if ("eq", t, ("null",)) in st.facts:
                self.S.retconsts.add("null")
                self.add_exit("z", st, site)
            else:
                self.S.retconsts.add("ptr")
                self.add_exit("nz", st, site)
        elif t[0] == "call":
            cid = t[1]
            if ("ne", t, ("c", 0)) in st.facts:
                self.note_call_ret(cid, "nz")
                self.add_exit("nz", st, site)
            elif ("eq", t, ("c", 0)) in st.facts:
                self.note_call_ret(cid, "z")
                self.add_exit("z", st, site)
            else:
                for cl, p in (("z", "eq"), ("nz", "ne")):
                    if not self.call_has_class(cid, cl):
                        continue
                    s2 = st.copy()
                    fct = (p, t, ("c", 0))
                    s2.facts = s2.facts | {fct}
                    self.learn_class(s2, fct, self.f.bb_of.get(cid))
                    self.note_call_ret(cid, cl)
                    self.add_exit(cl, s2, site + " [callee returned %s]" % ("0" if cl == "z" else "non-zero"))
        elif self._is_bool(val):
            # `return cond;` : one exit per truth value, each with the facts of the comparison
            self.S.retconsts.update((0, 1))
            for truth, cl in ((True, "nz"), (False, "z")):
                s2 = st.copy()
                s2.facts = s2.facts | frozenset(self.cond_facts(self.strip(val), truth, s2))
                self.add_exit(cl, s2, site + " [condition %s]" % ("true" if truth else "false"))
        else:
            # value not classified: pointer results of inttoptr etc. count as non-null when fresh
            a = self.am.of(val) if val[0] in ("i", "a") else None
            if a is not None and a.root[0] in ("heap", "heapi"):
                self.S.retconsts.add("ptr")
                self.add_exit("nz", st, site)
                return
            self.S.retconsts.add("unknown")
            self.add_exit("z", st.copy(), site + " [unknown value]")
            self.add_exit("nz", st.copy(), site + " [unknown value]")

    def _is_bool(self, val):
        v = self.strip(val)
        return v[0] == "i" and self.f.insts[v[1]]["op"] == "icmp"

    def call_has_class(self, cid, cl):
        inst = self.f.insts[cid]
        c = inst["callee"]
        targets = []
        if c[0] == "f":
            g = self.prog.resolve(self.f.unit, c[1])
            if g is None:
                return True
            targets = [g]
        else:
            for (u, n, gn) in self.an.indirect_targets(self.f, inst):
                g = self.prog.resolve(u, n)
                if g:
                    targets.append(g)
        for g in targets:
            s = self.an.summaries.get(g.key)
            if s and cl in s.cls:
                return True
        return not targets

    def note_call_ret(self, cid, cl):
        inst = self.f.insts[cid]
        c = inst["callee"]
        targets = []
        if c[0] == "f":
            g = self.prog.resolve(self.f.unit, c[1])
            targets = [g] if g else []
        else:
            for (u, n, gn) in self.an.indirect_targets(self.f, inst):
                g = self.prog.resolve(u, n)
                if g:
                    targets.append(g)
        if not targets:
            self.S.retconsts.add("unknown")
        for g in targets:
            s = self.an.summaries.get(g.key)
            if not s:
                continue
            for rc in s.retconsts:
                if rc in ("unknown", "ptr", "null"):
                    self.S.retconsts.add(rc)
                elif (rc == 0) == (cl == "z"):
                    self.S.retconsts.add(rc)

    def add_exit(self, cls, st, site):
        cs = self.S.cls.setdefault(cls, ClassSum())
        facts = {x for x in st.facts if exportable(x[1]) and exportable(x[2])}
        must = {}
        for k, (loc, t) in st.must.items():
            if loc.addr.root[0] == "alloca":
                continue
            must[k] = (loc, t if exportable(t) else ("v", "local"))
        may = {}
        for (k, tag), (loc, w) in st.may.items():
            if loc.addr is not None and loc.addr.root[0] == "alloca":
                continue
            may.setdefault(k, (loc, w))
        cs.add_exit(facts, must, may)
        self.S.exit_states.append((cls, st, site, self._exit_src))

    def finish(self):
        # does the function return a fresh allocation (or null)?
        f = self.f
        if f.ret.endswith("*"):
            fresh = True
            any_ret = False
            for i in f.all_insts():
                if i["op"] == "ret" and i["ops"]:
                    vals = [i["ops"][0]]
                    v = i["ops"][0]
                    if v[0] == "i" and f.insts[v[1]]["op"] == "phi":
                        vals = f.insts[v[1]]["ops"]
                    for v in vals:
                        if v[0] == "n":
                            continue
                        any_ret = True
                        a = self.am.of(v)
                        if a is None or a.root[0] != "heap":
                            fresh = False
            self.S.ret_fresh = fresh and any_ret
            exact = True
            for i in f.all_insts():
                if i["op"] == "ret" and i["ops"]:
                    vals = [i["ops"][0]]
                    v = i["ops"][0]
                    if v[0] == "i" and f.insts[v[1]]["op"] == "phi":
                        vals = f.insts[v[1]]["ops"]
                    for v in vals:
                        if v[0] == "n":
                            continue
                        a = self.am.of(v)
                        if a is None or not is_const_addr(a) or a.segs[-1].off != 0:
                            exact = False
            self.S.ret_exact = self.S.ret_fresh and exact
