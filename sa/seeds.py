"""E9c: one-edit variants of /repo for the sensitivity run (applied to a scratch copy only).
Each: n, name, edits [(file, old, new)], rules expected to flag it."""

SEEDS = []


def seed(n, name, rules, *edits):
    SEEDS.append({"n": n, "name": name, "rules": rules, "edits": list(edits)})


V128 = "src/skinny128-ctr-vec128.c"

seed(5, "skinny_cleanse call removed from skinny128_ctr_vec128_cleanup", ["C17.R1"],
     (V128, "        skinny_cleanse(ctx, sizeof(Skinny128CTRVec128Ctx_t));\n", ""))
seed(6, "wipe length sizeof(Skinny128CTRCtx_t)-like shorter type in the vec256 cleanup", ["C17.R2"],
     ("src/skinny128-ctr-vec256.c", "skinny_cleanse(ctx, sizeof(Skinny128CTRVec256Ctx_t));", "skinny_cleanse(ctx, sizeof(Skinny128TweakedKey_t));"))
seed(7, "volatile dropped in skinny_cleanse", ["C17.R3", "C17.R1"],
     ("src/skinny-internal.h", "uint8_t volatile *p = (uint8_t volatile *)ptr;", "uint8_t *p = (uint8_t *)ptr;"))
seed(8, "base_ptr read after the wipe", ["C17.R4"],
     (V128, "        void *base_ptr = ctx->base_ptr;\n        skinny_cleanse(ctx, sizeof(Skinny128CTRVec128Ctx_t));\n        free(base_ptr);",
      "        skinny_cleanse(ctx, sizeof(Skinny128CTRVec128Ctx_t));\n        free(ctx->base_ptr);"))
seed(9, "free(ctx) instead of free(base_ptr) in mantis_ctr_vec128_cleanup", ["C15.R2"],
     ("src/mantis-ctr-vec128.c", "        free(base_ptr);", "        (void)base_ptr; free(ctx);"))
seed(10, "ctr->ctx = 0 removed after free in skinny64_ctr_def_cleanup", ["C15.R3"],
     ("src/skinny64-ctr.c", "        free(ctr->ctx);\n        ctr->ctx = 0;", "        free(ctr->ctx);"))
seed(11, "ctr->vtable = 0 removed from skinny128_ctr_cleanup", ["C15.R3"],
     ("src/skinny128-ctr.c", "        (*(vtable->cleanup))(ctr);\n        ctr->vtable = 0;", "        (*(vtable->cleanup))(ctr);"))
seed(12, "if (!ctx) return 0 removed from mantis_ctr_def_encrypt", ["C14.R2", "C14.R4", "C15.R4"],
     ("src/mantis-ctr.c", "    if (!output || !input)\n        return 0;\n    ctx = ctr->ctx;\n    if (!ctx)\n        return 0;", "    if (!output || !input)\n        return 0;\n    ctx = ctr->ctx;"))
seed(13, "static cached memoisation in _skinny_has_vec128", ["C18.R1", "C18.R2", "C18.R4"],
     ("src/skinny-internal.c", "int _skinny_has_vec128(void)\n{\n    int detected = 0;", "int _skinny_has_vec128(void)\n{\n    static int cached = -1;\n    int detected = 0;\n    if (cached >= 0) return cached;"),
     ("src/skinny-internal.c", "#endif\n#endif\n#endif\n    return detected;", "#endif\n#endif\n#endif\n    cached = detected;\n    return detected;"))
seed(14, "ks->rounds = 40 hoisted above the validation in skinny128_set_key", ["C14.R1"],
     ("src/skinny128-cipher.c", "int skinny128_set_key(Skinny128Key_t *ks, const void *key, unsigned size)\n{\n    /* Validate the parameters */\n    if (!ks || !key ||",
      "int skinny128_set_key(Skinny128Key_t *ks, const void *key, unsigned size)\n{\n    /* Validate the parameters */\n    if (ks) ks->rounds = 40;\n    if (!ks || !key ||"))
seed(15, "upper bound size > 3*B dropped in skinny64_set_key", ["C14.R2", "C10.R1"],
     ("src/skinny64-cipher.c", "    if (!ks || !key || size < SKINNY64_BLOCK_SIZE ||\n            size > (SKINNY64_BLOCK_SIZE * 3)) {", "    if (!ks || !key || size < SKINNY64_BLOCK_SIZE) {"))
seed(16, "skinny128_ctr_vec128_set_counter no longer rejects size > 16", ["C14.R2", "C06.R1", "C09.R2"],
     (V128, "    /* Validate the parameters */\n    if (size > SKINNY128_BLOCK_SIZE)\n        return 0;\n    ctx = ctr->ctx;", "    /* Validate the parameters */\n    ctx = ctr->ctx;"))
seed(17, "return 1 on the null-key path of skinny128_ctr_def_set_key", ["C14.R2", "C14.R3", "C06.R1"],
     ("src/skinny128-ctr.c", "static int skinny128_ctr_def_set_key(Skinny128CTR_t *ctr, const void *key, unsigned size)\n{\n    Skinny128CTRCtx_t *ctx;\n\n    /* Validate the parameters */\n    if (!key)\n        return 0;",
      "static int skinny128_ctr_def_set_key(Skinny128CTR_t *ctr, const void *key, unsigned size)\n{\n    Skinny128CTRCtx_t *ctx;\n\n    /* Validate the parameters */\n    if (!key)\n        return 1;"))
seed(33, "calloc -> malloc in skinny128_parallel_ecb_init", ["C11.R3", "C18.R2"],
     ("src/skinny128-parallel.c", "ctx = calloc(1, sizeof(Skinny128Key_t))", "ctx = malloc(sizeof(Skinny128Key_t))"))
seed(47, "D2 re-introduced: NULL tweak memcpy in skinny128_set_tweak", ["C14.R4", "C04.R3"],
     ("src/skinny128-cipher.c", "    if (tweak) {\n        memcpy(ks->tweak, tweak, tweak_size);\n        memset(ks->tweak + tweak_size, 0, sizeof(ks->tweak) - tweak_size);\n    } else {\n        memset(ks->tweak, 0, sizeof(ks->tweak));\n    }",
      "    memcpy(ks->tweak, tweak, tweak_size);\n    memset(ks->tweak + tweak_size, 0, sizeof(ks->tweak) - tweak_size);"))
seed(48, "D3 re-introduced: no NULL check in mantis_parallel_ecb_init", ["C14.R4", "C14.R2"],
     ("src/mantis-parallel.c", "    if (!ecb)\n        return 0;\n    if ((ctx = calloc", "    if ((ctx = calloc"))
seed(49, "D4 re-introduced: skinny64_ctr_init forgets to clear ctx/vtable on failure", ["C16.R1"],
     ("src/skinny64-ctr.c", "    ctr->vtable = vtable;\n    ctr->ctx = 0;\n", "    ctr->vtable = vtable;\n"),
     ("src/skinny64-ctr.c", "    ctr->vtable = 0;\n    return 0;\n}\n\nvoid skinny64_ctr_cleanup", "    return 0;\n}\n\nvoid skinny64_ctr_cleanup"))
seed(50, "D4 re-introduced: skinny128_parallel_ecb_init leaves ctx on failure", ["C16.R1"],
     ("src/skinny128-parallel.c", "        ecb->vtable = 0;\n        ecb->ctx = 0;\n        return 0;", "        return 0;"))
seed(53, "double free: free(ctr->ctx) twice in mantis_ctr_def_cleanup", ["C15.R3"],
     ("src/mantis-ctr.c", "        free(ctr->ctx);\n        ctr->ctx = 0;", "        free(ctr->ctx);\n        free(ctr->ctx);\n        ctr->ctx = 0;"))
seed(54, "second allocation leaked in skinny64_ctr_def_init", ["C15.R1"],
     ("src/skinny64-ctr.c", "    ctx->offset = SKINNY64_BLOCK_SIZE;\n    ctr->ctx = ctx;\n    return 1;", "    ctx->offset = SKINNY64_BLOCK_SIZE;\n    ctr->ctx = calloc(1, sizeof(Skinny64CTRCtx_t)) ? ctx : ctx;\n    return 1;"))
seed(55, "parallel decrypt accepts partial blocks (size % B check dropped)", ["C14.R2", "C07.R5"],
     ("src/skinny128-parallel.c", "    /* Validate the parameters */\n    if (!ecb || !ecb->ctx || (size % SKINNY128_BLOCK_SIZE) != 0)\n        return 0;\n    ks = ecb->ctx;\n\n    /* Process major blocks with the vectorized back end */\n    vtable = ecb->vtable;\n    if (vtable) {\n        size_t psize = ecb->parallel_size;\n        while (size >= psize) {\n            (*(vtable->decrypt))",
      "    /* Validate the parameters */\n    if (!ecb || !ecb->ctx)\n        return 0;\n    ks = ecb->ctx;\n\n    /* Process major blocks with the vectorized back end */\n    vtable = ecb->vtable;\n    if (vtable) {\n        size_t psize = ecb->parallel_size;\n        while (size >= psize) {\n            (*(vtable->decrypt))"))
seed(56, "mantis_set_key rejects rounds == 8 (valid call rejected)", ["C14.R5", "C14.R2", "C10.R1"],
     ("src/mantis-cipher.c", "            rounds > MANTIS_MAX_ROUNDS)", "            rounds >= MANTIS_MAX_ROUNDS)"))

seed(40, "cascade order swapped in skinny128_ctr_init (256-bit test before the 128-bit one)", ["C13.R1"],
     ("src/skinny128-ctr.c", "    if (_skinny_has_vec128())\n        vtable = &_skinny128_ctr_vec128;\n    if (_skinny_has_vec256())\n        vtable = &_skinny128_ctr_vec256;",
      "    if (_skinny_has_vec256())\n        vtable = &_skinny128_ctr_vec256;\n    if (_skinny_has_vec128())\n        vtable = &_skinny128_ctr_vec128;"))
seed(41, "-mavx2 added to COMMON_CFLAGS (every object may contain VEX code)", ["C13.R4"],
     ("options.mak", "COMMON_CFLAGS = -O3 -Wall -Wextra", "COMMON_CFLAGS = -O3 -Wall -Wextra -mavx2"))
seed(26, "parallel_size = 4*B kept when the vec256 vtable is chosen", ["C13.R6", "C07.R2"],
     ("src/skinny128-parallel.c", "        ecb->vtable = &skinny128_parallel_ecb_vec256;\n        ecb->parallel_size = 8 * SKINNY128_BLOCK_SIZE;", "        ecb->vtable = &skinny128_parallel_ecb_vec256;"))
seed(51, "D5 re-introduced: __cpuid(7) without sub-leaf", ["C13.R2"],
     ("src/skinny-internal.c", "    __cpuid_count(7, 0, eax, ebx, ecx, edx);", "    __cpuid(7, eax, ebx, ecx, edx);"))
seed(57, "OS-state test dropped from the AVX2 probe", ["C13.R2"],
     ("src/skinny-internal.c", "    if ((eax & 0x06) != 0x06)\n        return 0;   /* XMM and YMM state are not enabled in XCR0 */\n", ""))
seed(58, "mantis parallel init selects the vec128 table unconditionally", ["C13.R1"],
     ("src/mantis-parallel.c", "    if (_skinny_has_vec128())\n        ecb->vtable = &mantis_parallel_ecb_vec128;", "    ecb->vtable = &mantis_parallel_ecb_vec128;"))
seed(59, "skinny64 ctr init picks the vec128 table when the probe says no (inverted test)", ["C13.R1"],
     ("src/skinny64-ctr.c", "    if (_skinny_has_vec128())\n        vtable = &_skinny64_ctr_vec128;", "    if (!_skinny_has_vec128())\n        vtable = &_skinny64_ctr_vec128;"))
seed(60, "vec256 units lose -mavx2 (stub tables) while the probe still reports AVX2", ["C13.R3"],
     ("src/Makefile", "skinny128-ctr-vec256.o: skinny128-ctr-vec256.c ../include/skinny128-cipher.h \\\n                    skinny-internal.h skinny128-ctr-internal.h\n\t$(CC) $(VEC256_CFLAGS) $(CFLAGS) -c -o $@ $<",
      "skinny128-ctr-vec256.o: skinny128-ctr-vec256.c ../include/skinny128-cipher.h \\\n                    skinny-internal.h skinny128-ctr-internal.h\n\t$(CC) $(CFLAGS) -c -o $@ $<"))

seed(1, "table-lookup S-box byte in skinny128_ecb_encrypt (index from state)", ["C08.R2"],
     ("src/skinny128-cipher.c", "    /* Convert host-endian back into little-endian in the output buffer */\n    WRITE_WORD32(output, 0, state.row[0]);\n    WRITE_WORD32(output, 4, state.row[1]);\n    WRITE_WORD32(output, 8, state.row[2]);\n    WRITE_WORD32(output, 12, state.row[3]);\n}\n\nvoid skinny128_ecb_decrypt",
      "    /* Convert host-endian back into little-endian in the output buffer */\n    { static const uint8_t perm[4] = {0, 1, 2, 3}; state.row[0] ^= 0 * perm[state.row[1] & 3]; }\n    WRITE_WORD32(output, 0, state.row[0]);\n    WRITE_WORD32(output, 4, state.row[1]);\n    WRITE_WORD32(output, 8, state.row[2]);\n    WRITE_WORD32(output, 12, state.row[3]);\n}\n\nvoid skinny128_ecb_decrypt"))
seed(2, "early exit `if (!inc) break;` added to skinny128_inc_counter", ["C08.R1", "C05.R6"],
     ("src/skinny-internal.h", "        inc += counter[posn];\n        counter[posn] = (uint8_t)inc;\n        inc >>= 8;\n    }\n}\n\n/* Increment a 64-bit counter block in big-endian order */",
      "        inc += counter[posn];\n        counter[posn] = (uint8_t)inc;\n        inc >>= 8;\n        if (!inc)\n            break;\n    }\n}\n\n/* Increment a 64-bit counter block in big-endian order */"))
seed(3, "skinny_xor skips zero keystream bytes (data-dependent branch)", ["C08.R1"],
     ("src/skinny-internal.h", "        --size;\n        ((uint8_t *)output)[size] = ((const uint8_t *)input1)[size] ^\n                                    ((const uint8_t *)input2)[size];",
      "        --size;\n        if (((const uint8_t *)input2)[size] == 0 && output == input1)\n            continue;\n        ((uint8_t *)output)[size] = ((const uint8_t *)input1)[size] ^\n                                    ((const uint8_t *)input2)[size];"))
seed(4, "ctx->offset seeded from a key byte in skinny64_ctr_def_set_key", ["C08.R7", "C05.R1"],
     ("src/skinny64-ctr.c", "    if (!skinny64_set_key(&(ctx->kt.ks), key, size))\n        return 0;\n\n    /* Reset the keystream */\n    ctx->offset = SKINNY64_BLOCK_SIZE;",
      "    if (!skinny64_set_key(&(ctx->kt.ks), key, size))\n        return 0;\n\n    /* Reset the keystream */\n    ctx->offset = SKINNY64_BLOCK_SIZE + (((const unsigned char *)key)[0] & 0);"))
seed(61, "mantis set_key: the rotated-unpack loop exits early on a particular key byte pair (key-dependent branch)", ["C08.R1"],
     ("src/mantis-cipher.c", "    uint8_t carry = buf[MANTIS_BLOCK_SIZE - 1];\n    for (index = 0; index < MANTIS_BLOCK_SIZE; ++index) {",
      "    uint8_t carry = buf[MANTIS_BLOCK_SIZE - 1];\n    for (index = 0; index < MANTIS_BLOCK_SIZE && !(buf[index] == 0x5A && carry == 0xA5); ++index) {"))
seed(62, "vector S-box lane extracted with a data-dependent index in the vec128 CTR back end", ["C08.R2"],
     ("src/skinny128-ctr-vec128.c", "    /* Read the rows of all four counter blocks into memory */\n    row0 = input[0];",
      "    /* Read the rows of all four counter blocks into memory */\n    row0 = input[0];\n    row0[0] ^= 0 * row0[input[1][0] & 3];"))

seed(52, "D1 (narrowing half) re-introduced in skinny128_set_tk2: uint16_t word", ["C10.R4"],
     ("src/skinny128-cipher.c", "static void skinny128_set_tk2\n    (Skinny128Key_t *ks, const void *key, unsigned key_size)\n{\n    Skinny128Cells_t tk;\n    unsigned index;\n    uint32_t word;",
      "static void skinny128_set_tk2\n    (Skinny128Key_t *ks, const void *key, unsigned key_size)\n{\n    Skinny128Cells_t tk;\n    unsigned index;\n    uint16_t word;"))
seed(63, "zero fill of the short tweakey removed in skinny64_set_tk3", ["C10.R4", "C11.R1"],
     ("src/skinny64-cipher.c", "static void skinny64_set_tk3\n    (Skinny64Key_t *ks, const void *key, unsigned key_size)\n{\n    Skinny64Cells_t tk;\n    unsigned index;\n    uint16_t word;\n\n    /* Unpack the key and convert from little-endian to host-endian */\n    if (key_size >= SKINNY64_BLOCK_SIZE) {\n#if SKINNY_64BIT && SKINNY_LITTLE_ENDIAN\n        tk.llrow = READ_WORD64(key, 0);\n#elif SKINNY_LITTLE_ENDIAN\n        tk.lrow[0] = READ_WORD32(key, 0);\n        tk.lrow[1] = READ_WORD32(key, 4);\n#else\n        tk.row[0] = READ_WORD16(key, 0);\n        tk.row[1] = READ_WORD16(key, 2);\n        tk.row[2] = READ_WORD16(key, 4);\n        tk.row[3] = READ_WORD16(key, 6);\n#endif\n    } else {\n        /* Short key: the missing bytes are treated as zeroes */\n        memset(&tk, 0, sizeof(tk));",
      "static void skinny64_set_tk3\n    (Skinny64Key_t *ks, const void *key, unsigned key_size)\n{\n    Skinny64Cells_t tk;\n    unsigned index;\n    uint16_t word;\n\n    /* Unpack the key and convert from little-endian to host-endian */\n    if (key_size >= SKINNY64_BLOCK_SIZE) {\n#if SKINNY_64BIT && SKINNY_LITTLE_ENDIAN\n        tk.llrow = READ_WORD64(key, 0);\n#elif SKINNY_LITTLE_ENDIAN\n        tk.lrow[0] = READ_WORD32(key, 0);\n        tk.lrow[1] = READ_WORD32(key, 4);\n#else\n        tk.row[0] = READ_WORD16(key, 0);\n        tk.row[1] = READ_WORD16(key, 2);\n        tk.row[2] = READ_WORD16(key, 4);\n        tk.row[3] = READ_WORD16(key, 6);\n#endif\n    } else {"))
seed(34, "tweak zeroing removed from mantis_set_key", ["C11.R5"],
     ("src/mantis-cipher.c", "    /* Set up the default tweak of zero */\n#if SKINNY_64BIT\n    ks->tweak.llrow = 0;\n#else\n    ks->tweak.lrow[0] = 0;\n    ks->tweak.lrow[1] = 0;\n#endif\n\n    /* Ready to go */", "    /* Ready to go */"))
seed(35, "ecb->vtable = 0 removed from skinny64_parallel_ecb_init", ["C11.R4"],
     ("src/skinny64-parallel.c", "        return 0;\n    }\n    ecb->vtable = 0;\n    ecb->ctx = ctx;", "        return 0;\n    }\n    ecb->ctx = ctx;"))
seed(64, "rounds for 2-block Skinny-128 keys set to 40 instead of 48", ["C10.R5"],
     ("src/skinny128-cipher.c", "        } else if (key_size <= (2 * SKINNY128_BLOCK_SIZE)) {\n            ks->rounds = 48;", "        } else if (key_size <= (2 * SKINNY128_BLOCK_SIZE)) {\n            ks->rounds = 40;"))
seed(65, "skinny64 CTR set_key passes size - 1 to the core (off-by-one delegation)", ["C10.R2", "C10.R1"],
     ("src/skinny64-ctr.c", "    if (!skinny64_set_key(&(ctx->kt.ks), key, size))\n        return 0;\n\n    /* Reset the keystream */\n    ctx->offset = SKINNY64_BLOCK_SIZE;\n    return 1;\n}\n\nstatic int skinny64_ctr_def_set_tweaked_key",
      "    if (!skinny64_set_key(&(ctx->kt.ks), key, size > 24 ? 24 : size))\n        return 0;\n\n    /* Reset the keystream */\n    ctx->offset = SKINNY64_BLOCK_SIZE;\n    return 1;\n}\n\nstatic int skinny64_ctr_def_set_tweaked_key"))
seed(66, "decrypt loop walks the schedule of a different bound (rounds hard-coded to 56)", ["C11.R6", "C03.R2"],
     ("src/skinny128-cipher.c", "    schedule = &(ks->schedule[ks->rounds - 1]);\n    for (index = ks->rounds; index > 0; --index, --schedule) {", "    schedule = &(ks->schedule[SKINNY128_MAX_ROUNDS - 1]);\n    for (index = SKINNY128_MAX_ROUNDS; index > 0; --index, --schedule) {"))
seed(67, "tweaked key set path forgets the upper length bound in skinny128_set_tweaked_key", ["C10.R1", "C14.R2"],
     ("src/skinny128-cipher.c", "    if (!ks || !key || key_size < SKINNY128_BLOCK_SIZE ||\n            key_size > (SKINNY128_BLOCK_SIZE * 2)) {", "    if (!ks || !key || key_size < SKINNY128_BLOCK_SIZE ||\n            key_size > (SKINNY128_BLOCK_SIZE * 3)) {"))

S64V = "src/skinny64-ctr-vec128.c"
seed(18, "ctx->offset = BATCH removed from skinny64_ctr_vec128_set_tweak", ["C05.R1", "C04.R4"],
     (S64V, "    if (!skinny64_set_tweak(&(ctx->kt), tweak, tweak_size))\n        return 0;\n\n    /* Reset the keystream */\n    ctx->offset = SKINNY64_CTR_BLOCK_SIZE;\n    return 1;",
      "    if (!skinny64_set_tweak(&(ctx->kt), tweak, tweak_size))\n        return 0;\n\n    return 1;"))
seed(19, "ctx->offset = BATCH removed from mantis_ctr_def_init", ["C05.R2"],
     ("src/mantis-ctr.c", "    ctx->offset = MANTIS_BLOCK_SIZE;\n    ctr->ctx = ctx;\n    return 1;", "    ctr->ctx = ctx;\n    return 1;"))
seed(20, "lane 3 increment removed from the refill of skinny128_ctr_vec128_encrypt", ["C05.R3"],
     (V128, "            skinny128_ctr_increment(ctx->counter, 2, 4);\n            skinny128_ctr_increment(ctx->counter, 3, 4);\n\n            /* XOR", "            skinny128_ctr_increment(ctx->counter, 2, 4);\n\n            /* XOR"))
seed(21, "lane stagger (3,3) -> (3,2) in skinny128_ctr_vec128_set_counter", ["C05.R4"],
     (V128, "    skinny128_ctr_increment(ctx->counter, 3, 3);", "    skinny128_ctr_increment(ctx->counter, 3, 2);"))
seed(22, "ctx->offset = size removed from the partial path of skinny128_ctr_def_encrypt", ["C05.R5"],
     ("src/skinny128-ctr.c", "                skinny_xor(out, in, ctx->ecounter, size);\n                ctx->offset = size;\n                break;", "                skinny_xor(out, in, ctx->ecounter, size);\n                break;"))
seed(23, "counter loop posn > 8 instead of posn > 0 in skinny128_inc_counter", ["C05.R6"],
     ("src/skinny-internal.h", "    for (posn = 16; posn > 0; ) {", "    for (posn = 16; posn > 8; ) {"))
seed(68, "left-over path: offset = temp instead of offset += temp (mantis vec128)", ["C05.R5"],
     ("src/mantis-ctr-vec128.c", "            ctx->offset += temp;", "            ctx->offset = temp;"))
seed(69, "whole-batch xor of block 2 reads keystream block 3 (skinny128 vec128)", ["C05.R5", "C05.R7"],
     (V128, "                              ctx->ecounter + SKINNY128_BLOCK_SIZE * 2);", "                              ctx->ecounter + SKINNY128_BLOCK_SIZE * 3);"))
seed(70, "input cursor not advanced on the left-over path (skinny64 generic)", ["C05.R5"],
     ("src/skinny64-ctr.c", "            ctx->offset += temp;\n            out += temp;\n            in += temp;", "            ctx->offset += temp;\n            out += temp;"))
seed(71, "refill when offset > BATCH instead of >= (skinny64 vec128: reads one byte past the buffer)", ["C05.R5", "C05.R3", "C09.R3"],
     (S64V, "        if (ctx->offset >= SKINNY64_CTR_BLOCK_SIZE) {", "        if (ctx->offset > SKINNY64_CTR_BLOCK_SIZE) {"))
seed(72, "set_counter copies the short counter to the front (right padding) in skinny128_ctr_def", ["C05.R4"],
     ("src/skinny128-ctr.c", "        memset(ctx->counter, 0, SKINNY128_BLOCK_SIZE - size);\n        memcpy(ctx->counter + SKINNY128_BLOCK_SIZE - size, counter, size);", "        memcpy(ctx->counter, counter, size);"))
seed(73, "mantis vec128 refill encrypts under a stale copy: increments before the encryption", ["C05.R3"],
     ("src/mantis-ctr-vec128.c", "            mantis_ecb_encrypt_eight(ctx->ecounter, ctx->counter, &(ctx->ks));\n            mantis_ctr_increment(ctx->counter, 0, 8);", "            mantis_ctr_increment(ctx->counter, 0, 8);\n            mantis_ecb_encrypt_eight(ctx->ecounter, ctx->counter, &(ctx->ks));"))
seed(74, "vec256 refill advances lanes by 4 instead of 8", ["C05.R3"],
     ("src/skinny128-ctr-vec256.c", "            skinny128_ctr_increment(ctx->counter, 5, 8);", "            skinny128_ctr_increment(ctx->counter, 5, 4);"))
seed(75, "set_counter right-pads: memset all then memcpy to the front (skinny64 generic)", ["C05.R4"],
     ("src/skinny64-ctr.c", "        memset(ctx->counter, 0, SKINNY64_BLOCK_SIZE - size);\n        memcpy(ctx->counter + SKINNY64_BLOCK_SIZE - size, counter, size);", "        memset(ctx->counter, 0, SKINNY64_BLOCK_SIZE);\n        memcpy(ctx->counter, counter, size);"))

seed(24, "tail loop of skinny128_parallel_ecb_decrypt calls skinny128_ecb_encrypt", ["C07.R4", "C03.R1"],
     ("src/skinny128-parallel.c", "        skinny128_ecb_decrypt(output, input, ks);", "        skinny128_ecb_encrypt(output, input, ks);"))
seed(25, "tweak += MANTIS_BLOCK_SIZE removed from the Mantis tail loop", ["C07.R1"],
     ("src/mantis-parallel.c", "        input += MANTIS_BLOCK_SIZE;\n        tweak += MANTIS_BLOCK_SIZE;", "        input += MANTIS_BLOCK_SIZE;"))
seed(27, "READ_WORD32(input, 52)/(input, 36) swapped in the vec128 ECB load", ["C07.R3"],
     ("src/skinny128-parallel-vec128.c", "READ_WORD32(input, 36)", "READ_WORD32(input, 52)"))
seed(76, "vector loop of skinny64_parallel_ecb_encrypt advances input by BLOCK instead of psize", ["C07.R1"],
     ("src/skinny64-parallel.c", "            (*(vtable->encrypt))(output, input, ks);\n            output += psize;\n            input += psize;", "            (*(vtable->encrypt))(output, input, ks);\n            output += psize;\n            input += SKINNY64_BLOCK_SIZE;"))
seed(77, "mantis tail calls the stored-tweak function (ignores the tweak array)", ["C07.R1", "C07.R4"],
     ("src/mantis-parallel.c", "        mantis_ecb_crypt_tweaked(output, input, tweak, ks);", "        mantis_ecb_crypt(output, input, ks);"))
seed(78, "scalar tail loop condition size > BLOCK (last block dropped)", ["C07.R1"],
     ("src/skinny128-parallel.c", "    while (size >= SKINNY128_BLOCK_SIZE) {\n        skinny128_ecb_encrypt(output, input, ks);", "    while (size > SKINNY128_BLOCK_SIZE) {\n        skinny128_ecb_encrypt(output, input, ks);"))
seed(79, "vec256 encrypt: lanes of blocks 2 and 3 swapped in the de-interleaving store", ["C07.R3"],
     ("src/skinny128-parallel-vec256.c", "row0[2], row1[2], row2[2], row3[2]", "row0[3], row1[2], row2[2], row3[2]"))
seed(80, "byte-path variant (not compiled by default): vec128 store of word 52 writes row1[2] instead of row1[3]", ["C07.R3"],
     ("src/skinny128-parallel-vec128.c", "WRITE_WORD32(output, 52, row1[3]);", "WRITE_WORD32(output, 52, row1[2]);"))

seed(46, "mantis_swap_modes also zeroes the tweak", ["C03.R4"],
     ("src/mantis-cipher.c", "    /* Swap k0 with k0prime */\n    MantisCells_t tmp = ks->k0;", "    /* Swap k0 with k0prime */\n    MantisCells_t tmp = ks->k0;\n    ks->tweak.lrow[0] = 0; ks->tweak.lrow[1] = 0;"))
seed(81, "vec256 parallel table has encrypt in both slots (copy-paste)", ["C03.R1", "C07.R4"],
     ("src/skinny128-parallel.c", "static Skinny128ParallelECBVtable_t const skinny128_parallel_ecb_vec256 = {\n    _skinny128_parallel_encrypt_vec256,\n    _skinny128_parallel_decrypt_vec256\n};", "static Skinny128ParallelECBVtable_t const skinny128_parallel_ecb_vec256 = {\n    _skinny128_parallel_encrypt_vec256,\n    _skinny128_parallel_encrypt_vec256\n};"))
seed(82, "skinny64 vec128 decrypt starts at schedule[rounds] (off by one)", ["C03.R2"],
     ("src/skinny64-parallel-vec128.c", "ks->schedule[ks->rounds - 1]", "ks->schedule[ks->rounds]"))
seed(83, "mantis_parallel_ecb_swap_modes switches a copy (no effect on the object)", ["C03.R4"],
     ("src/mantis-parallel.c", "    ks = ecb->ctx;\n    mantis_swap_modes(ks);", "    { MantisKey_t copy = *(MantisKey_t *)(ecb->ctx); ks = &copy; }\n    mantis_swap_modes(ks);"))
seed(84, "mantis_swap_modes forgets to xor alpha into k1", ["C03.R4"],
     ("src/mantis-cipher.c", "    /* XOR k1 with the alpha constant */\n#if RC_ROW_SIZE == 64\n    ks->k1.llrow ^= ALPHA;\n#elif", "    /* XOR k1 with the alpha constant */\n#if RC_ROW_SIZE == 64\n    (void)0;\n#elif"))

seed(86, "skinny64 vec128 CTR encrypt drops the !input check (generic keeps it)", ["C06.R1", "C14.R2"],
     (S64V, "    /* Validate the parameters */\n    if (!output || !input)\n        return 0;\n    ctx = ctr->ctx;\n    if (!ctx)\n        return 0;\n\n    /* Encrypt the input in CTR mode to create the output */", "    /* Validate the parameters */\n    if (!output)\n        return 0;\n    ctx = ctr->ctx;\n    if (!ctx)\n        return 0;\n\n    /* Encrypt the input in CTR mode to create the output */"))
seed(87, "skinny128 vec128 CTR keystream: words of blocks 0 and 1 swapped in the de-interleaving store", ["C06.R3"],
     (V128, "        (SkinnyVector4x32_t){row0[0], row1[0], row2[0], row3[0]};", "        (SkinnyVector4x32_t){row0[1], row1[0], row2[0], row3[0]};"))
seed(88, "mantis vec128 set_counter accepts size up to 16 (generic rejects > 8)", ["C06.R1", "C14.R2"],
     ("src/mantis-ctr-vec128.c", "    if (size > MANTIS_BLOCK_SIZE)\n        return 0;\n    ctx = ctr->ctx;", "    if (size > MANTIS_KEY_SIZE)\n        return 0;\n    ctx = ctr->ctx;"))
seed(89, "vec256 set_key also resets the tweak field (state the generic back end keeps)", ["C06.R1"],
     ("src/skinny128-ctr-vec256.c", "    if (!skinny128_set_key(&(ctx->kt.ks), key, size))\n        return 0;\n\n    /* Reset the keystream */", "    if (!skinny128_set_key(&(ctx->kt.ks), key, size))\n        return 0;\n    memset(ctx->kt.tweak, 0, sizeof(ctx->kt.tweak));\n\n    /* Reset the keystream */"))

seed(36, "memset(ks->tweak + n, 0, ...) removed from skinny128_set_tweak", ["C04.R3"],
     ("src/skinny128-cipher.c", "        memcpy(ks->tweak, tweak, tweak_size);\n        memset(ks->tweak + tweak_size, 0, sizeof(ks->tweak) - tweak_size);", "        memcpy(ks->tweak, tweak, tweak_size);"))
seed(37, "new tweak never stored in skinny64_set_tweak (only xored in)", ["C04.R1", "C04.R3"],
     ("src/skinny64-cipher.c", "    if (tweak) {\n        memcpy(ks->tweak, tweak, tweak_size);\n        memset(ks->tweak + tweak_size, 0, sizeof(ks->tweak) - tweak_size);\n    } else {\n        memset(ks->tweak, 0, sizeof(ks->tweak));\n    }\n\n    /* XOR the original tweak out of the key schedule */\n    skinny64_xor_tk1(&(ks->ks), tk_prev);\n\n    /* XOR the new tweak into the key schedule */\n    skinny64_xor_tk1(&(ks->ks), ks->tweak);",
      "    { uint8_t tk_new[SKINNY64_BLOCK_SIZE]; memset(tk_new, 0, sizeof(tk_new)); if (tweak) memcpy(tk_new, tweak, tweak_size);\n\n    /* XOR the original tweak out of the key schedule */\n    skinny64_xor_tk1(&(ks->ks), tk_prev);\n\n    /* XOR the new tweak into the key schedule */\n    skinny64_xor_tk1(&(ks->ks), tk_new); }"))
seed(38, "tk_prev copied after ks->tweak is overwritten (skinny128)", ["C04.R1"],
     ("src/skinny128-cipher.c", "    memcpy(tk_prev, ks->tweak, sizeof(tk_prev));\n    if (tweak) {\n        memcpy(ks->tweak, tweak, tweak_size);\n        memset(ks->tweak + tweak_size, 0, sizeof(ks->tweak) - tweak_size);\n    } else {\n        memset(ks->tweak, 0, sizeof(ks->tweak));\n    }\n",
      "    if (tweak) {\n        memcpy(ks->tweak, tweak, tweak_size);\n        memset(ks->tweak + tweak_size, 0, sizeof(ks->tweak) - tweak_size);\n    } else {\n        memset(ks->tweak, 0, sizeof(ks->tweak));\n    }\n    memcpy(tk_prev, ks->tweak, sizeof(tk_prev));\n"))
seed(39, "set_tk1(..., 0) on the tweaked path of skinny128_set_key_inner (domain bit lost)", ["C04.R2"],
     ("src/skinny128-cipher.c", "            ks->rounds = 56;\n            skinny128_set_tk1(ks, tweak, SKINNY128_BLOCK_SIZE, 1);", "            ks->rounds = 56;\n            skinny128_set_tk1(ks, tweak, SKINNY128_BLOCK_SIZE, 0);"))
seed(90, "skinny64_set_tweaked_key forgets to zero the stored tweak", ["C04.R2", "C11.R5"],
     ("src/skinny64-cipher.c", "    /* Set the initial tweak to all-zeroes */\n    memset(ks->tweak, 0, sizeof(ks->tweak));\n", ""))
seed(91, "vec256 CTR set_tweak applies the tweak with a fixed length of 16", ["C04.R4"],
     ("src/skinny128-ctr-vec256.c", "    if (!skinny128_set_tweak(&(ctx->kt), tweak, tweak_size))", "    if (!skinny128_set_tweak(&(ctx->kt), tweak, tweak_size ? SKINNY128_BLOCK_SIZE : 0))"))
seed(92, "xor-out pass skipped when the old tweak was never set (first-change shortcut via rounds parity)", ["C04.R1"],
     ("src/skinny128-cipher.c", "    /* XOR the original tweak out of the key schedule */\n    skinny128_xor_tk1(&(ks->ks), tk_prev);\n", "    /* XOR the original tweak out of the key schedule */\n    skinny128_xor_tk1(&(ks->ks), ks->tweak);\n"))
seed(93, "tweaked 1-block key uses 56 rounds instead of 48 (skinny128)", ["C04.R5", "C10.R5"],
     ("src/skinny128-cipher.c", "        if (key_size == SKINNY128_BLOCK_SIZE) {\n            ks->rounds = 48;\n            skinny128_set_tk1(ks, tweak, SKINNY128_BLOCK_SIZE, 1);", "        if (key_size == SKINNY128_BLOCK_SIZE) {\n            ks->rounds = 56;\n            skinny128_set_tk1(ks, tweak, SKINNY128_BLOCK_SIZE, 1);"))

seed(28, "READ_WORD32(input, 60) -> (input, 61) in the vec128 ECB load (reads one byte past the batch)", ["C09.R1"],
     ("src/skinny128-parallel-vec128.c", "READ_WORD32(input, 60)", "READ_WORD32(input, 61)"))
seed(29, "SkinnyVector4x32U_t -> SkinnyVector4x32_t in a vector output store (aligned move on caller memory)", ["C09.R4"],
     ("src/skinny128-parallel-vec128.c", "    *((SkinnyVector4x32U_t *)output) =", "    *((SkinnyVector4x32_t *)output) ="))
seed(30, "first output word of skinny128_ecb_encrypt stored before the last input row is loaded", ["C09.R5"],
     ("src/skinny128-cipher.c", "    state.row[2] = READ_WORD32(input, 8);\n    state.row[3] = READ_WORD32(input, 12);\n\n    /* Perform all encryption rounds */", "    state.row[2] = READ_WORD32(input, 8);\n    WRITE_WORD32(output, 0, state.row[0]);\n    state.row[3] = READ_WORD32(input, 12);\n\n    /* Perform all encryption rounds */"))
seed(31, "memcpy(block + B - size, counter, B) in skinny128 vec128 set_counter (over-read and overflow)", ["C09.R2"],
     (V128, "        memcpy(block + SKINNY128_BLOCK_SIZE - size, counter, size);", "        memcpy(block + SKINNY128_BLOCK_SIZE - size, counter, SKINNY128_BLOCK_SIZE);"))
seed(32, "skinny_calloc -> calloc in skinny128_ctr_vec256_init (32-byte aligned context from a 16-byte allocator)", ["C09.R7"],
     ("src/skinny128-ctr-vec256.c", "    if ((ctx = skinny_calloc(sizeof(Skinny128CTRVec256Ctx_t), &base_ptr)) == NULL)\n        return 0;", "    if ((ctx = calloc(1, sizeof(Skinny128CTRVec256Ctx_t))) == NULL)\n        return 0;\n    base_ptr = ctx;"))
seed(94, "partial key loader reads the 16-bit word without the (index + 2) <= key_size guard (skinny64_set_tk2)", ["C09.R2"],
     ("src/skinny64-cipher.c", "            if ((index + 2) <= key_size) {\n                word = READ_WORD16(key, index);\n            } else {\n                word = READ_BYTE(key, index);\n            }\n            tk.row[index / 2] = word;\n        }\n    }\n\n    /* Generate the key schedule words for all rounds */\n    for (index = 0; index < ks->rounds; ++index) {\n        /* Determine the subkey to use at this point in the key schedule */\n        ks->schedule[index].lrow ^= tk.lrow[0];\n\n        /* Permute TK2 for the next round */",
      "            word = READ_WORD16(key, index);\n            tk.row[index / 2] = word;\n        }\n    }\n\n    /* Generate the key schedule words for all rounds */\n    for (index = 0; index < ks->rounds; ++index) {\n        /* Determine the subkey to use at this point in the key schedule */\n        ks->schedule[index].lrow ^= tk.lrow[0];\n\n        /* Permute TK2 for the next round */"))
seed(95, "mantis_ecb_crypt_tweaked stores the first output half before reading the tweak", ["C09.R5"],
     ("src/mantis-cipher.c", "void mantis_ecb_crypt_tweaked\n    (void *output, const void *input, const void *tweak, const MantisKey_t *ks)\n{", "void mantis_ecb_crypt_tweaked\n    (void *output, const void *input, const void *tweak, const MantisKey_t *ks)\n{\n    WRITE_WORD32(output, 0, READ_WORD32(input, 0));"))
seed(96, "set_tweak copies sizeof(tweak field) bytes from a short caller tweak (over-read)", ["C09.R2", "C04.R3"],
     ("src/skinny64-cipher.c", "        memcpy(ks->tweak, tweak, tweak_size);\n        memset(ks->tweak + tweak_size, 0, sizeof(ks->tweak) - tweak_size);", "        memcpy(ks->tweak, tweak, sizeof(ks->tweak));"))

seed(43, "row[1] update dropped in the 32-bit #else of skinny128_set_tk2", ["C12.R2"],
     ("src/skinny128-cipher.c", "        ks->schedule[index].row[0] ^= tk.row[0];\n        ks->schedule[index].row[1] ^= tk.row[1];\n#endif\n\n        /* Permute TK2 for the next round */", "        ks->schedule[index].row[0] ^= tk.row[0];\n#endif\n\n        /* Permute TK2 for the next round */"))
seed(97, "32-bit #else of the vec128 unit fails to compile (typo in a path the default build never sees)", ["C12.R1"],
     ("src/skinny128-ctr-vec128.c", "        skinny128_sbox_two(&row0, &row1);\n        skinny128_sbox_two(&row2, &row3);", "        skinny128_sbox_two(&row0, &row1);\n        skinny128_sbox_two(&row2, &row3, 0);"))
seed(98, "byte-order-neutral mantis_unpack_block (#else) reads 6 bytes instead of 8", ["C12.R2", "C09.R1"],
     ("src/mantis-cipher.c", "    block->row[3] = READ_WORD16(buf, offset + 6);", "    block->row[3] = block->row[2];"))
seed(99, "unaligned-off path of skinny128_xor loops over 8 bytes instead of 16", ["C12.R2"],
     ("src/skinny-internal.h", "    for (posn = 0; posn < 16; ++posn) {", "    for (posn = 0; posn < 8; ++posn) {"))
seed(100, "32-bit word path of skinny64 set_tweak adds a length restriction (tweak_size < 4 rejected) absent from the 64-bit path", ["C12.R2", "C14.R5"],
     ("src/skinny64-cipher.c", "    if (!ks || tweak_size < 1 || tweak_size > SKINNY64_BLOCK_SIZE) {\n        return 0;\n    }\n\n    /* Read the new tweak value and swap with the original */", "    if (!ks || tweak_size < 1 || tweak_size > SKINNY64_BLOCK_SIZE) {\n        return 0;\n    }\n#if !SKINNY_64BIT\n    if (tweak_size < 4)\n        return 0;\n#endif\n\n    /* Read the new tweak value and swap with the original */"))

seed(44, "mask typo in the 32-bit #else of skinny128_permute_tk", ["C12.R3"],
     ("src/skinny128-cipher.c", "    tk->row[0] = ((row2 >>  8) & 0x000000FFU) |", "    tk->row[0] = ((row2 >>  8) & 0x0000FF00U) |"))
seed(45, "mask typo in the vector copy of mantis_shift_rows_inverse (parallel vec128): two cells swapped", ["C06.R4", "C03.R3"],
     ("src/mantis-parallel-vec128.c", "    state->row[2] = ((row0 <<  8) & 0x0F00U) |\n                    ((row1 <<  8) & 0xF000U) |\n                    ((row2 >>  4) & 0x00F0U) |\n                    ((row3 >> 12) & 0x000FU);\n    state->row[3] = ((row0 >>  8) & 0x000FU) |\n                    ((row1 >>  8) & 0x00F0U) |\n                    ((row2 << 12) & 0xF000U) |\n                    ((row3 <<  4) & 0x0F00U);\n}\n\nSTATIC_INLINE void mantis_mix_columns",
      "    state->row[2] = ((row0 <<  8) & 0xF000U) |\n                    ((row1 <<  8) & 0x0F00U) |\n                    ((row2 >>  4) & 0x00F0U) |\n                    ((row3 >> 12) & 0x000FU);\n    state->row[3] = ((row0 >>  8) & 0x000FU) |\n                    ((row1 >>  8) & 0x00F0U) |\n                    ((row2 << 12) & 0xF000U) |\n                    ((row3 <<  4) & 0x0F00U);\n}\n\nSTATIC_INLINE void mantis_mix_columns"))
seed(101, "skinny64_permute_tk: shift typo in the byte-order-neutral #else path (a cell lands in the wrong position)", ["C12.R3"],
     ("src/skinny64-cipher.c", "    tk->row[1] = ((row2 >> 8) & 0x00F0U) |", "    tk->row[1] = ((row2 >> 4) & 0x00F0U) |"))
seed(102, "mantis_update_tweak_inverse (scalar): mask/shift typo, h' no longer inverts h (the 4 published vectors use one tweak)", ["C03.R3", "C06.R4"],
     ("src/mantis-cipher.c", "    tweak->row[3] =  (row0        & 0xFF00U) |\n                    ((row2 <<  4) & 0x00F0U) |\n                    ((row2 >> 12) & 0x000FU);", "    tweak->row[3] =  (row0        & 0xFF00U) |\n                    ((row2 <<  4) & 0x00F0U) |\n                    ((row2 >>  8) & 0x000FU);"))

# ---- E10 (GF(2) affine maps of the round functions)
seed(110, "vec128 parallel ENCRYPT only: ShiftRows rotates row1 by 16 instead of 8 (never reached by the tests on an AVX2 host)", ["C03.R6", "C06.R5", "C07.R6"],
     ("src/skinny128-parallel-vec128.c", "        row1 = skinny128_rotate_right(row1, 8);\n        row2 = skinny128_rotate_right(row2, 16);\n        row3 = skinny128_rotate_right(row3, 24);", "        row1 = skinny128_rotate_right(row1, 16);\n        row2 = skinny128_rotate_right(row2, 16);\n        row3 = skinny128_rotate_right(row3, 24);"))
seed(111, "CTR vec128 batch encryptor: MixColumns xors row3 instead of row2 into row1 (never reached by the tests on an AVX2 host)", ["C06.R5"],
     ("src/skinny128-ctr-vec128.c", "        row1 ^= row2;\n        row2 ^= row0;", "        row1 ^= row3;\n        row2 ^= row0;"))
seed(112, "32-bit word path of the scalar SKINNY-128 encrypt puts the round constant 0x02 into row 1 (only in the non-default configuration)", ["C12.R5", "C03.R6"],
     ("src/skinny128-cipher.c", "        state.row[0] ^= schedule->row[0];\n        state.row[1] ^= schedule->row[1];\n        state.row[2] ^= 0x02;\n#endif\n\n        /* Shift the rows */", "        state.row[0] ^= schedule->row[0];\n        state.row[1] ^= schedule->row[1];\n        state.row[1] ^= 0x02;\n#endif\n\n        /* Shift the rows */"))
seed(113, "SKINNY-64 parallel vec128 decrypt: inverse MixColumns forgets the row0 term of row2", ["C03.R6", "C06.R5"],
     ("src/skinny64-parallel-vec128.c", "        row2 = temp ^ row0;", "        row2 = temp;"))
seed(114, "32-bit skinny128_LFSR3: feedback tap (x << 1) replaced by (x << 2) (value change in a path the shipped build never compiles)", ["C12.R6"],
     ("src/skinny128-cipher.c", "    return ((x >> 1) & 0x7F7F7F7FU) ^ (((x << 7) ^ (x << 1)) & 0x80808080U);", "    return ((x >> 1) & 0x7F7F7F7FU) ^ (((x << 7) ^ (x << 2)) & 0x80808080U);"))
seed(115, "skinny128_xor_tk1 xors tk.row[1] into both schedule words in the 32-bit path", ["C12.R6", "C04.R1"],
     ("src/skinny128-cipher.c", "        ks->schedule[index].row[0] ^= tk.row[0];\n        ks->schedule[index].row[1] ^= tk.row[1];\n#endif\n\n        /* Permute TK1 for the next round */\n        skinny128_permute_tk(&tk);\n    }\n}\n",
      "        ks->schedule[index].row[0] ^= tk.row[1];\n        ks->schedule[index].row[1] ^= tk.row[1];\n#endif\n\n        /* Permute TK1 for the next round */\n        skinny128_permute_tk(&tk);\n    }\n}\n"))
seed(116, "Mantis parallel vec128: the backward rounds call mantis_shift_rows instead of mantis_shift_rows_inverse", ["C03.R7"],
     ("src/mantis-parallel-vec128.c", "        mantis_shift_rows_inverse(&state);", "        mantis_shift_rows(&state);"))
seed(117, "scalar Mantis, 32-bit word path only: the backward rounds forget the tweak in the second half of the state", ["C03.R7"],
     ("src/mantis-cipher.c", "        state.lrow[0] ^= k1.lrow[0] ^ tweak.lrow[0];\n        state.lrow[1] ^= k1.lrow[1] ^ tweak.lrow[1];\n#endif\n\n        /* Add the round constant */\n#if RC_ROW_SIZE == 64\n        --r;", "        state.lrow[0] ^= k1.lrow[0] ^ tweak.lrow[0];\n        state.lrow[1] ^= k1.lrow[1];\n#endif\n\n        /* Add the round constant */\n#if RC_ROW_SIZE == 64\n        --r;"))
seed(118, "skinny128 parallel vec128: one step of row 3 in the interleaved four-way S-box reads row 4", ["C03.R8"],
     ("src/skinny128-parallel-vec128.c", "    x3 ^= ((~((x3 >> 2) | (x3 >> 3))) & 0x11111111U);", "    x3 ^= ((~((x3 >> 2) | (x4 >> 3))) & 0x11111111U);"))
seed(119, "skinny64 parallel vec128: row 0 'rotated' by 0 for symmetry - x << 16 on 16-bit lanes (GCC keeps x, Clang -O2 folds to poison)", ["C12.R8"],
     ("src/skinny64-parallel-vec128.c", "        row1 = skinny64_rotate_right(row1, 4);", "        row0 = skinny64_rotate_right(row0, 0);\n        row1 = skinny64_rotate_right(row1, 4);"))
