"""Small linear-arithmetic prover over linear forms (initflow lf = (const, ((atom, coef), ...))).

prove(goal, constraints): True when  goal >= 0  follows from  c >= 0 for every c in constraints, decided by
Fourier-Motzkin elimination over the rationals on  constraints + (-goal - 1 >= 0)  (infeasible => proved; sound for
integers).  defs(f, E, atoms) adds the defining inequalities of division / remainder / mask / shift instructions:
    q = x udiv c   :  x - c*q >= 0,  c*q + c-1 - x >= 0
    r = x urem c   :  r >= 0, c-1 - r >= 0, and x = c*(x udiv c) + r when that quotient also occurs
    x & (2^k - 1) is x urem 2^k;  x >> k is x udiv 2^k
and every atom is an unsigned quantity (>= 0).  No unsigned wrap-around is modelled: callers use it for offsets and
lengths that the surrounding rules bound separately."""
from fractions import Fraction

from .initflow import lf_add, lf_const, lf_scale, lf_is_const


def _vec(l):
    d = {a: Fraction(k) for a, k in l[1]}
    d[None] = Fraction(l[0])
    return d


def fm_infeasible(cons, limit=4000):
    """cons: list of dicts atom->coef (None = constant) meaning sum >= 0.  True when no rational solution exists."""
    rows = [dict(c) for c in cons]
    atoms = set()
    for r in rows:
        atoms |= {a for a in r if a is not None}
    for a in sorted(atoms, key=repr):
        pos = [r for r in rows if r.get(a, 0) > 0]
        neg = [r for r in rows if r.get(a, 0) < 0]
        rest = [r for r in rows if r.get(a, 0) == 0]
        new = rest
        for p in pos:
            for n in neg:
                kp, kn = p[a], -n[a]
                row = {}
                for key in set(p) | set(n):
                    v = p.get(key, 0) * kn + n.get(key, 0) * kp
                    if v != 0 or key is None:
                        row[key] = v
                row.pop(a, None)
                new.append(row)
                if len(new) > limit:
                    return False
        rows = new
    for r in rows:
        if all(k is None for k in r) or not r:
            if r.get(None, 0) < 0:
                return True
        elif all(v == 0 for k, v in r.items() if k is not None) and r.get(None, 0) < 0:
            return True
    return False


def prove(goal, constraints):
    if goal is None:
        return False
    neg = lf_add(lf_scale(goal, -1), lf_const(1), -1)      # -goal - 1 >= 0
    cons = [_vec(c) for c in constraints if c is not None] + [_vec(neg)]
    return fm_infeasible(cons)


def fact_forms(p, x, y):
    """linear forms >= 0 implied by  x p y  (unsigned, no wrap)."""
    if x is None or y is None:
        return []
    d = lf_add(x, y, -1)
    e = lf_add(y, x, -1)
    if p in ("ult", "slt"):
        return [lf_add(e, lf_const(1), -1)]
    if p in ("ule", "sle"):
        return [e]
    if p in ("ugt", "sgt"):
        return [lf_add(d, lf_const(1), -1)]
    if p in ("uge", "sge"):
        return [d]
    if p == "eq":
        return [d, e]
    if p == "ne" and lf_is_const(y) and y[0] == 0:
        return [lf_add(x, lf_const(1), -1)]
    return []


def divlike(op, cst):
    """(kind, c) for an instruction opcode / constant that is a division or remainder by a constant."""
    if op in ("udiv", "urem") and cst >= 1:
        return op, cst
    if op == "lshr":
        return "udiv", 1 << cst
    if op == "and" and (cst + 1) & cst == 0:
        return "urem", cst + 1
    return None


def canon(f, lf_of, l, depth=0):
    """replace instruction atoms that are x udiv c / x urem c / x >> k / x & (2^k-1) by the canonical atom
    ('dv', kind, canonical operand form, c), so that the same quantity has one name however it was reached."""
    if l is None or depth > 4:
        return l
    out = lf_const(l[0])
    for (a, k) in l[1]:
        r = None
        if a[0] == "i" and len(a) == 2 and a[1] in f.insts:
            i = f.insts[a[1]]
            if len(i["ops"]) == 2 and i["ops"][1][0] == "c":
                dk = divlike(i["op"], int(i["ops"][1][1]))
                if dk:
                    x = canon(f, lf_of, lf_of(i["ops"][0]), depth + 1)
                    if x is not None:
                        r = (0, ((("dv", dk[0], x, dk[1]), 1),))
        out = lf_add(out, lf_scale(r if r is not None else (0, ((a, 1),)), k))
    return out


def defs(forms, depth=3):
    """defining inequalities of the ('dv', kind, x, c) atoms that occur in `forms` (closed under their operands);
    every atom is unsigned."""
    out = []
    seen = set()
    work = list(forms)
    quot = {}
    rems = []
    for _ in range(depth):
        atoms = set()
        for l in work:
            if l is None:
                continue
            for (a, k) in l[1]:
                if a not in seen:
                    atoms.add(a)
        work = []
        for a in sorted(atoms, key=repr):
            seen.add(a)
            me = (0, ((a, 1),))
            out.append(me)          # unsigned
            if a[0] != "dv":
                continue
            kind, x, c = a[1], a[2], a[3]
            if kind == "udiv":
                out.append(lf_add(x, lf_scale(me, c), -1))                                   # x - c*q >= 0
                out.append(lf_add(lf_add(lf_scale(me, c), lf_const(c - 1)), x, -1))          # c*q + c-1 - x >= 0
                quot[(x, c)] = me
            else:
                out.append(lf_add(lf_const(c - 1), me, -1))                                  # r <= c-1
                rems.append((x, c, me))
            work.append(x)
    for (x, c, r) in rems:
        q = quot.get((x, c))
        if q is None:
            # introduce the quotient: x = c*q + r with q >= 0
            q = (0, ((("dv", "udiv", x, c), 1),))
            out.append(q)
        s = lf_add(lf_scale(q, c), r)
        out.append(lf_add(x, s, -1))
        out.append(lf_add(s, x, -1))
    return out
