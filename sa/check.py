"""CLI:  python3 -m sa.check <ID> [--tier quick|thorough]

Decides one property by static analysis of /repo's current working tree.
Exit 0: every obligation discharged (known findings are printed, not fatal);
exit 1: `VIOLATION property=<id> replay=<path>`; exit 2: analysis broken
(vanished anchor, instance floor, unmodelled shape, fixture not flagged)."""
import argparse
import importlib
import os
import sys
import traceback

from .build import Workspace, AnalysisBroken, REPO, all_configs, covering_configs, config_name, hook_present
from .ir import Program
from .summary import Analyzer
from .report import Report
from .api import public_api

VERIF = os.path.dirname(os.path.dirname(os.path.abspath(__file__)))
FIXDIR = os.path.join(VERIF, "fixtures")

TITLES = {}


class Ctx:
    def __init__(self, tier):
        self.tier = tier
        self.ws = Workspace()
        self._prog = {}
        self._an = {}
        self._api = None

    @property
    def api(self):
        if self._api is None:
            self._api = public_api()
        return self._api

    def prog(self, cfg=None, shape="O0"):
        k = (config_name(cfg), shape)
        if k not in self._prog:
            self._prog[k] = Program(self.ws.facts(cfg, shape), "%s/%s" % k)
        return self._prog[k]

    def an(self, cfg=None):
        k = config_name(cfg)
        if k not in self._an:
            self._an[k] = Analyzer(self.prog(cfg, "O0"))
        return self._an[k]

    def release(self, cfg=None):
        k = config_name(cfg)
        self._an.pop(k, None)
        for s in ("O0", "O0c", "ship", "shipinl", "raw"):
            self._prog.pop((k, s), None)
            self.ws.drop(cfg, s)

    def configs(self):
        """configurations to analyse in this tier: None = shipped build.
        quick: shipped + a pairwise covering array of the five switches (every pair of switch values
        occurs together at least once, so every #if/#elif/#else arm guarded by at most two switches is
        compiled in some configuration); thorough: all 32 combinations."""
        if not hook_present():
            return [None]
        if self.tier != "thorough":
            return [None] + covering_configs()
        return [None] + all_configs()

    def fixture(self, name, shape="O0", flags=()):
        """Program for one fixture translation unit (never part of the verdict)."""
        import json
        import subprocess
        import tempfile
        from .build import CLANG, OPT, IRFACTS
        src = os.path.join(FIXDIR, name)
        if not os.path.exists(src):
            raise AnalysisBroken("fixture %s missing" % name)
        d = tempfile.mkdtemp(prefix="skvfx-", dir=self.ws.tmp)
        base = os.path.join(d, "fx")
        inc = ["-I" + os.path.join(REPO, "include"), "-I" + os.path.join(REPO, "src")]
        if shape == "raw":
            cmd = [CLANG, "-std=c99"] + inc + list(flags) + ["-O0", "-g", "-fno-discard-value-names", "-S", "-emit-llvm", src, "-o", base + ".ll", "-w"]
            p = subprocess.run(cmd, capture_output=True, text=True)
        elif shape == "O0":
            cmd = [CLANG, "-std=c99"] + inc + list(flags) + ["-O0", "-Xclang", "-disable-O0-optnone", "-g",
                                                              "-fno-discard-value-names", "-S", "-emit-llvm", src, "-o", base + ".raw.ll", "-w"]
            p = subprocess.run(cmd, capture_output=True, text=True)
            if p.returncode:
                raise AnalysisBroken("fixture %s does not compile: %s" % (name, p.stderr[-300:]))
            # same normalisation as the library units (the fixtures include the repository's headers)
            from .build import IRSPEC
            src_ll = base + ".raw.ll"
            for rnd in range(3):
                p = subprocess.run([IRSPEC, src_ll, base + ".spec.ll", "-nounroll"], capture_output=True, text=True)
                if p.returncode:
                    raise AnalysisBroken("irspec failed on fixture %s: %s" % (name, p.stderr[-200:]))
                os.replace(base + ".spec.ll", base + ".spec0.ll")
                src_ll = base + ".spec0.ll"
                if not any(l.startswith(("inline ", "thread ")) for l in p.stderr.splitlines()):
                    break
            p = subprocess.run([IRSPEC, src_ll, base + ".spec.ll"], capture_output=True, text=True)
            if p.returncode:
                raise AnalysisBroken("irspec failed on fixture %s: %s" % (name, p.stderr[-200:]))
            p = subprocess.run([OPT, "-passes=mem2reg", "-S", base + ".spec.ll", "-o", base + ".ll"], capture_output=True, text=True)
        else:
            cmd = [CLANG, "-std=c99"] + inc + list(flags) + ["-O3", "-g", "-fno-discard-value-names", "-S", "-emit-llvm", src, "-o", base + ".ll", "-w"]
            p = subprocess.run(cmd, capture_output=True, text=True)
        if p.returncode:
            raise AnalysisBroken("fixture %s does not compile: %s" % (name, p.stderr[-300:]))
        p = subprocess.run([IRFACTS, base + ".ll"], capture_output=True, text=True)
        if p.returncode:
            raise AnalysisBroken("irfacts failed on fixture %s" % name)
        unit = os.path.splitext(name)[0]
        return Program({unit: json.loads(p.stdout)}, "fixture:" + name)


def main(argv=None):
    ap = argparse.ArgumentParser()
    ap.add_argument("pid")
    ap.add_argument("--tier", default=os.environ.get("VERIF_TIER", "quick"))
    a = ap.parse_args(argv)
    pid = a.pid.upper()
    tier = "thorough" if a.tier.startswith("t") else "quick"
    try:
        mod = importlib.import_module("sa.rules." + pid.lower())
    except ImportError as e:
        print("ANALYSIS-BROKEN property=%s: no rule module (%s)" % (pid, e))
        return 2
    rep = Report(pid, tier, getattr(mod, "TITLE", ""))
    try:
        ctx = Ctx(tier)
        rep.analysed["units"] = [u["unit"] for u in ctx.ws.units]
        rep.analysed["source_digest"] = ctx.ws.digest
        mod.run(ctx, rep)
        rep.analysed["specialised_helpers"] = sorted(set(ctx.ws.spec_log))
    except AnalysisBroken as e:
        rep.inconclusive(pid + ".engine", "analysis", "", str(e))
    except Exception:
        rep.inconclusive(pid + ".engine", "analysis", "", "internal error: " + traceback.format_exc()[-1500:])
    return rep.finish()


if __name__ == "__main__":
    sys.exit(main())
