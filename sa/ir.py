"""E2 (part 1): program model over irfacts JSON — functions, CFG, dominators, call
resolution (direct, cross-unit, and through the constant vtables)."""
import re
from collections import defaultdict

from .build import AnalysisBroken

CASTS = {"bitcast", "addrspacecast"}
INTCASTS = {"zext", "sext", "trunc"}


class Func:
    def __init__(self, unit, d, prog):
        self.unit = unit
        self.prog = prog
        self.name = d["name"]
        self.d = d
        self.internal = d["internal"]
        self.decl = d["decl"]
        self.ret = d["ret"]
        self.params = d["params"]
        self.file = d.get("file", "")
        self.line = d.get("line", 0)
        self.ctypes = d.get("ctypes", [])
        self.blocks = d["blocks"]
        self.insts = {}
        self.bb_of = {}
        self.bbmap = {}
        self.order = []
        for b in self.blocks:
            self.bbmap[b["name"]] = b
            self.order.append(b["name"])
            for i in b["insts"]:
                self.insts[i["id"]] = i
                self.bb_of[i["id"]] = b["name"]
        self.succs = {}
        self.preds = defaultdict(list)
        for b in self.blocks:
            t = b["insts"][-1] if b["insts"] else None
            s = list(dict.fromkeys(t.get("succs", []))) if t else []
            self.succs[b["name"]] = s
            for x in s:
                self.preds[x].append(b["name"])
        self.entry = self.order[0] if self.order else None
        self._dom = None
        self._pdom = None
        self._uses = None

    @property
    def key(self):
        return (self.unit, self.name)

    def __repr__(self):
        return "<Func %s:%s>" % (self.unit, self.name)

    def term(self, bb):
        return self.bbmap[bb]["insts"][-1]

    def loc(self, inst):
        if isinstance(inst, int):
            inst = self.insts[inst]
        f = inst.get("file", self.file)
        return "%s:%s" % (relpath(f), inst.get("line", self.line))

    def all_insts(self):
        for b in self.blocks:
            for i in b["insts"]:
                yield i

    # ---- uses
    def uses(self):
        if self._uses is None:
            u = defaultdict(list)
            for i in self.all_insts():
                for o in i["ops"]:
                    if o[0] == "i":
                        u[o[1]].append(i["id"])
                c = i.get("callee")
                if c and c[0] == "i":
                    u[c[1]].append(i["id"])
            self._uses = u
        return self._uses

    # ---- dominators (iterative, small CFGs)
    def rpo(self):
        seen, out = set(), []

        def dfs(b):
            stack = [(b, iter(self.succs[b]))]
            seen.add(b)
            while stack:
                n, it = stack[-1]
                for s in it:
                    if s not in seen:
                        seen.add(s)
                        stack.append((s, iter(self.succs[s])))
                        break
                else:
                    out.append(n)
                    stack.pop()
        if self.entry:
            dfs(self.entry)
        return out[::-1]

    def dom(self):
        """dict block -> set of dominators (including itself)."""
        if self._dom is None:
            rpo = self.rpo()
            allb = set(rpo)
            dom = {b: set(allb) for b in rpo}
            dom[self.entry] = {self.entry}
            ch = True
            while ch:
                ch = False
                for b in rpo:
                    if b == self.entry:
                        continue
                    ps = [dom[p] for p in self.preds[b] if p in dom]
                    n = set.intersection(*ps) if ps else set()
                    n = n | {b}
                    if n != dom[b]:
                        dom[b] = n
                        ch = True
            self._dom = dom
        return self._dom

    def reachable_from(self, bb):
        seen = set()
        st = [bb]
        while st:
            b = st.pop()
            for s in self.succs[b]:
                if s not in seen:
                    seen.add(s)
                    st.append(s)
        return seen

    def inst_dominates(self, a, b):
        """instruction id a dominates instruction id b (strictly before in same block, or block-dominates)."""
        ba, bb = self.bb_of[a], self.bb_of[b]
        if ba == bb:
            for i in self.bbmap[ba]["insts"]:
                if i["id"] == a:
                    return True
                if i["id"] == b:
                    return False
        return ba in self.dom().get(bb, set())

    def back_edges(self):
        dom = self.dom()
        out = []
        for b in dom:
            for s in self.succs[b]:
                if s in dom.get(b, ()):
                    out.append((b, s))
        return out

    def loops(self):
        """natural loops: header -> set(blocks)."""
        res = {}
        for (t, h) in self.back_edges():
            body = {h, t}
            st = [t]
            while st:
                n = st.pop()
                if n == h:
                    continue
                for p in self.preds[n]:
                    if p not in body:
                        body.add(p)
                        st.append(p)
            res.setdefault(h, set()).update(body)
        return res


def relpath(f):
    if not f:
        return "?"
    m = re.search(r"(src|include|examples|test)/[^/]+$", f)
    return m.group(0) if m else f


class Program:
    """All units of one configuration/shape."""

    def __init__(self, mods, name="shipped/O0"):
        self.name = name
        self.mods = mods
        self.funcs = {}          # (unit,name) -> Func
        self.by_name = defaultdict(list)
        self.structs = {}        # unit -> irname -> layout
        self.ditypes = {}        # cname -> layout (merged; identical across units)
        self.globals = {}        # (unit,name) -> global
        self.gdef = {}           # name -> (unit, global) for external definitions
        for unit, m in mods.items():
            self.structs[unit] = m["structs"]
            for k, v in m["ditypes"].items():
                self.ditypes.setdefault(k, v)
            for g in m["globals"]:
                self.globals[(unit, g["name"])] = g
                if not g["decl"] and not g["internal"]:
                    self.gdef[g["name"]] = (unit, g)
            for fd in m["functions"]:
                f = Func(unit, fd, self)
                self.funcs[f.key] = f
                self.by_name[f.name].append(f)

    def defined(self):
        return [f for f in self.funcs.values() if not f.decl]

    def resolve(self, unit, name):
        """Function definition a call to `name` from `unit` binds to (or None = external)."""
        f = self.funcs.get((unit, name))
        if f and not f.decl:
            return f
        for g in self.by_name.get(name, []):
            if not g.decl and not g.internal:
                return g
        return None

    def global_def(self, unit, name):
        g = self.globals.get((unit, name))
        if g and not g["decl"]:
            return (unit, g)
        return self.gdef.get(name)

    # ---- vtables
    def vtable_globals(self, structname):
        """All defined globals whose value type is %struct.<structname> (across units)."""
        out = []
        for (unit, gname), g in self.globals.items():
            if g["decl"]:
                continue
            if g["type"] == "%" + structname or g["type"] == structname:
                out.append((unit, g))
        return out

    def vtable_types(self):
        """struct types all of whose fields are function pointers."""
        res = set()
        for unit, st in self.structs.items():
            for n, l in st.items():
                if l["fields"] and all(re.search(r"\)\*$", f["type"]) for f in l["fields"]):
                    res.add(n)
        return res

    def slot_targets(self, structname, idx):
        """[(unit, funcname)] in slot idx of every defined global of that struct type."""
        out = []
        for unit, g in self.vtable_globals(structname):
            init = g.get("init")
            if not init or g["zeroinit"] or init[0] != "cv":
                continue
            el = init[1][idx]
            while el and el[0] == "ce":   # bitcast of function
                el = el[2][0]
            if el and el[0] == "f":
                out.append((unit, el[1], g["name"]))
        return out

    def member_name(self, cname, off):
        t = self.ditypes.get(cname)
        if not t:
            return None
        for m in t["members"]:
            if m["off"] == off:
                return m["name"]
        return None

    def describe(self, cname, off, size=None):
        """Human/semantic path of byte offset `off` inside C type `cname` using DI."""
        path = []
        cur = cname
        guard = 0
        while cur and guard < 12:
            guard += 1
            m = re.match(r"^(.*?)((\[\d+\])+)$", cur)
            if m:
                base = m.group(1)
                dims = [int(x) for x in re.findall(r"\[(\d+)\]", m.group(2))]
                esz = self.sizeof(base)
                if not esz:
                    break
                # only first dimension handled (the repo has no 2-D arrays)
                idx = off // (esz * (1 if len(dims) == 1 else 1))
                path.append("[%d]" % idx)
                off -= idx * esz
                cur = base
                continue
            t = self.ditypes.get(cur)
            if not t:
                break
            best = None
            for mem in t["members"]:
                if mem["off"] <= off < mem["off"] + max(mem["size"], 1):
                    best = mem
                    if t["kind"] == "struct":
                        break
                    if size is not None and mem["size"] == size:
                        break
            if not best:
                break
            if t["kind"] == "union":
                # a union member does not identify storage; keep the union anonymous
                path.append("<%s>" % best["name"])
            else:
                path.append(best["name"])
            off -= best["off"]
            cur = best["type"]
        return path

    def sizeof(self, cname):
        t = self.ditypes.get(cname)
        if t:
            return t["size"]
        base = {"uint8_t": 1, "unsigned char": 1, "char": 1, "uint16_t": 2, "uint32_t": 4,
                "unsigned int": 4, "int": 4, "uint64_t": 8, "size_t": 8}
        if cname in base:
            return base[cname]
        if cname.endswith("*"):
            return 8
        return None


def strip_struct(tystr):
    """'%struct.X*' -> ('struct.X', ptrdepth)"""
    m = re.match(r"^%((?:struct|union)\.[A-Za-z0-9_.]+)(\**)$", tystr)
    if m:
        return m.group(1), len(m.group(2))
    return None, tystr.count("*")


def cname_of(irstruct):
    if not irstruct:
        return None
    n = irstruct.split(".", 1)[1] if "." in irstruct else irstruct
    # clang appends .N to colliding names inside one module; strip it
    n = re.sub(r"\.\d+$", "", n)
    return n


def indirect_slot(f, call):
    """(structname, idx) when the callee operand of `call` is a load from a vtable slot."""
    c = call["callee"]
    if c[0] != "i":
        return None
    ld = f.insts.get(c[1])
    while ld and ld["op"] in CASTS:
        o = ld["ops"][0]
        ld = f.insts.get(o[1]) if o[0] == "i" else None
    if not ld or ld["op"] != "load":
        return None
    p = ld["ops"][0]
    gi = f.insts.get(p[1]) if p[0] == "i" else None
    # slot 0 may be addressed without a GEP: bitcast of the table pointer
    hops = 0
    while gi and gi["op"] in CASTS and hops < 4:
        hops += 1
        src = gi["ops"][0]
        st, d = strip_struct(_optype(f, src))
        if st and d == 1:
            return (st, 0)
        gi = f.insts.get(src[1]) if src[0] == "i" else None
    if not gi or gi["op"] != "getelementptr":
        return None
    steps = [s for s in gi["gep"]["steps"] if s["k"] == "field"]
    if not steps:
        return None
    s = steps[-1]
    return (s["struct"], s["idx"])


def _optype(f, op):
    if op[0] == "i":
        return f.insts[op[1]]["type"]
    if op[0] == "a":
        return f.params[op[1]]["type"]
    return ""


def _callers_of(prog, f):
    if not hasattr(prog, "_callers"):
        m = {}
        for g in prog.defined():
            for i in g.all_insts():
                if i["op"] == "call" and i["callee"][0] == "f":
                    t = prog.resolve(g.unit, i["callee"][1])
                    if t is not None:
                        m.setdefault(t.key, []).append((g, i))
        prog._callers = m
    return prog._callers.get(f.key, [])


def resolve_fnptr(prog, f, op, depth=0, seen=None):
    """Functions a function-pointer operand may denote: a function constant, a vtable slot load, a
    select/phi of those (null contributes nothing), or a parameter (union over the actual arguments of
    every direct caller).  Returns (targets, complete?)."""
    seen = seen if seen is not None else set()
    out, complete = [], True
    while op[0] == "i" and f.insts[op[1]]["op"] in CASTS:
        op = f.insts[op[1]]["ops"][0]
    if op[0] == "ce" and op[1] == "bitcast":
        return resolve_fnptr(prog, f, op[2][0], depth, seen)
    if op[0] == "f":
        g = prog.resolve(f.unit, op[1])
        return ([g] if g is not None and not g.decl else []), g is not None
    if op[0] in ("n", "z"):
        return [], True
    if depth > 4:
        return [], False
    if op[0] == "a":
        key = (f.key, "a", op[1])
        if key in seen:
            return [], True
        seen.add(key)
        callers = _callers_of(prog, f)
        if not callers or not f.internal:
            complete = False
        for (g, call) in callers:
            if op[1] < len(call["ops"]):
                t, c = resolve_fnptr(prog, g, call["ops"][op[1]], depth + 1, seen)
                out += [x for x in t if x not in out]
                complete = complete and c
        return out, complete
    if op[0] == "i":
        i = f.insts[op[1]]
        if i["op"] in ("phi", "select"):
            ops = i["ops"] if i["op"] == "phi" else i["ops"][1:]
            for o in ops:
                if o == ["i", i["id"]]:
                    continue
                t, c = resolve_fnptr(prog, f, o, depth + 1, seen)
                out += [x for x in t if x not in out]
                complete = complete and c
            return out, complete
        if i["op"] == "load":
            fake = {"callee": ["i", i["id"]], "fnty": None}
            slot = indirect_slot(f, fake)
            if slot:
                for (u, n, gname) in prog.slot_targets(slot[0], slot[1]):
                    g = prog.resolve(u, n)
                    if g is not None and not g.decl and g not in out:
                        out.append(g)
                return out, True
    return [], False


def indirect_targets(prog, f, call):
    """Functions an indirect call may reach: the slot of every constant table of the vtable type;
    a function-pointer parameter / select resolved through the callers' arguments;
    when neither can be recovered (optimised IR), every table entry of the same function type."""
    slot = indirect_slot(f, call)
    out = []
    if not slot and call["callee"][0] in ("i", "a"):
        t, complete = resolve_fnptr(prog, f, call["callee"])
        if t or complete:
            return t
    if slot:
        for (u, n, gname) in prog.slot_targets(slot[0], slot[1]):
            g = prog.resolve(u, n)
            if g is not None and not g.decl:
                out.append(g)
        return out
    want = call.get("fnty")
    for st in prog.vtable_types():
        for unit, g in prog.vtable_globals(st):
            init = g.get("init")
            if g["zeroinit"] or not init or init[0] != "cv":
                continue
            for el in init[1]:
                while el and el[0] == "ce":
                    el = el[2][0]
                if el and el[0] == "f":
                    fn = prog.resolve(unit, el[1])
                    if fn is not None and not fn.decl and _fnty(fn) == want and fn not in out:
                        out.append(fn)
    return out


def _fnty(fn):
    return "%s (%s)" % (fn.ret, ", ".join(p["type"] for p in fn.params))
