"""E5: definite-initialisation dataflow at byte granularity.

Per function, for every tracked object (stack objects; optionally fields of parameter
objects for the normalisation rules) the set of byte ranges that are definitely written
on ALL paths.  Ranges have linear-form end points over SSA atoms, so the idiom
    memset(b, 0, B - n); memcpy(b + B - n, src, n)
merges to [0, B) because the touching ends are the same linear form.  Loop-filled arrays
are recognised through the count-up idiom (i = c0; i < N; ++i storing element i on every
iteration).  Calls use the callee's EGS summary: constant-offset must-writes extend the
set, reads through the pointer must be covered before the call.
"""
from .ir import CASTS, INTCASTS
from .mem import Loc
from .summary import MEMFNS, PURE_INTRINSICS, akey

# linear form: (const, ((atom, coeff), ...)) with atoms sorted by repr


def _rset(ranges):
    s = set()
    for (a, b) in ranges:
        s.update(range(a, b))
    return s


def _runs(byteset):
    out = []
    st = prev = None
    for b in sorted(byteset):
        if st is None:
            st = prev = b
        elif b == prev + 1:
            prev = b
        else:
            out.append((st, prev + 1))
            st = prev = b
    if st is not None:
        out.append((st, prev + 1))
    return out


def lf_const(c):
    return (c, ())


def lf_add(a, b, sign=1):
    d = dict(a[1])
    for s, k in b[1]:
        d[s] = d.get(s, 0) + sign * k
    return (a[0] + sign * b[0], tuple(sorted(((s, k) for s, k in d.items() if k), key=repr)))


def lf_scale(a, k):
    return (a[0] * k, tuple((s, c * k) for s, c in a[1]) if k else ())


def lf_is_const(a):
    return not a[1]


def lf_str(a):
    s = str(a[0]) if a[0] or not a[1] else ""
    for (sym, k) in a[1]:
        s += "%s%s%s" % ("+" if k > 0 else "-", "" if abs(k) == 1 else "%d*" % abs(k), "%s%s" % (sym[0], sym[1]))
    return s or "0"


class InitFlow:
    def __init__(self, func, an, track_args=False):
        self.f = func
        self.an = an
        self.prog = func.prog
        self.s = an.summaries[func.key]
        self.am = self.s.fa.am
        self.track_args = track_args
        self.reads = []         # (inst, object, lo, hi, covered, site-desc)
        self.unknown = []
        self.undef_uses = []
        self.loopfills = self._loop_fills()
        self.exit_init = {}     # ret block -> state
        self.exits = []         # (class 'z'|'nz'|'void'|'?', state, source block)
        self._run()

    # ------------------------------------------------------------ linear forms
    def lf(self, op, depth=0):
        f = self.f
        if op[0] == "c":
            v = int(op[1])
            return lf_const(v)
        if op[0] == "a":
            return (0, ((("a", op[1]), 1),))
        if op[0] != "i" or depth > 24:
            return None
        i = f.insts[op[1]]
        o = i["op"]
        if o in ("zext", "sext", "trunc") or o in CASTS:
            return self.lf(i["ops"][0], depth + 1)
        if o in ("add", "sub"):
            a, b = self.lf(i["ops"][0], depth + 1), self.lf(i["ops"][1], depth + 1)
            if a is None or b is None:
                return None
            # constants are printed unsigned: fold two's complement
            bits = i.get("bits", 64)
            r = lf_add(a, b, 1 if o == "add" else -1)
            c = r[0]
            if lf_is_const(r):
                c &= (1 << bits) - 1
                if c >= 1 << (bits - 1) and (a[1] or b[1] or True):
                    pass
                return (c, ())
            return r
        if o == "mul":
            a, b = self.lf(i["ops"][0], depth + 1), self.lf(i["ops"][1], depth + 1)
            if a is not None and b is not None:
                if lf_is_const(b):
                    return lf_scale(a, b[0])
                if lf_is_const(a):
                    return lf_scale(b, a[0])
        if o == "shl":
            a, b = self.lf(i["ops"][0], depth + 1), self.lf(i["ops"][1], depth + 1)
            if a is not None and b is not None and lf_is_const(b):
                return lf_scale(a, 1 << b[0])
        if o == "phi" and i["ops"] and all(x[0] != "i" or x[1] != i["id"] for x in i["ops"]):
            # a merge whose incoming values all have the same linear form IS that value (the one-armed
            # phi left behind when the other arm of `c ? a : b` was threaded away by irspec)
            me = (0, ((("i", i["id"]), 1),))
            busy = self.__dict__.setdefault("_phi_busy", set())
            if i["id"] in busy or len(i["ops"]) > 4:
                return me
            busy.add(i["id"])
            try:
                arms = [self.lf(x, depth + 1) for x in i["ops"]]
            finally:
                busy.discard(i["id"])
            if arms[0] is not None and all(a == arms[0] for a in arms) and all(s != ("i", i["id"]) for s, _ in arms[0][1]):
                return arms[0]
            return me
        return (0, ((("i", i["id"]), 1),))

    def _signed(self, c, bits=64):
        c &= (1 << bits) - 1
        return c - (1 << bits) if c >= 1 << (bits - 1) else c

    def ptr(self, op, depth=0):
        """(object key, offset linear form) of a pointer operand, or None."""
        f = self.f
        if op[0] == "a":
            return (("arg", op[1]), ()), lf_const(0)
        if op[0] == "g":
            return (("global", op[1]), ()), lf_const(0)
        if op[0] != "i" or depth > 32:
            return None
        i = f.insts[op[1]]
        o = i["op"]
        if o == "alloca":
            return (("alloca", i["id"]), ()), lf_const(0)
        if o in CASTS:
            return self.ptr(i["ops"][0], depth + 1)
        if o == "getelementptr":
            b = self.ptr(i["gep"]["base"], depth + 1)
            if b is None:
                return None
            off = lf_add(b[1], lf_const(i["gep"]["coff"]))
            for (v, scale) in i["gep"]["vars"]:
                l = self.lf(v)
                if l is None:
                    return None
                if lf_is_const(l):
                    l = lf_const(self._signed(l[0]))
                off = lf_add(off, lf_scale(l, scale))
            return b[0], off
        if o == "load" and i["type"].endswith("*"):
            a = self.am.of(op)
            if a is not None and all(s.off is not None for s in a.segs[:-1]):
                return ((a.root[:2], tuple(s.off for s in a.segs[:-1]))), lf_const(0)
            return None
        if o == "call" and i["type"].endswith("*"):
            a = self.am.of(op)
            if a is not None:
                return (a.root[:2], ()), lf_const(0)
        return None

    def tracked(self, obj):
        r = obj[0][0]
        if r == "alloca":
            return True
        if r == "arg" and self.track_args:
            return True
        if r == "heap" and obj[0][1] in self.uninit_heaps:
            return True
        return False

    # ------------------------------------------------------------ range sets
    @staticmethod
    def norm(ranges):
        """merge touching / overlapping ranges; ranges is a list of (lo_lf, hi_lf)."""
        rs = list(dict.fromkeys(ranges))
        changed = True
        while changed:
            changed = False
            for x in range(len(rs)):
                for y in range(len(rs)):
                    if x == y:
                        continue
                    a, b = rs[x], rs[y]
                    m = None
                    if a[1] == b[0]:
                        m = (a[0], b[1])
                    elif lf_is_const(a[0]) and lf_is_const(a[1]) and lf_is_const(b[0]) and lf_is_const(b[1]):
                        if a[0][0] <= b[0][0] <= a[1][0]:
                            m = (a[0], lf_const(max(a[1][0], b[1][0])))
                    elif a[0] == b[0] and lf_is_const(lf_add(a[1], b[1], -1)):
                        m = a if lf_add(a[1], b[1], -1)[0] >= 0 else b
                    if m:
                        rs = [r for k, r in enumerate(rs) if k not in (x, y)] + [m]
                        changed = True
                        break
                if changed:
                    break
        return tuple(sorted(rs, key=repr))

    @staticmethod
    def covers(ranges, lo, hi):
        if lo == hi:
            return True
        for (a, b) in ranges:
            if a == lo and b == hi:
                return True
            d1 = lf_add(lo, a, -1)
            d2 = lf_add(b, hi, -1)
            if lf_is_const(d1) and lf_is_const(d2) and d1[0] >= 0 and d2[0] >= 0:
                return True
        return False

    @staticmethod
    def meet(a, b):
        """intersection of two range sets (exact matches and constant overlaps)."""
        if a is None:
            return b
        if b is None:
            return a
        out = []

        def le(p, q):
            """p <= q for linear forms whose atoms are unsigned quantities"""
            d = lf_add(q, p, -1)
            return d[0] >= 0 and all(k >= 0 for (_, k) in d[1])
        for x in a:
            for y in b:
                if x == y:
                    out.append(x)
                    continue
                # intersection [max lo, min hi) when the end points are comparable
                lo = x[0] if le(y[0], x[0]) else (y[0] if le(x[0], y[0]) else None)
                hi = x[1] if le(x[1], y[1]) else (y[1] if le(y[1], x[1]) else None)
                if lo is None or hi is None:
                    continue
                if lf_is_const(lo) and lf_is_const(hi):
                    if lo[0] < hi[0]:
                        out.append((lo, hi))
                elif le(lo, hi) and lo != hi:
                    out.append((lo, hi))
        return InitFlow.norm(out)

    # ------------------------------------------------------------ loop fills
    def _loop_fills(self):
        """{exit edge (header, succ): [(obj, lo, hi)]} for count-up loops that store element i each iteration."""
        f = self.f
        out = {}
        for header, body in f.loops().items():
            t = f.term(header)
            if t["op"] != "br" or len(t["succs"]) != 2:
                continue
            c = f.insts.get(t["ops"][0][1]) if t["ops"][0][0] == "i" else None
            if not c or c["op"] != "icmp" or c["pred"] not in ("ult", "ne", "slt"):
                continue
            iv = c["ops"][0]
            while iv[0] == "i" and f.insts[iv[1]]["op"] in ("zext", "sext", "trunc"):
                iv = f.insts[iv[1]]["ops"][0]
            if iv[0] != "i" or f.insts[iv[1]]["op"] != "phi" or f.bb_of[iv[1]] != header:
                continue
            phi = f.insts[iv[1]]
            start = step = None
            for v, pb in zip(phi["ops"], phi["inblocks"]):
                if pb in body:
                    b = f.insts.get(v[1]) if v[0] == "i" else None
                    if b and b["op"] == "add" and b["ops"][0] == ["i", phi["id"]] and b["ops"][1][0] == "c":
                        step = int(b["ops"][1][1])
                else:
                    l = self.lf(v)
                    if l is not None and lf_is_const(l):
                        start = l[0]
            bound = self.lf(c["ops"][1])
            if start is None or step != 1 or bound is None:
                continue
            if t["succs"][0] not in body:
                continue
            exit_succ = t["succs"][1]
            latches = [p for p in f.preds[header] if p in body]
            # the loop must have no other exit
            other_exit = any(s not in body for b in body if b != header for s in f.succs[b])
            if other_exit:
                continue
            fills = []
            for b in body:
                for i in f.bbmap[b]["insts"]:
                    if i["op"] != "store":
                        continue
                    if not all(b in f.dom().get(l, set()) for l in latches):
                        continue
                    p = self.ptr(i["ops"][1])
                    if p is None:
                        continue
                    obj, off = p
                    # offset must be base + size*iv
                    coeff = dict(off[1]).get(("i", phi["id"]))
                    rest = tuple((s, k) for s, k in off[1] if s != ("i", phi["id"]))
                    if coeff != i["size"] or rest:
                        continue
                    lo = lf_add(lf_const(off[0]), lf_const(start * coeff))
                    hi = lf_add(lf_const(off[0]), lf_scale(bound, coeff))
                    fills.append((obj, lo, hi))
            if fills:
                out[(header, exit_succ)] = fills
        return out

    # ------------------------------------------------------------ transfer
    def gen(self, st, obj, lo, hi):
        if not self.tracked(obj):
            return
        st[obj] = self.norm(list(st.get(obj, ())) + [(lo, hi)])

    def check_read(self, st, inst, obj, lo, hi, what):
        if not self.tracked(obj):
            return
        if hi is None:
            # callee reads through a variable offset: the whole object must be defined
            if obj[0][0] == "alloca":
                hi = lf_const(self.f.insts[obj[0][1]]["alloc_size"])
            else:
                return
        ok = self.covers(st.get(obj, ()), lo, hi)
        self.reads.append((inst, obj, lo, hi, ok, what, st.get(obj, ())))

    def step(self, st, i, collect):
        o = i["op"]
        f = self.f
        if o == "store":
            p = self.ptr(i["ops"][1])
            if p is not None:
                self.gen(st, p[0], p[1], lf_add(p[1], lf_const(i["size"])))
        elif o == "load":
            p = self.ptr(i["ops"][0])
            if p is not None and collect:
                self.check_read(st, i, p[0], p[1], lf_add(p[1], lf_const(i["size"])), "load")
        elif o == "call":
            c = i["callee"]
            name = c[1] if c[0] == "f" else None
            base = i.get("intrinsic") or name
            if base and base.startswith(PURE_INTRINSICS):
                return
            if base in MEMFNS:
                n = self.lf(i["ops"][2])
                if MEMFNS[base][1] == "r" and collect and n is not None:
                    sp = self.ptr(i["ops"][1])
                    if sp is not None:
                        self.check_read(st, i, sp[0], sp[1], lf_add(sp[1], n), base + " source")
                dp = self.ptr(i["ops"][0])
                if dp is not None and n is not None:
                    self.gen(st, dp[0], dp[1], lf_add(dp[1], n))
                return
            if name in ("calloc", "malloc", "free") or c[0] == "asm":
                return
            targets = []
            if name is not None:
                g = self.prog.resolve(f.unit, name)
                if g is None:
                    return
                targets = [g]
            else:
                from .ir import indirect_targets
                targets = indirect_targets(self.prog, f, i)
            for k, a in enumerate(i["ops"]):
                p = self.ptr(a) if a[0] in ("i", "a") else None
                if p is None or not self.tracked(p[0]):
                    continue
                obj, base_off = p
                gens_all = None
                for g in targets:
                    s = self.an.summaries[g.key]
                    # reads through parameter k
                    if collect:
                        for kk, (loc, w) in s.reads.items():
                            if loc.addr.root == ("arg", k) and len(loc.addr.segs) == 1:
                                seg = loc.addr.segs[0]
                                if seg.off is not None and loc.size is not None:
                                    lo = lf_add(base_off, lf_const(seg.off))
                                    self.check_read(st, i, obj, lo, lf_add(lo, lf_const(loc.size)), "read by %s (%s)" % (g.name, w.split(" ")[0]))
                                else:
                                    self.check_read(st, i, obj, base_off, None, "read by %s through a variable offset (%s)" % (g.name, w.split(" ")[0]))
                    # bytes definitely written through parameter k whatever the callee returns (its own E5 summary)
                    isum = self.an.init_of(g.key)
                    gens = None
                    for cl, per in isum.items():
                        gs = _rset(per.get(k, ()))
                        gens = gs if gens is None else (gens & gs)
                    gens = gens or set()
                    gens_all = gens if gens_all is None else (gens_all & gens)
                for (lo, hi) in _runs(gens_all or ()):
                    self.gen(st, obj, lf_add(base_off, lf_const(lo)), lf_add(base_off, lf_const(hi)))

    def class_gens(self, i, cl):
        """must-writes of callee class cl through pointer arguments: [(obj, lo, hi)]"""
        f = self.f
        c = i["callee"]
        if c[0] != "f":
            return []
        g = self.prog.resolve(f.unit, c[1])
        if g is None:
            return []
        per = self.an.init_of(g.key).get(cl)
        out = []
        if not per:
            return out
        for k, a in enumerate(i["ops"]):
            p = self.ptr(a) if a[0] in ("i", "a") else None
            if p is None or not self.tracked(p[0]):
                continue
            for (lo, hi) in per.get(k, ()):
                out.append((p[0], lf_add(p[1], lf_const(lo)), lf_add(p[1], lf_const(hi))))
        return out

    def edge(self, b, succ, st):
        st = dict(st)
        for (obj, lo, hi) in self.loopfills.get((b, succ), []):
            self.gen(st, obj, lo, hi)
        # status / pointer test of a call made in this block: class-specific must-writes
        t = self.f.term(b)
        if t["op"] == "br" and len(t["succs"]) == 2 and t["ops"][0][0] == "i":
            c = self.f.insts[t["ops"][0][1]]
            if c["op"] == "icmp" and c["pred"] in ("eq", "ne"):
                x = c["ops"][0]
                while x[0] == "i" and self.f.insts[x[1]]["op"] in CASTS | {"zext"}:
                    x = self.f.insts[x[1]]["ops"][0]
                z = c["ops"][1]
                if x[0] == "i" and self.f.insts[x[1]]["op"] == "call" and z[0] in ("c", "n") and (z[0] == "n" or int(z[1]) == 0):
                    truth = (succ == t["succs"][0])
                    nz = truth if c["pred"] == "ne" else (not truth)
                    for (obj, lo, hi) in self.class_gens(self.f.insts[x[1]], "nz" if nz else "z"):
                        self.gen(st, obj, lo, hi)
        return st

    def _cls(self, v):
        if v is None:
            return "void"
        if v[0] == "c":
            return "z" if int(v[1]) == 0 else "nz"
        if v[0] == "n":
            return "z"
        return "?"

    # ------------------------------------------------------------ driver
    def _run(self):
        f = self.f
        self.uninit_heaps = set()
        for i in f.all_insts():
            if i["op"] == "call" and i["callee"][0] == "f" and i["callee"][1] in ("malloc", "realloc", "aligned_alloc"):
                self.uninit_heaps.add(i["id"])
        rpo = f.rpo()
        IN = {b: None for b in rpo}
        IN[f.entry] = {}
        out_edge = {}
        changed = True
        it = 0
        while changed:
            it += 1
            if it > 50:
                self.unknown.append("initflow did not converge in %s" % f.name)
                break
            changed = False
            for b in rpo:
                if b != f.entry:
                    acc = None
                    first = True
                    for p in f.preds[b]:
                        e = out_edge.get((p, b))
                        if e is None:
                            continue
                        if first:
                            acc = dict(e)
                            first = False
                        else:
                            acc = {k: self.meet(acc.get(k, ()), e.get(k, ())) for k in set(acc) | set(e)}
                            acc = {k: v for k, v in acc.items() if v}
                    if acc is None:
                        continue
                    if IN[b] is None or IN[b] != acc:
                        IN[b] = acc
                        changed = True
                    elif it > 1:
                        continue
                st = dict(IN[b])
                for i in f.bbmap[b]["insts"][:-1]:
                    self.step(st, i, False)
                for succ in f.succs[b]:
                    e = self.edge(b, succ, st)
                    if out_edge.get((b, succ)) != e:
                        out_edge[(b, succ)] = e
                        changed = True
        self.IN_states, self.out_edges = IN, out_edge
        self.reads = []
        for b in rpo:
            if IN[b] is None:
                continue
            st = dict(IN[b])
            for i in f.bbmap[b]["insts"][:-1]:
                self.step(st, i, True)
            if f.term(b)["op"] == "ret":
                self.exit_init[b] = st
                t = f.term(b)
                body = f.bbmap[b]["insts"][:-1]
                rv = t["ops"][0] if t["ops"] else None
                if rv is not None and rv[0] == "i" and f.insts[rv[1]]["op"] == "phi" and f.bb_of[rv[1]] == b and all(x["op"] == "phi" for x in body):
                    phi = f.insts[rv[1]]
                    for v, pb in zip(phi["ops"], phi["inblocks"]):
                        e = out_edge.get((pb, b))
                        if e is not None:
                            self.exits.append((self._cls(v), e, pb))
                else:
                    self.exits.append((self._cls(rv), st, b))
        # undef operands after mem2reg (scalar locals read before assignment)
        for i in f.all_insts():
            for o in i["ops"]:
                if o[0] == "u" and i["op"] not in ("insertelement", "shufflevector", "insertvalue"):
                    self.undef_uses.append(i)
            if i["op"] == "phi":
                pass


def scalar_uninit(f):
    """Unoptimised (-O0, no mem2reg) IR: scalar locals whose address never escapes must be stored
    before they are loaded on every path.  Returns [(load inst, variable name)]."""
    scal = {}
    for i in f.all_insts():
        if i["op"] == "alloca" and not i["alloc_type"].startswith(("[", "%", "<", "{")):
            scal[i["id"]] = i
    if not scal:
        return [], 0
    uses = f.uses()
    ok = set()
    for aid in scal:
        good = True
        for u in uses.get(aid, []):
            ui = f.insts[u]
            if ui["op"] == "load" and ui["ops"][0] == ["i", aid]:
                continue
            if ui["op"] == "store" and ui["ops"][1] == ["i", aid] and ui["ops"][0] != ["i", aid]:
                continue
            good = False
        if good:
            ok.add(aid)
    rpo = f.rpo()
    IN = {b: None for b in rpo}
    IN[f.entry] = frozenset()
    changed = True
    OUT = {}
    while changed:
        changed = False
        for b in rpo:
            if b != f.entry:
                ps = [OUT[p] for p in f.preds[b] if p in OUT]
                if not ps:
                    continue
                n = frozenset.intersection(*ps)
                if IN[b] != n:
                    IN[b] = n
                    changed = True
            if IN[b] is None:
                continue
            st = set(IN[b])
            for i in f.bbmap[b]["insts"]:
                if i["op"] == "store" and i["ops"][1][0] == "i" and i["ops"][1][1] in ok:
                    st.add(i["ops"][1][1])
            st = frozenset(st)
            if OUT.get(b) != st:
                OUT[b] = st
                changed = True
    bad = []
    for b in rpo:
        if IN[b] is None:
            continue
        st = set(IN[b])
        for i in f.bbmap[b]["insts"]:
            if i["op"] == "store" and i["ops"][1][0] == "i" and i["ops"][1][1] in ok:
                st.add(i["ops"][1][1])
            elif i["op"] == "load" and i["ops"][0][0] == "i" and i["ops"][0][1] in ok and i["ops"][0][1] not in st:
                bad.append((i, scal[i["ops"][0][1]].get("name", "?")))
    return bad, len(ok)
