"""python3 -m sa.replay <replay.json>

Re-runs the single rule instance a VIOLATION line pointed to on /repo's current tree and prints the
diagnosis (rule, construct, site, detail, witness).  Exit 1 if the instance is still violated, 0 if it is
discharged now, 2 if the instance no longer exists."""
import importlib
import json
import sys

from .check import Ctx
from .report import Report


def main():
    if len(sys.argv) != 2:
        print(__doc__)
        return 2
    r = json.load(open(sys.argv[1]))
    pid = r["property"]
    print("replaying %s %s on construct %s [%s]" % (pid, r["rule"], r["construct"], r.get("config", "shipped")))
    print("  recorded: at %s: %s" % (r.get("site"), r.get("detail")))
    mod = importlib.import_module("sa.rules." + pid.lower())
    rep = Report(pid, r.get("tier", "quick"))
    ctx = Ctx(r.get("tier", "quick"))
    mod.run(ctx, rep)
    hits = [o for o in rep.obs if o["rule"] == r["rule"] and o["construct"] == r["construct"] and o["config"] == r.get("config", "shipped")]
    if not hits:
        hits = [o for o in rep.obs if o["rule"] == r["rule"] and o["construct"] == r["construct"]]
    if not hits:
        print("  now: no obligation with this rule and construct exists on the current tree")
        return 2
    rc = 0
    for o in hits:
        print("  now [%s]: %s at %s: %s" % (o["config"], o["status"], o["site"], o["detail"]))
        if o.get("witness"):
            print("     witness: %s" % json.dumps(o["witness"], default=str)[:1500])
        if o["status"] == "VIOLATION":
            rc = 1
    return rc


if __name__ == "__main__":
    sys.exit(main())
