"""Bit routing (copy propagation at bit granularity) for straight-line helper functions.

Each bit of each value is 0, 1, ('in', k) = a copy of input bit k, or TOP.  Transfer
functions exist for shifts by constants, AND with constants, OR/XOR where at most one
side is non-zero per bit, zext/trunc, byte-addressed loads/stores on the object behind
the pointer parameter, and lane-uniform vector forms.  ANY combination of two data bits
is TOP: the engine moves bits, it never computes with them.  The result of a helper is
its routing table: for every bit of the object after the call, where it came from."""
import re

from .ir import CASTS
from .mem import AddrMap

TOP = ("T",)
Z = 0
O = 1


def width(t):
    m = re.match(r"^i(\d+)$", t)
    if m:
        return int(m.group(1)), 1
    m = re.match(r"^<(\d+) x i(\d+)>$", t)
    if m:
        return int(m.group(2)), int(m.group(1))
    return None


class Routing:
    """Abstractly evaluates a loop-free function whose first parameter points to the object being permuted.
    For vector objects (row-sliced), lanes are required to behave identically and one lane is tracked."""

    def __init__(self, func, obj_bytes, obj_arg=0, val_args=None):
        self.f = func
        self.obj_bytes = obj_bytes
        self.obj_arg = obj_arg
        self.ok = True
        self.why = ""
        self.am = AddrMap(func)
        self.vals = {}
        # memory: bit list for the object, little-endian byte order
        self.mem = [("in", k) for k in range(obj_bytes * 8)]
        self.local = {}
        self.ret = None
        self.val_args = val_args or {}
        if func.loops():
            self.ok, self.why = False, "has loops"
            return
        self._run()

    def const_bits(self, v, n):
        return [(v >> k) & 1 for k in range(n)]

    def get(self, op, n):
        if op[0] == "c":
            return self.const_bits(int(op[1]), n)
        if op[0] == "i":
            v = self.vals.get(op[1])
            if v is None:
                return [TOP] * n
            return v
        if op[0] == "a":
            if op[1] in self.val_args:
                return list(self.val_args[op[1]])[:n] + [Z] * max(0, n - len(self.val_args[op[1]]))
            return [TOP] * n
        if op[0] == "cv":
            # splat constant vector: all lanes equal -> one lane
            els = op[1]
            if els and all(e == els[0] for e in els) and els[0][0] == "c":
                return self.const_bits(int(els[0][1]), n)
            return [TOP] * n
        if op[0] in ("z",):
            return [Z] * n
        return [TOP] * n

    def _addr(self, p):
        a = self.am.of(p)
        if a is None or len(a.segs) != 1 or a.segs[0].off is None:
            return None
        if a.root == ("arg", self.obj_arg):
            return ("obj", a.segs[0].off)
        if a.root[0] == "alloca":
            return (("loc", a.root[1]), a.segs[0].off)
        return None

    def _run(self):
        f = self.f
        order = f.rpo()
        if any(len(f.preds[b]) > 1 for b in order):
            self.ok, self.why = False, "control flow joins"
            return
        for b in order:
            for i in f.bbmap[b]["insts"]:
                op = i["op"]
                w = width(i["type"]) if i["type"] not in ("void",) else None
                n = w[0] if w else 0
                if op == "load":
                    if w is None:
                        continue
                    a = self._addr(i["ops"][0])
                    if a is None:
                        self.vals[i["id"]] = [TOP] * n
                        continue
                    space, off = a
                    if w[1] > 1:
                        # vector object: lane-uniform; track the element of lane 0 at this row
                        bits_total = n * w[1]
                        src = self.mem if space == "obj" else self.local.get(space, {})
                        # one lane: the first element
                        self.vals[i["id"]] = self._read(space, off, n)
                    else:
                        self.vals[i["id"]] = self._read(space, off, n)
                elif op == "store":
                    vw = width(i.get("vtype", ""))
                    if vw is None:
                        continue
                    a = self._addr(i["ops"][1])
                    bits = self.get(i["ops"][0], vw[0])
                    if a is None:
                        self.ok, self.why = False, "store to untracked address"
                        return
                    self._write(a[0], a[1], bits, vw)
                elif op in ("zext",):
                    src = i["ops"][0]
                    sw = self._w(src)
                    self.vals[i["id"]] = (self.get(src, sw) + [Z] * n)[:n]
                elif op == "trunc":
                    src = i["ops"][0]
                    sw = self._w(src)
                    self.vals[i["id"]] = self.get(src, sw)[:n]
                elif op in CASTS:
                    src = i["ops"][0]
                    if i["type"].endswith("*"):
                        continue
                    self.vals[i["id"]] = self.get(src, n)
                elif op == "shl":
                    k = self._shamt(i["ops"][1])
                    x = self.get(i["ops"][0], n)
                    self.vals[i["id"]] = [TOP] * n if k is None else ([Z] * k + x)[:n]
                elif op == "lshr":
                    k = self._shamt(i["ops"][1])
                    x = self.get(i["ops"][0], n)
                    self.vals[i["id"]] = [TOP] * n if k is None else (x[k:] + [Z] * k)[:n]
                elif op == "ashr":
                    k = self._shamt(i["ops"][1])
                    x = self.get(i["ops"][0], n)
                    self.vals[i["id"]] = [TOP] * n if k is None else (x[k:] + [x[-1]] * k)[:n]
                elif op == "and":
                    x, y = self.get(i["ops"][0], n), self.get(i["ops"][1], n)
                    out = []
                    for p, q in zip(x, y):
                        if p == Z or q == Z:
                            out.append(Z)
                        elif p == O:
                            out.append(q)
                        elif q == O:
                            out.append(p)
                        elif p == q:
                            out.append(p)
                        else:
                            out.append(TOP)
                    self.vals[i["id"]] = out
                elif op in ("or", "xor"):
                    x, y = self.get(i["ops"][0], n), self.get(i["ops"][1], n)
                    out = []
                    for p, q in zip(x, y):
                        if p == Z:
                            out.append(q)
                        elif q == Z:
                            out.append(p)
                        elif op == "or" and p == q:
                            out.append(p)
                        else:
                            out.append(TOP)
                    self.vals[i["id"]] = out
                elif op == "getelementptr" or op == "alloca":
                    continue
                elif op == "call":
                    base = i.get("intrinsic") or ""
                    if base.startswith(("llvm.dbg", "llvm.lifetime")):
                        continue
                    if base == "llvm.memcpy":
                        d, sr = self._addr(i["ops"][0]), self._addr(i["ops"][1])
                        ln = i["ops"][2]
                        if d and sr and ln[0] == "c":
                            bits = self._read(sr[0], sr[1], int(ln[1]) * 8)
                            self._write(d[0], d[1], bits, (int(ln[1]) * 8, 1))
                            continue
                    self.ok, self.why = False, "calls %s" % (i["callee"][1] if i["callee"][0] == "f" else "?")
                    return
                elif op == "ret":
                    if i["ops"]:
                        rw = self._w(i["ops"][0])
                        self.ret = self.get(i["ops"][0], rw)
                elif op == "br":
                    continue
                elif op in ("insertelement", "extractelement", "shufflevector"):
                    # splat construction: keep lane-uniform value of the scalar
                    if op == "insertelement":
                        self.vals[i["id"]] = self.get(i["ops"][1], n)
                    elif op == "shufflevector":
                        self.vals[i["id"]] = self.get(i["ops"][0], n)
                    else:
                        self.vals[i["id"]] = self.get(i["ops"][0], n)
                else:
                    if w:
                        self.vals[i["id"]] = [TOP] * n

    def _w(self, op):
        if op[0] == "i":
            w = width(self.f.insts[op[1]]["type"])
            return w[0] if w else 64
        if op[0] == "a":
            w = width(self.f.params[op[1]]["type"])
            return w[0] if w else 64
        if op[0] == "c":
            w = width(op[2])
            return w[0] if w else 64
        return 64

    def _shamt(self, op):
        if op[0] == "c":
            return int(op[1])
        if op[0] == "cv" and op[1] and all(e == op[1][0] for e in op[1]) and op[1][0][0] == "c":
            return int(op[1][0][1])
        if op[0] == "i":
            # a splat of a constant / zext of constant argument
            v = self.vals.get(op[1])
            if v is not None and all(b in (0, 1) for b in v):
                return sum(b << k for k, b in enumerate(v))
        if op[0] == "a" and op[1] in self.val_args:
            v = self.val_args[op[1]]
            if all(b in (0, 1) for b in v):
                return sum(b << k for k, b in enumerate(v))
        return None

    def _read(self, space, off, n):
        if space == "obj":
            if off * 8 + n > len(self.mem):
                return [TOP] * n
            return list(self.mem[off * 8: off * 8 + n])
        m = self.local.setdefault(space, {})
        return [m.get(off * 8 + k, TOP) for k in range(n)]

    def _write(self, space, off, bits, vw):
        n = vw[0]
        if space == "obj":
            if off * 8 + n > len(self.mem):
                self.ok, self.why = False, "write beyond the object"
                return
            self.mem[off * 8: off * 8 + n] = bits[:n]
        else:
            m = self.local.setdefault(space, {})
            for k in range(n):
                m[off * 8 + k] = bits[k]

    def table(self):
        """routing of the object (one lane for vector objects): list per output bit."""
        return list(self.mem)

    def pure(self, bits=None):
        bits = self.mem if bits is None else bits
        return self.ok and all(b != TOP for b in bits)


def compose(t2, t1):
    """t2 after t1: output bit k of t2 takes t2[k] = ('in', j) -> t1[j]."""
    out = []
    for b in t2:
        if isinstance(b, tuple) and b[0] == "in":
            out.append(t1[b[1]] if b[1] < len(t1) else TOP)
        else:
            out.append(b)
    return out


def is_identity(t):
    return all(b == ("in", k) for k, b in enumerate(t))


def perm_str(t, unit=8):
    """compact rendering: per output unit (byte / nibble) the source unit, when the routing moves whole units."""
    out = []
    for k in range(0, len(t), unit):
        chunk = t[k:k + unit]
        if all(isinstance(b, tuple) and b[0] == "in" for b in chunk) and all(chunk[j][1] == chunk[0][1] + j for j in range(unit)) and chunk[0][1] % unit == 0:
            out.append(str(chunk[0][1] // unit))
        elif all(b == 0 for b in chunk):
            out.append("0")
        else:
            out.append("?")
    return "[" + ",".join(out) + "]"
