"""E2 (part 2): pointer provenance.  Every pointer SSA value gets an address
expression  root + segments, a segment being a byte offset inside one object and
consecutive segments being separated by a dereference (a pointer loaded from the
previous location)."""
from collections import namedtuple

from .ir import strip_struct, cname_of, CASTS

# off: int or None (variable); rng: (lo,hi) byte bounds when variable inside a bounded array, else None
Seg = namedtuple("Seg", "ty off rng el")
# el: for a variable array index, (element size, constant byte offset inside the element) when known
Seg.__new__.__defaults__ = (None,)
Addr = namedtuple("Addr", "root segs")

ALLOCATORS = {"calloc": ("calloc",), "malloc": ("malloc",), "realloc": ("realloc",),
              "aligned_alloc": ("malloc",), "posix_memalign": ("malloc",), "valloc": ("malloc",),
              "memalign": ("malloc",), "strdup": ("malloc",), "alloca": ("malloc",)}


def addr_str(a, prog=None):
    if a is None:
        return "?"
    r = a.root
    if r[0] == "arg":
        s = "P%d" % r[1]
    elif r[0] == "alloca":
        s = "local#%s" % (r[2] if len(r) > 2 and r[2] else r[1])
    elif r[0] == "global":
        s = "@" + r[1]
    elif r[0] in ("heap", "heapi"):
        s = "%s#%s" % (r[0], r[1])
    else:
        s = "%s#%s" % (r[0], r[1] if len(r) > 1 else "")
    for n, seg in enumerate(a.segs):
        if n:
            s = "D(" + s + ")"
        desc = None
        if prog is not None and seg.ty and seg.off is not None:
            p = prog.describe(seg.ty, seg.off)
            if p:
                desc = "." + ".".join(p).replace(".[", "[")
        if desc is None and prog is not None and seg.ty and seg.off is None and seg.rng:
            p = prog.describe(seg.ty, seg.rng[0])
            if p:
                while p and (p[-1].startswith("[") or p[-1].startswith("<")):
                    p.pop()
                desc = "." + ".".join(p).replace(".[", "[") + "[*]"
        if desc is None:
            if seg.off is None:
                desc = "+*" if not seg.rng else "+[%d..%d)" % seg.rng
            elif seg.off:
                desc = "+%d" % seg.off
            else:
                desc = ""
        elif seg.off is None and not desc.endswith("[*]"):
            desc += "+*"
        s += desc
    return s


class AddrMap:
    """Flow-insensitive provenance of SSA values of one function."""

    def __init__(self, func, fresh_fns=None):
        self.f = func
        self.prog = func.prog
        self.fresh_fns = fresh_fns or {}
        self.val = {}       # inst id -> Addr
        self.intprov = {}   # inst id -> Addr (integers derived from pointers)
        self.args = {}
        for k, p in enumerate(func.params):
            if p["type"].endswith("*"):
                st, depth = strip_struct(p["type"])
                ty = cname_of(st) if st and depth == 1 else None
                self.args[k] = Addr(("arg", k), (Seg(ty, 0, None),))
        self._compute()

    def of(self, op):
        """Addr of an operand (or None)."""
        k = op[0]
        if k == "i":
            return self.val.get(op[1])
        if k == "a":
            return self.args.get(op[1])
        if k == "g":
            return Addr(("global", op[1]), (Seg(self._gtype(op[1]), 0, None),))
        if k == "ce":
            opc = op[1]
            if opc in ("bitcast", "addrspacecast"):
                return self.of(op[2][0])
            if opc == "getelementptr" and len(op) > 4:
                base = self.of(op[4]["base"])
                return self._gep(base, op[4])
            if opc in ("inttoptr", "ptrtoint"):
                return self.of(op[2][0])
        return None

    def _gtype(self, name):
        g = self.prog.global_def(self.f.unit, name)
        if g:
            st, d = strip_struct(g[1]["type"])
            if st and d == 0:
                return cname_of(st)
        return None

    def _gep(self, base, gep):
        if base is None:
            return None
        last = base.segs[-1]
        ty = last.ty
        st, d = strip_struct("%" + gep["srcty"].lstrip("%"))
        if ty is None and last.off == 0 and st and d == 0:
            ty = cname_of(st)
        if gep["vars"]:
            # bounded if every variable index indexes a bounded array
            lo = hi = None
            bounded = True
            off = 0 if last.off is None else last.off
            cur = off
            arr_lo = arr_hi = None
            el = None
            inner = 0
            for s in gep["steps"]:
                if s["k"] == "field":
                    cur += s["off"]
                    if el is not None:
                        inner += s["off"]
                elif "const" in s:
                    cur += s["const"] * s["elsize"]
                    if el is not None:
                        inner += s["const"] * s["elsize"]
                else:
                    if s["count"] > 0:
                        if arr_lo is None:
                            arr_lo, arr_hi = cur, cur + s["count"] * s["elsize"]
                            el = s["elsize"]
                            inner = 0
                        else:
                            el = None
                    else:
                        bounded = False
            elinfo = (el, inner) if el is not None and len(gep["vars"]) == 1 else None
            if len(gep["vars"]) == 1 and last.off is not None:
                ivr = iv_range(self.f, gep["vars"][0][0])
                scale = gep["vars"][0][1]
                if ivr is not None:
                    # dense walk over a constant index range: the bytes touched are known exactly
                    base0 = (arr_lo if arr_lo is not None else off + (gep["coff"] if not bounded or arr_lo is None else 0))
                    if arr_lo is None:
                        base0 = off + gep["coff"]
                        inner = 0
                    rngb = (base0 + ivr[0] * scale, base0 + ivr[1] * scale)
                    return Addr(base.root, base.segs[:-1] + (Seg(ty, None, rngb, (scale, inner, "iv")),))
            if bounded and arr_lo is not None and last.off is not None:
                rng = (arr_lo, arr_hi)
            else:
                # pointer arithmetic on a member's address stays inside that member (bounds: C09)
                rng = last.rng
                elinfo = None
                if len(gep["vars"]) == 1 and last.off is not None:
                    v = gep["vars"][0][0]
                    extra = 0
                    factor = 1
                    while v[0] == "i":
                        vi = self.f.insts[v[1]]
                        if vi["op"] in ("zext", "sext"):
                            v = vi["ops"][0]
                        elif vi["op"] == "add" and vi["ops"][1][0] == "c":
                            k = int(vi["ops"][1][1])
                            bits = vi.get("bits", 32)
                            extra += factor * (k - (1 << bits) if k >= 1 << (bits - 1) else k)
                            v = vi["ops"][0]
                        elif vi["op"] == "mul" and vi["ops"][1][0] == "c":
                            factor *= int(vi["ops"][1][1])
                            v = vi["ops"][0]
                        elif vi["op"] == "shl" and vi["ops"][1][0] == "c":
                            factor *= 1 << int(vi["ops"][1][1])
                            v = vi["ops"][0]
                        else:
                            break
                    if v[0] == "a":
                        # base + scale*(factor*parameter + extra) + constant: remember the constant part
                        sc = gep["vars"][0][1]
                        elinfo = ("argoff", v[1], sc * factor, last.off + gep["coff"] + extra * sc)
            return Addr(base.root, base.segs[:-1] + (Seg(ty, None, rng, elinfo),))
        if last.off is None:
            # constant steps after a variable index move inside the element
            if last.el and last.el[0] == "argoff":
                el2 = ("argoff", last.el[1], last.el[2], last.el[3] + gep["coff"])
            elif last.el and len(last.el) == 2:
                el2 = (last.el[0], last.el[1] + gep["coff"])
            elif last.el and len(last.el) == 3:
                el2 = (last.el[0], last.el[1] + gep["coff"], last.el[2])
            else:
                el2 = None
            return Addr(base.root, base.segs[:-1] + (Seg(ty, None, last.rng, el2),))
        # constant offset: remember the innermost named member the pointer was taken from (its byte
        # extent inside the object) so that a callee writing through it at a variable offset can be
        # bounded to that member (the callee's own accesses are bounded by C09)
        ext = last.rng
        cur = last.off
        for s in gep["steps"]:
            if s["k"] == "field":
                cur += s["off"]
                ext = (cur, cur + s["size"])
            elif "const" in s:
                cur += s["const"] * s["elsize"]
        return Addr(base.root, base.segs[:-1] + (Seg(ty, last.off + gep["coff"], ext),))

    def _compute(self):
        f = self.f
        changed = True
        rounds = 0
        while changed and rounds < 12:
            changed = False
            rounds += 1
            for i in f.all_insts():
                a = self._transfer(i)
                iid = i["id"]
                if i["type"].endswith("*") or i["op"] in ("inttoptr",):
                    if a is not None and self.val.get(iid) != a:
                        self.val[iid] = a
                        changed = True
                elif i["op"] in ("ptrtoint", "add", "sub", "and", "or") and a is not None:
                    if self.intprov.get(iid) != a:
                        self.intprov[iid] = a
                        changed = True

    def _transfer(self, i):
        op = i["op"]
        if op == "alloca":
            st, d = strip_struct(i["alloc_type"])
            return Addr(("alloca", i["id"], i.get("name")), (Seg(cname_of(st) if st and d == 0 else None, 0, None),))
        if op in CASTS:
            a = self.of(i["ops"][0])
            if a is None:
                return None
            st, d = strip_struct(i["type"])
            last = a.segs[-1]
            if last.ty is None and last.off == 0 and st and d == 1:
                return Addr(a.root, a.segs[:-1] + (Seg(cname_of(st), 0, last.rng),))
            return a
        if op == "getelementptr":
            return self._gep(self.of(i["gep"]["base"]), i["gep"])
        if op == "load":
            if i["type"].endswith("*"):
                a = self.of(i["ops"][0])
                if a is None:
                    return Addr(("unk", i["id"]), (Seg(None, 0, None),))
                st, d = strip_struct(i["type"])
                return Addr(a.root, a.segs + (Seg(cname_of(st) if st and d == 1 else None, 0, None),))
            return None
        if op == "call":
            if i["type"].endswith("*"):
                c = i.get("callee")
                if c and c[0] == "f" and c[1] in ALLOCATORS:
                    return Addr(("heap", i["id"]), (Seg(None, 0, None),))
                if c and c[0] == "f" and c[1] in self.fresh_fns:
                    # a library allocator: exact base or a pointer somewhere into the fresh block
                    exact = self.fresh_fns[c[1]]
                    # 'heapi' = an object placed somewhere inside the fresh block (aligned view);
                    # only the exact base ('heap') may be handed to free().
                    return Addr(("heap" if exact else "heapi", i["id"]), (Seg(None, 0, None),))
                return Addr(("ret", i["id"]), (Seg(None, 0, None),))
            return None
        if op in ("phi", "select"):
            ops = i["ops"] if op == "phi" else i["ops"][1:]
            if not i["type"].endswith("*"):
                return None
            addrs = []
            for o in ops:
                if o[0] == "n" or o[0] == "u":
                    continue
                if o == ["i", i["id"]]:
                    continue
                addrs.append(self.of(o))
            if not addrs:
                return None
            if any(a is None for a in addrs):
                known = [a for a in addrs if a is not None]
                if not known:
                    return None
                addrs = known  # unresolved yet (loop-carried); will be refined next round
            first = addrs[0]
            if all(a == first for a in addrs):
                return first
            if all(a.root == first.root and a.segs[:-1] == first.segs[:-1] for a in addrs):
                ty = first.segs[-1].ty
                return Addr(first.root, first.segs[:-1] + (Seg(ty, None, None),))
            return Addr(("unk", i["id"]), (Seg(None, 0, None),))
        if op == "ptrtoint":
            return self.of(i["ops"][0])
        if op == "inttoptr":
            o = i["ops"][0]
            if o[0] == "i" and o[1] in self.intprov:
                a = self.intprov[o[1]]
                return Addr(a.root, a.segs[:-1] + (Seg(a.segs[-1].ty, None, None),))
            return Addr(("unk", i["id"]), (Seg(None, 0, None),))
        if op in ("add", "sub", "and", "or"):
            for o in i["ops"]:
                if o[0] == "i" and o[1] in self.intprov:
                    a = self.intprov[o[1]]
                    return Addr(a.root, a.segs[:-1] + (Seg(a.segs[-1].ty, None, None),))
            return None
        return None


def iv_range(f, op, depth=0):
    """[lo, hi) of an index operand that is a loop induction variable with constant bounds and unit step
    (count-up `i = a; i < b; ++i`, or count-down `i = b; i > a; ` with the decrement before the use)."""
    off = 0
    while op[0] == "i" and depth < 12:
        depth += 1
        i = f.insts[op[1]]
        if i["op"] in ("zext", "sext", "trunc"):
            op = i["ops"][0]
        elif i["op"] == "add" and i["ops"][1][0] == "c":
            k = int(i["ops"][1][1])
            bits = i.get("bits", 32)
            off += k - (1 << bits) if k >= 1 << (bits - 1) else k
            op = i["ops"][0]
        else:
            break
    if op[0] != "i" or f.insts[op[1]]["op"] != "phi":
        return None
    phi = f.insts[op[1]]
    header = f.bb_of[phi["id"]]
    loops = f.loops()
    if header not in loops:
        return None
    body = loops[header]
    start = step = None
    for v, pb in zip(phi["ops"], phi["inblocks"]):
        if pb in body:
            b = f.insts.get(v[1]) if v[0] == "i" else None
            if b and b["op"] == "add" and b["ops"][0] == ["i", phi["id"]] and b["ops"][1][0] == "c":
                k = int(b["ops"][1][1])
                bits = b.get("bits", 32)
                step = k - (1 << bits) if k >= 1 << (bits - 1) else k
        elif v[0] == "c":
            start = int(v[1])
    t = f.term(header)
    if start is None or step not in (1, -1) or t["op"] != "br" or t["ops"][0][0] != "i":
        return None
    c = f.insts[t["ops"][0][1]]
    if c["op"] != "icmp" or c["ops"][0] != ["i", phi["id"]] or c["ops"][1][0] != "c":
        return None
    bound = int(c["ops"][1][1])
    # no other exit from the loop
    if any(s not in body for b in body if b != header for s in f.succs[b]):
        return None
    if step == 1 and c["pred"] in ("ult", "ne", "slt"):
        lo, hi = start, bound
    elif step == -1 and c["pred"] in ("ugt", "ne", "sgt"):
        lo, hi = bound + 1, start + 1
    else:
        return None
    lo, hi = lo + off, hi + off
    return (lo, hi) if lo < hi else None


# ---- locations (address + size) and overlap ---------------------------------

Loc = namedtuple("Loc", "addr size")   # size: int or None (unknown / variable)


def may_overlap(l1, l2):
    a, b = l1.addr, l2.addr
    if a is None or b is None:
        return True
    if a.root != b.root:
        ra, rb = a.root[0], b.root[0]
        # distinct roots: fresh heap blocks, locals and globals never alias anything
        # else; two different parameters / unknown pointers are assumed not to alias
        # (the library's contract for caller-owned objects).
        return False
    n = min(len(a.segs), len(b.segs))
    for k in range(n):
        last_a = (k == len(a.segs) - 1)
        last_b = (k == len(b.segs) - 1)
        sa, sb = a.segs[k], b.segs[k]
        if last_a and last_b:
            return _rng_overlap(sa, l1.size, sb, l2.size)
        if last_a != last_b:
            # one names a location inside object k, the other goes through a pointer
            # stored in object k: different objects.
            return False
        if sa.off is not None and sb.off is not None and sa.off != sb.off:
            return False  # through different pointer fields
        # same or unknown pointer field: continue
    return False


def _rng(seg, size):
    if seg.off is not None:
        return (seg.off, seg.off + size if size is not None else None)
    if seg.rng:
        return seg.rng
    return (None, None)


def _rng_overlap(sa, za, sb, zb):
    la, ha = _rng(sa, za)
    lb, hb = _rng(sb, zb)
    if la is None or lb is None:
        return True
    if ha is not None and ha <= lb:
        return False
    if hb is not None and hb <= la:
        return False
    return True


def contains(outer, inner):
    """Loc outer certainly covers Loc inner (constant offsets only)."""
    a, b = outer.addr, inner.addr
    if a is None or b is None or a.root != b.root or len(a.segs) != len(b.segs):
        return False
    for k in range(len(a.segs) - 1):
        if a.segs[k].off is None or a.segs[k].off != b.segs[k].off:
            return False
    sa, sb = a.segs[-1], b.segs[-1]
    if sa.off is None or sb.off is None or outer.size is None or inner.size is None:
        return False
    return sa.off <= sb.off and sb.off + inner.size <= sa.off + outer.size


def rebase(addr, actual):
    """Translate a callee address rooted at a parameter into the caller's terms:
    `actual` is the caller-side Addr of the argument."""
    if addr is None or actual is None:
        return None
    first = addr.segs[0]
    last = actual.segs[-1]
    el = None
    if first.off is None or last.off is None:
        off = None
        rng = None
        if first.off is None and first.rng and last.off is not None:
            rng = (first.rng[0] + last.off, first.rng[1] + last.off)
            el = first.el
        elif first.off is None and last.off is not None and last.rng:
            rng = last.rng        # bounded by the member whose address was passed
    else:
        off = first.off + last.off
        rng = (first.rng[0] + last.off, first.rng[1] + last.off) if first.rng else None
    ty = last.ty or first.ty
    if last.ty and first.ty and last.ty != first.ty and last.off:
        ty = last.ty
    merged = Seg(ty, off, rng, el if off is None else None)
    return Addr(actual.root, actual.segs[:-1] + (merged,) + addr.segs[1:])
