"""May-dependency ("colour") analysis at byte/lane granularity on optimised IR.

Every byte loaded from a colour-source parameter is coloured with the index of the
block it belongs to; colours are propagated through scalar and vector operations
lane-wise (shuffles, inserts, extracts, bitcasts re-grouping bytes); nothing is
evaluated.  The result is, for every store into the output parameter, the set of input
blocks each stored byte may depend on."""
import re

from .ir import CASTS
from .mem import AddrMap

EMPTY = frozenset()


def vec_shape(t):
    m = re.match(r"^<(\d+) x i(\d+)>$", t)
    if m:
        return int(m.group(1)), int(m.group(2)) // 8
    m = re.match(r"^i(\d+)$", t)
    if m:
        return 1, max(1, int(m.group(1)) // 8)
    return None


def ctx_seg(a, spec):
    """segment of address `a` inside the context named by spec = (root arg, offset of the pointer field in the
    handle or None when the parameter IS the context pointer, ...)."""
    if a.root != ("arg", spec[0]):
        return None
    if spec[1] is None:
        return a.segs[0] if len(a.segs) == 1 else None
    if len(a.segs) == 2 and a.segs[0].off == spec[1]:
        return a.segs[1]
    return None


class Lanes:
    def __init__(self, func, sources, out_arg=0, lane_sources=None, field_src=None, field_sink=None):
        # field_src / field_sink: (root arg, pointer-field offset in the handle, field offset, field size[, label])
        # -> loads from / stores to that member of the context object reached through the handle
        self.field_src = field_src
        self.field_sink = field_sink
        """sources: {arg index: (label, block size)} memory laid out block after block;
        lane_sources: {arg index: (label, element bytes)} row-sliced vectors: element j belongs to block j."""
        self.f = func
        self.sources = sources
        self.lane_sources = lane_sources or {}
        self.out_arg = out_arg
        self.am = AddrMap(func)
        self.val = {}       # inst id -> tuple of frozensets (per element)
        self.mem = {}       # alloca id -> {byte: set}
        self.stores = []    # (inst, offset, [per-byte colours])
        self.unknown = []
        self._run()

    def shape_of(self, op):
        if op[0] == "i":
            return vec_shape(self.f.insts[op[1]]["type"])
        if op[0] == "a":
            return vec_shape(self.f.params[op[1]]["type"])
        if op[0] in ("c",):
            return vec_shape(op[2])
        if op[0] in ("cv", "z", "u"):
            return vec_shape(op[-1] if op[0] != "cv" else op[2])
        return None

    def get(self, op, shape=None):
        if op[0] == "i":
            v = self.val.get(op[1])
            if v is not None:
                return v
            sh = vec_shape(self.f.insts[op[1]]["type"])
            return tuple(EMPTY for _ in range(sh[0])) if sh else (EMPTY,)
        if op[0] in ("cv", "z", "u", "c"):
            sh = self.shape_of(op) or shape
            return tuple(EMPTY for _ in range(sh[0])) if sh else (EMPTY,)
        return (EMPTY,)

    @staticmethod
    def broadcast(v, n):
        if len(v) == n:
            return v
        if len(v) == 1:
            return tuple(v[0] for _ in range(n))
        u = frozenset().union(*v)
        return tuple(u for _ in range(n))

    def to_bytes(self, v, elbytes):
        out = []
        for e in v:
            out.extend([e] * elbytes)
        return out

    def from_bytes(self, bs, n, elbytes):
        out = []
        for k in range(n):
            chunk = bs[k * elbytes:(k + 1) * elbytes]
            out.append(frozenset().union(*chunk) if chunk else EMPTY)
        return tuple(out)

    def _load(self, i):
        sh = vec_shape(i["type"])
        if sh is None:
            return None
        n, eb = sh
        a = self.am.of(i["ops"][0])
        if a is None:
            self.unknown.append((i, "load through untracked pointer"))
            return tuple(frozenset(["?"]) for _ in range(n))
        fs = self.field_src
        cs = ctx_seg(a, fs) if fs else None
        if cs is not None:
            o = cs.off
            if o is not None and fs[2] <= o < fs[2] + fs[3]:
                # row-sliced member: element j of every row vector belongs to block j
                return tuple(frozenset([("ctr", j)]) for j in range(n))
            if o is None and cs.rng and fs[2] <= cs.rng[0] < fs[2] + fs[3]:
                return tuple(frozenset([("ctr", "*")]) for _ in range(n))
            return tuple(EMPTY for _ in range(n))
        if a.root[0] == "arg" and len(a.segs) == 1:
            k = a.root[1]
            off = a.segs[0].off
            if k in self.sources:
                label, blk = self.sources[k]
                if off is None:
                    self.unknown.append((i, "load from %s at a variable offset" % label))
                    return tuple(frozenset([(label, "*")]) for _ in range(n))
                bs = [frozenset([(label, (off + j) // blk)]) for j in range(n * eb)]
                return self.from_bytes(bs, n, eb)
            if k in self.lane_sources:
                label, elb = self.lane_sources[k]
                if off is None:
                    return tuple(frozenset([(label, "*")]) for _ in range(n))
                # row-sliced: the vector at this address holds one word of every block
                if eb == elb:
                    return tuple(frozenset([(label, j)]) for j in range(n))
                bs = []
                tot = n * eb
                for j in range(tot):
                    bs.append(frozenset([(label, ((off + j) % (16 if False else 10**9)) // elb)]))
                return self.from_bytes(bs, n, eb)
            return tuple(EMPTY for _ in range(n))      # key schedule / other public-structure parameter
        if a.root[0] == "alloca" and len(a.segs) == 1:
            m = self.mem.get(a.root[1], {})
            if a.segs[0].off is None:
                u = frozenset().union(*m.values()) if m else EMPTY
                return tuple(u for _ in range(n))
            bs = [m.get(a.segs[0].off + j, EMPTY) for j in range(n * eb)]
            return self.from_bytes(bs, n, eb)
        if a.root[0] == "global":
            return tuple(EMPTY for _ in range(n))
        if a.root[0] == "arg":
            return tuple(EMPTY for _ in range(n))
        return tuple(EMPTY for _ in range(n))

    def _store(self, i):
        a = self.am.of(i["ops"][1])
        sh = vec_shape(i.get("vtype", ""))
        if sh is None:
            return False
        n, eb = sh
        v = self.broadcast(self.get(i["ops"][0], sh), n)
        bs = self.to_bytes(v, eb)
        changed = False
        if a is None:
            self.unknown.append((i, "store through untracked pointer"))
            return False
        if a.root[0] == "alloca" and len(a.segs) == 1:
            m = self.mem.setdefault(a.root[1], {})
            if a.segs[0].off is None:
                u = frozenset().union(*bs)
                for j in range(self.f.insts[a.root[1]]["alloc_size"]):
                    nv = m.get(j, EMPTY) | u
                    if nv != m.get(j, EMPTY):
                        m[j] = nv
                        changed = True
            else:
                for j, c in enumerate(bs):
                    nv = m.get(a.segs[0].off + j, EMPTY) | c
                    if nv != m.get(a.segs[0].off + j, EMPTY):
                        m[a.segs[0].off + j] = nv
                        changed = True
        return changed

    def _transfer(self, i):
        op = i["op"]
        sh = vec_shape(i["type"])
        if op == "load":
            return self._load(i)
        if sh is None:
            return None
        n, eb = sh
        if op in ("add", "sub", "mul", "and", "or", "xor", "shl", "lshr", "ashr", "icmp", "udiv", "urem"):
            a = self.broadcast(self.get(i["ops"][0]), n)
            b = self.broadcast(self.get(i["ops"][1]), n)
            return tuple(x | y for x, y in zip(a, b))
        if op in ("zext", "sext", "trunc", "freeze"):
            return self.broadcast(self.get(i["ops"][0]), n)
        if op in CASTS:
            src = i["ops"][0]
            ssh = self.shape_of(src)
            if ssh is None:
                return tuple(EMPTY for _ in range(n))
            bs = self.to_bytes(self.broadcast(self.get(src), ssh[0]), ssh[1])
            return self.from_bytes(bs, n, eb)
        if op == "insertelement":
            base = list(self.broadcast(self.get(i["ops"][0], sh), n))
            idx = i["ops"][2]
            e = self.get(i["ops"][1])
            e = frozenset().union(*e)
            if idx[0] == "c":
                base[int(idx[1])] = e
            else:
                base = [x | e for x in base]
            return tuple(base)
        if op == "extractelement":
            v = self.get(i["ops"][0])
            idx = i["ops"][1]
            if idx[0] == "c" and int(idx[1]) < len(v):
                return (v[int(idx[1])],)
            return (frozenset().union(*v),)
        if op == "shufflevector":
            a = self.get(i["ops"][0])
            b = self.get(i["ops"][1], self.shape_of(i["ops"][0]))
            na = len(a)
            b = self.broadcast(b, na) if len(b) != na else b
            cat = list(a) + list(b)
            return tuple(cat[m] if 0 <= m < len(cat) else EMPTY for m in i["mask"])
        if op == "phi":
            acc = [EMPTY] * n
            for o in i["ops"]:
                v = self.broadcast(self.get(o, sh), n)
                acc = [x | y for x, y in zip(acc, v)]
            return tuple(acc)
        if op == "select":
            acc = [EMPTY] * n
            for o in i["ops"]:
                v = self.broadcast(self.get(o, sh), n)
                acc = [x | y for x, y in zip(acc, v)]
            return tuple(acc)
        if op == "call":
            base = i.get("intrinsic") or ""
            if base.startswith(("llvm.fshl", "llvm.fshr", "llvm.bswap", "llvm.umin", "llvm.umax", "llvm.smin", "llvm.smax", "llvm.ctpop", "llvm.abs")):
                acc = [EMPTY] * n
                for o in i["ops"]:
                    v = self.broadcast(self.get(o, sh), n)
                    acc = [x | y for x, y in zip(acc, v)]
                return tuple(acc)
            if base.startswith(("llvm.dbg", "llvm.lifetime")):
                return None
            self.unknown.append((i, "call %s not modelled" % (i["callee"][1] if i["callee"][0] == "f" else "indirect")))
            return tuple(frozenset(["?"]) for _ in range(n))
        if op == "extractvalue":
            return tuple(EMPTY for _ in range(n))
        return tuple(EMPTY for _ in range(n))

    def _run(self):
        f = self.f
        changed = True
        it = 0
        while changed and it < 200:
            it += 1
            changed = False
            for i in f.all_insts():
                if i["op"] == "store":
                    if self._store(i):
                        changed = True
                    continue
                if i["op"] == "call" and (i.get("intrinsic") or "").startswith(("llvm.memcpy", "llvm.memset")):
                    continue
                v = self._transfer(i)
                if v is not None and self.val.get(i["id"]) != v:
                    self.val[i["id"]] = v
                    changed = True
            self.unknown = [] if changed else self.unknown
        # collect stores into the output parameter
        for i in f.all_insts():
            if i["op"] != "store":
                continue
            a = self.am.of(i["ops"][1])
            if a is None:
                continue
            fk = self.field_sink
            if fk:
                cs = ctx_seg(a, fk)
                if cs is None:
                    continue
                o = cs.off if cs.off is not None else (cs.rng[0] if cs.rng else None)
                if o is None or not (fk[2] <= o < fk[2] + fk[3]):
                    continue
                off = cs.off - fk[2] if cs.off is not None else None
            else:
                if a.root != ("arg", self.out_arg) or len(a.segs) != 1:
                    continue
                off = a.segs[0].off
            sh = vec_shape(i.get("vtype", ""))
            if sh is None:
                continue
            v = self.broadcast(self.get(i["ops"][0], sh), sh[0])
            self.stores.append((i, off, self.to_bytes(v, sh[1])))
