"""E10 — GF(2) affine-relation interpretation of the linear layers of the SKINNY round functions.

Every bit of every value is either TOP or an affine form over GF(2):  a set of input atoms xored together plus a
constant bit.  xor, shifts and rotates by constants, masks with constants, disjoint ors, extensions, truncations,
vector lane moves and byte-addressed loads/stores on the function's own locals are exact in this domain; anything
that combines two data bits non-linearly (the S-boxes) is TOP.  A call whose result is not affine becomes a CUT:
its inputs are recorded and its outputs are fresh atoms.  One iteration of the round loop of a block function
(encrypt or decrypt, scalar or vector) is interpreted from a symbolic state; the prologue and epilogue give the
correspondence between state bits and the bytes of the input / output block, which names every state bit by its
canonical coordinate (block, bit) whatever registers, rows, lanes or word sizes the implementation uses.

    encrypt round :  state' = L(S(state))      L(u) = A u + B k + c     (the cut comes first, inputs = state)
    decrypt round :  state' = S^-1(L'(state))  L'(v) = A' v + B' k + c' (the cut comes last, outputs = state')

The rules built on this (C03.R6, C06.R5, C12.R4): L' after L is the identity including key and constant terms;
every implementation and every configuration of one cipher has the same L, block by block."""
import re

from .ir import CASTS

TOP = None
ZERO = (0, 0)
ONE = (0, 1)


class Vars:
    def __init__(self):
        self.idx = {}
        self.names = []

    def atom(self, name):
        k = self.idx.get(name)
        if k is None:
            k = len(self.names)
            self.idx[name] = k
            self.names.append(name)
        return (1 << k, 0)

    def names_of(self, mask):
        out = []
        k = 0
        while mask:
            if mask & 1:
                out.append(self.names[k])
            mask >>= 1
            k += 1
        return out


def fxor(a, b):
    if a is None or b is None:
        return None
    return (a[0] ^ b[0], a[1] ^ b[1])


def fand(a, b):
    if a == ZERO or b == ZERO:
        return ZERO
    if a == ONE:
        return b
    if b == ONE:
        return a
    if a is not None and a == b:
        return a
    return None


def f_or(a, b):
    if a == ZERO:
        return b
    if b == ZERO:
        return a
    if a == ONE or b == ONE:
        return ONE
    if a is not None and a == b:
        return a
    return None


def shape(t):
    """(lanes, lane bits) of an integer / vector type string, None for other types."""
    m = re.match(r"^i(\d+)$", t)
    if m:
        return 1, int(m.group(1))
    m = re.match(r"^<(\d+) x i(\d+)>$", t)
    if m:
        return int(m.group(1)), int(m.group(2))
    return None


def const_bits(v, n):
    v &= (1 << n) - 1
    return [ONE if (v >> k) & 1 else ZERO for k in range(n)]


def as_int(bits):
    v = 0
    for k, b in enumerate(bits):
        if b == ONE:
            v |= 1 << k
        elif b != ZERO:
            return None
    return v


class NotAffine(Exception):
    pass


class Frame:
    def __init__(self, f, args, fid):
        self.f = f
        self.args = args
        self.vals = {}
        self.fid = fid
        self.ret = None


class Interp:
    def __init__(self, prog, vars_, mem_default):
        self.prog = prog
        self.V = vars_
        self.mem = {}               # (obj, byte) -> [8 forms]
        self.mem_default = mem_default      # (obj, byte, bit) -> form
        self.cuts = []
        self.outs = {}              # (param, byte) -> [8 forms]
        self.nframes = 0
        self.depth = 0
        self.ptr_phi = None         # value for pointer-typed loop-header phis
        self.phi_vals = {}          # preset values for header phis
        self._lazy = 0
        self._free_depth = 0
        self.free_atoms = False     # values defined outside the interpreted region become symbolic inputs
        self.arg_mem = False        # treat memory behind pointer parameters like locals (read/write, symbolic)

    # ------------------------------------------------------------ memory
    def rd(self, obj, off, nbytes):
        out = []
        for b in range(off, off + nbytes):
            cell = self.mem.get((obj, b))
            if cell is None:
                cell = [self.mem_default(obj, b, k) for k in range(8)]
                self.mem[(obj, b)] = cell
            out.extend(cell)
        return out

    def wr(self, obj, off, bits):
        for j in range(0, len(bits), 8):
            self.mem[(obj, off + j // 8)] = list(bits[j:j + 8])

    # ------------------------------------------------------------ operands
    def val(self, fr, op, ty=None):
        k = op[0]
        if k == "i":
            if op[1] not in fr.vals and op[1] in fr.f.insts:
                ins = fr.f.insts[op[1]]
                if ins["op"] in ("alloca", "bitcast", "getelementptr") and ins["type"].endswith("*") and self._lazy < 20:
                    # pointer computations defined before the analysed region (allocas, field addresses)
                    self._lazy += 1
                    self.step(fr, ins, None)
                    self._lazy -= 1
            v = fr.vals.get(op[1])
            if v is None and self.free_atoms and op[1] in fr.f.insts and fr.fid == 0:
                # a value computed before the interpreted region (loop-invariant operand): interpret its definition
                # as far as it is affine, over the memory it was loaded from, and keep the LINEAR part only - an
                # xor with a constant made between the loops (Mantis' k1 ^ alpha) leaves "the key operand" as it is
                ins = fr.f.insts[op[1]]
                sh = shape(ins["type"])
                if sh and self._free_depth < 24:
                    if ins["op"] in ("xor", "and", "or", "shl", "lshr", "zext", "sext", "trunc", "bitcast", "load",
                                     "insertelement", "extractelement", "shufflevector"):
                        self._free_depth += 1
                        try:
                            self.step(fr, ins, None)
                        except NotAffine:
                            pass
                        self._free_depth -= 1
                        v = fr.vals.get(op[1])
                        if v is not None and v[0] == "b":
                            v = ("b", [None if b is None else (b[0], 0 if b[0] else b[1]) for b in v[1]])
                            fr.vals[op[1]] = v
                    if v is None or (v[0] == "b" and any(b is None for b in v[1])):
                        v = ("b", [self.V.atom(("X", ins["id"], b)) for b in range(sh[0] * sh[1])])
                        fr.vals[op[1]] = v
            return v
        if k == "a":
            return fr.args[op[1]] if op[1] < len(fr.args) else None
        if k == "c":
            sh = shape(op[2]) if len(op) > 2 else None
            n = sh[1] if sh else 64
            return ("b", const_bits(int(op[1]), n))
        if k in ("u", "z"):
            sh = shape(op[1]) if len(op) > 1 else None
            if sh:
                return ("b", [ZERO] * (sh[0] * sh[1]))
            return None
        if k == "cv":
            bits = []
            for e in op[1]:
                v = self.val(fr, e)
                if v is None or v[0] != "b":
                    return None
                bits.extend(v[1])
            return ("b", bits)
        if k == "g":
            return ("p", ("g", op[1]), 0)
        return None

    def bits(self, fr, op, n):
        v = self.val(fr, op)
        if v is None or v[0] != "b":
            return [TOP] * n
        b = v[1]
        if len(b) < n:
            b = b + [ZERO] * (n - len(b))
        return b[:n]

    # ------------------------------------------------------------ execution
    def run_blocks(self, fr, blocks, prev=None):
        f = fr.f
        for b in blocks:
            for i in f.bbmap[b]["insts"]:
                self.step(fr, i, prev)
            prev = b
        return prev

    def step(self, fr, i, prev):
        f = fr.f
        o = i["op"]
        t = i["type"]
        sh = shape(t)
        n = sh[0] * sh[1] if sh else 0
        iid = i["id"]
        if o == "alloca":
            fr.vals[iid] = ("p", ("al", fr.fid, iid), 0)
        elif o == "phi":
            if iid in self.phi_vals and fr.fid == 0:
                fr.vals[iid] = self.phi_vals[iid]
                return
            v = None
            for x, pb in zip(i["ops"], i["inblocks"]):
                if pb == prev:
                    v = self.val(fr, x)
            fr.vals[iid] = v
        elif o in CASTS or o == "bitcast":
            v = self.val(fr, i["ops"][0])
            if o in ("ptrtoint", "inttoptr"):
                v = None
            fr.vals[iid] = v
        elif o == "getelementptr":
            base = self.val(fr, i["gep"]["base"])
            g = i["gep"]
            if base is None or base[0] != "p":
                fr.vals[iid] = None
                return
            if not g["vars"]:
                fr.vals[iid] = ("p", base[1], None if base[2] is None else base[2] + g["coff"])
                return
            # variable index: constant when the index value is constant
            extra = 0
            okc = True
            for (v, sc) in g["vars"]:
                vv = self.val(fr, v)
                c = as_int(vv[1]) if vv is not None and vv[0] == "b" else None
                if c is None:
                    okc = False
                    break
                if c >= 1 << 63:
                    c -= 1 << 64
                extra += c * sc
            if okc and base[2] is not None:
                fr.vals[iid] = ("p", base[1], base[2] + g["coff"] + extra)
                return
            # element of an array inside a parameter object: keep the offset inside the element
            inner = 0
            seen_var = False
            for s in g["steps"]:
                if s["k"] == "field":
                    if seen_var:
                        inner += s["off"]
                elif "const" in s:
                    if seen_var:
                        inner += s["const"] * s["elsize"]
                else:
                    seen_var = True
                    inner = 0
            if base[1][0] in ("arg", "elem"):
                fr.vals[iid] = ("p", ("elem", base[1][1]), inner)
            elif base[1][0] in ("g", "gelem"):
                # row of a constant table selected by a run-time index (rc[index][j]): the same symbolic row a
                # cursor walking the table stands for
                fr.vals[iid] = ("p", ("gelem", base[1][1]), inner)
            else:
                fr.vals[iid] = ("p", base[1], None)
        elif o == "load":
            p = self.val(fr, i["ops"][0])
            if not sh:
                # pointer-typed load: only the loop-carried cursor matters, and that is a phi
                fr.vals[iid] = None
                return
            if p is None or p[0] != "p" or p[2] is None:
                fr.vals[iid] = ("b", [TOP] * n)
                return
            fr.vals[iid] = ("b", self.rd(p[1], p[2], n // 8) if n % 8 == 0 else [TOP] * n)
        elif o == "store":
            p = self.val(fr, i["ops"][1])
            vsh = shape(i.get("vtype", ""))
            if p is None or p[0] != "p":
                return
            if not vsh:
                return
            vn = vsh[0] * vsh[1]
            bits = self.bits(fr, i["ops"][0], vn)
            if p[2] is None:
                raise NotAffine("store through a pointer with unknown offset")
            if p[1][0] == "arg" and not self.arg_mem:
                for j in range(0, vn, 8):
                    self.outs[(p[1][1], p[2] + j // 8)] = list(bits[j:j + 8])
            else:
                self.wr(p[1], p[2], bits)
        elif o in ("xor", "and", "or"):
            x, y = self.bits(fr, i["ops"][0], n), self.bits(fr, i["ops"][1], n)
            fn = {"xor": fxor, "and": fand, "or": f_or}[o]
            fr.vals[iid] = ("b", [fn(p, q) for p, q in zip(x, y)])
        elif o in ("shl", "lshr", "ashr"):
            x = self.bits(fr, i["ops"][0], n)
            y = self.bits(fr, i["ops"][1], n)
            lanes, w = sh
            out = []
            for l in range(lanes):
                k = as_int(y[l * w:(l + 1) * w])
                xl = x[l * w:(l + 1) * w]
                if k is None or k >= w:
                    out.extend([TOP] * w)
                elif o == "shl":
                    out.extend(([ZERO] * k + xl)[:w])
                elif o == "lshr":
                    out.extend((xl[k:] + [ZERO] * k)[:w])
                else:
                    out.extend((xl[k:] + [xl[-1]] * k)[:w])
            fr.vals[iid] = ("b", out)
        elif o in ("zext", "sext", "trunc"):
            ssh = None
            src = i["ops"][0]
            sv = self.val(fr, src)
            if sv is None or sv[0] != "b":
                fr.vals[iid] = ("b", [TOP] * n)
                return
            lanes, w = sh
            sw = len(sv[1]) // lanes
            out = []
            for l in range(lanes):
                xl = sv[1][l * sw:(l + 1) * sw]
                if o == "trunc":
                    out.extend(xl[:w])
                elif o == "zext":
                    out.extend(xl + [ZERO] * (w - sw))
                else:
                    out.extend(xl + [xl[-1]] * (w - sw))
            fr.vals[iid] = ("b", out)
        elif o == "insertelement":
            lanes, w = sh
            v = self.bits(fr, i["ops"][0], n)
            e = self.bits(fr, i["ops"][1], w)
            idx = self.val(fr, i["ops"][2])
            k = as_int(idx[1]) if idx is not None and idx[0] == "b" else None
            if k is None or k >= lanes:
                fr.vals[iid] = ("b", [TOP] * n)
            else:
                fr.vals[iid] = ("b", v[:k * w] + e + v[(k + 1) * w:])
        elif o == "extractelement":
            w = sh[1]
            sv = self.val(fr, i["ops"][0])
            idx = self.val(fr, i["ops"][1])
            k = as_int(idx[1]) if idx is not None and idx[0] == "b" else None
            if sv is None or sv[0] != "b" or k is None or (k + 1) * w > len(sv[1]):
                fr.vals[iid] = ("b", [TOP] * n)
            else:
                fr.vals[iid] = ("b", sv[1][k * w:(k + 1) * w])
        elif o == "shufflevector":
            lanes, w = sh
            a = self.val(fr, i["ops"][0])
            b2 = self.val(fr, i["ops"][1])
            if a is None or a[0] != "b":
                fr.vals[iid] = ("b", [TOP] * n)
                return
            la = len(a[1]) // w
            src = a[1] + (b2[1] if b2 is not None and b2[0] == "b" else [TOP] * len(a[1]))
            out = []
            for m in i.get("mask", []):
                if m is None or m < 0:
                    out.extend([ZERO] * w)
                else:
                    out.extend(src[m * w:(m + 1) * w])
            fr.vals[iid] = ("b", out if len(out) == n else [TOP] * n)
        elif o in ("add", "sub", "mul"):
            x, y = self.bits(fr, i["ops"][0], n), self.bits(fr, i["ops"][1], n)
            a, b2 = as_int(x), as_int(y)
            if a is not None and b2 is not None and sh[0] == 1:
                r = {"add": a + b2, "sub": a - b2, "mul": a * b2}[o]
                fr.vals[iid] = ("b", const_bits(r, n))
            elif o in ("add", "sub") and b2 == 0:
                fr.vals[iid] = ("b", x)
            else:
                fr.vals[iid] = ("b", [TOP] * n)
        elif o == "call":
            self.call(fr, i)
        elif o == "ret":
            fr.ret = self.val(fr, i["ops"][0]) if i["ops"] else None
        elif o in ("br", "switch", "unreachable"):
            pass
        else:
            if sh:
                fr.vals[iid] = ("b", [TOP] * n)
            else:
                fr.vals[iid] = None

    # ------------------------------------------------------------ calls
    def pointee_bytes(self, t):
        if not t.endswith("*"):
            return None
        sh = shape(t[:-1])
        if sh:
            return sh[0] * sh[1] // 8
        return None

    def call(self, fr, i):
        f = fr.f
        base = i.get("intrinsic") or ""
        if base.startswith(("llvm.dbg", "llvm.lifetime")):
            return
        sh = shape(i["type"])
        n = sh[0] * sh[1] if sh else 0
        args = [self.val(fr, o) for o in i["ops"]]
        if base in ("llvm.memcpy", "llvm.memmove"):
            d, s = args[0], args[1]
            ln = as_int(args[2][1]) if args[2] is not None and args[2][0] == "b" else None
            if d and s and d[0] == "p" and s[0] == "p" and ln is not None and d[2] is not None and s[2] is not None and d[1][0] == "al":
                bits = self.rd(s[1], s[2], ln) if s[1][0] in ("al", "arg", "elem") else [TOP] * (8 * ln)
                self.wr(d[1], d[2], bits)
            return
        if base == "llvm.memset":
            d = args[0]
            ln = as_int(args[2][1]) if args[2] is not None and args[2][0] == "b" else None
            v = args[1][1][:8] if args[1] is not None and args[1][0] == "b" else [TOP] * 8
            if d and d[0] == "p" and ln is not None and d[2] is not None and d[1][0] == "al":
                self.wr(d[1], d[2], v * ln)
            return
        g = self.prog.resolve(f.unit, i["callee"][1]) if i["callee"][0] == "f" else None
        # try to interpret the callee; a non-affine result turns the call into a cut
        if g is not None and not g.decl and not g.loops() and self.depth < 4 and all(len(g.succs[b]) <= 1 for b in g.order):
            saved_mem = dict(self.mem)
            saved_cuts = len(self.cuts)
            self.nframes += 1
            sub = Frame(g, args, self.nframes)
            self.depth += 1
            try:
                self.run_blocks(sub, g.order)
                ok = True
            except NotAffine:
                ok = False
            self.depth -= 1
            if ok:
                bad = False
                if sh:
                    rv = sub.ret[1] if sub.ret is not None and sub.ret[0] == "b" else [TOP] * n
                    bad = any(b is None for b in rv[:n]) or len(rv) < n
                # memory written through pointer arguments must be affine too
                for k, a in enumerate(args):
                    if a is not None and a[0] == "p" and a[1][0] == "al" and a[2] is not None:
                        nb = self.pointee_bytes(g.params[k]["type"]) if k < len(g.params) else None
                        if nb:
                            if any(b is None for b in self.rd(a[1], a[2], nb)):
                                bad = True
                if not bad:
                    # affine apart from the cuts made inside (a 'one round' helper that calls the S-box)
                    if sh:
                        fr.vals[i["id"]] = ("b", rv[:n])
                    return
            self.mem = saved_mem
            del self.cuts[saved_cuts:]
        # cut
        if g is not None and not g.decl:
            self.prog.__dict__.setdefault("_cut_callees", set()).add(g.key)
        cid = len(self.cuts)
        cut = {"call": i, "f": f, "ins": [], "outs": []}
        for k, a in enumerate(args):
            if a is None:
                continue
            if a[0] == "b":
                cut["ins"].append((k, list(a[1])))
            elif a[0] == "p" and a[1][0] == "al" and a[2] is not None:
                pt = None
                if g is not None and k < len(g.params):
                    pt = self.pointee_bytes(g.params[k]["type"])
                if pt is None:
                    m = re.match(r".*\((.*)\)", i.get("fnty", ""))
                    if m:
                        ps = [x.strip() for x in m.group(1).split(",")]
                        if k < len(ps):
                            pt = self.pointee_bytes(ps[k])
                if pt:
                    cut["ins"].append((k, self.rd(a[1], a[2], pt)))
                    fresh = [self.V.atom(("cut", cid, k, b)) for b in range(pt * 8)]
                    self.wr(a[1], a[2], fresh)
                    cut["outs"].append((k, fresh))
        if sh:
            fresh = [self.V.atom(("cut", cid, "ret", b)) for b in range(n)]
            fr.vals[i["id"]] = ("b", fresh)
            cut["outs"].append(("ret", fresh))
        self.cuts.append(cut)


# ---------------------------------------------------------------------------------------------------------------
class RoundMap:
    """result of analysing one block function"""

    def __init__(self):
        self.kind = None            # 'enc' | 'dec'
        self.blocks = 0
        self.block_bytes = 0
        self.map = {}               # (block, t) -> (frozenset of (block', t'), frozenset of key atoms (byte, bit), const)
        self.layout_ok = None
        self.why = None
        self.ncuts = 0


def analyse(prog, f, block_bytes, in_k=1, out_k=0, ks_k=2):
    R = RoundMap()
    R.block_bytes = block_bytes
    loops = f.loops()
    if len(loops) != 1:
        R.why = "%d loops" % len(loops)
        return R
    h, body = next(iter(loops.items()))
    # straight-line chains
    pro = []
    b = f.entry
    while b != h:
        pro.append(b)
        ss = f.succs[b]
        if len(ss) != 1:
            R.why = "prologue is not straight-line"
            return R
        b = ss[0]
    inner = [s for s in f.succs[h] if s in body]
    outer = [s for s in f.succs[h] if s not in body]
    if len(inner) != 1 or len(outer) != 1:
        R.why = "loop header does not have one body successor and one exit"
        return R
    chain = []
    b = inner[0]
    while b != h:
        chain.append(b)
        ss = f.succs[b]
        if len(ss) != 1:
            R.why = "round body is not straight-line"
            return R
        b = ss[0]
    epi = []
    b = outer[0]
    while True:
        epi.append(b)
        ss = f.succs[b]
        if not ss:
            break
        if len(ss) != 1:
            R.why = "epilogue is not straight-line"
            return R
        b = ss[0]
    V = Vars()
    args = [None] * len(f.params)
    for k in range(len(f.params)):
        args[k] = ("p", ("arg", k), 0)

    def mem_in(obj, byte, bit):
        if obj == ("arg", in_k):
            return V.atom(("in", byte, bit))
        return TOP
    try:
        # ---- prologue: which state location holds which input bit
        I1 = Interp(prog, V, mem_in)
        fr = Frame(f, args, 0)
        I1.run_blocks(fr, pro)
        hphis = [i for i in f.bbmap[h]["insts"] if i["op"] == "phi"]
        loc_of = {}         # variable index of an input atom -> state location
        state_locs = []
        for ph in hphis:
            sh = shape(ph["type"])
            if not sh:
                continue
            v = None
            for x, pb in zip(ph["ops"], ph["inblocks"]):
                if pb not in body:
                    v = I1.val(fr, x)
            if v is None or v[0] != "b":
                continue
            for bit, form in enumerate(v[1]):
                if form is not None and form[1] == 0 and form[0] and form[0] & (form[0] - 1) == 0:
                    nm = V.names_of(form[0])[0]
                    if nm[0] == "in":
                        state_locs.append((("phi", ph["id"], bit), nm))
        for (obj, byte), cell in sorted(I1.mem.items(), key=repr):
            if obj[0] != "al":
                continue
            for bit, form in enumerate(cell):
                if form is not None and form[1] == 0 and form[0] and form[0] & (form[0] - 1) == 0:
                    nm = V.names_of(form[0])[0]
                    if nm[0] == "in":
                        state_locs.append((("m", obj, byte, bit), nm))
        if not state_locs:
            R.why = "no state location is loaded from the input block"
            return R
        in_of = {}
        for loc, nm in state_locs:
            in_of.setdefault(loc, nm)
        # ---- epilogue first: the locations the output block is written from are the loop-carried state
        def mem_loc(obj, byte, bit):
            if obj[0] == "al":
                return V.atom(("loc", ("m", obj, byte, bit)))
            return TOP
        I0 = Interp(prog, V, mem_loc)
        fr0 = Frame(f, args, 0)
        for k2, v2 in fr.vals.items():
            if v2 is not None and v2[0] == "p":
                fr0.vals[k2] = v2
        for ph in hphis:
            sh = shape(ph["type"])
            if sh:
                I0.phi_vals[ph["id"]] = ("b", [V.atom(("loc", ("phi", ph["id"], bit))) for bit in range(sh[0] * sh[1])])
        I0.run_blocks(fr0, [h] + epi, prev=None)
        canon = {}
        nout = 0
        lay_bad = None
        for (pk, byte), cell in sorted(I0.outs.items()):
            if pk != out_k:
                continue
            for bit, form in enumerate(cell):
                nout += 1
                coord = (byte // block_bytes, (byte % block_bytes) * 8 + bit)
                nm = V.names_of(form[0]) if form is not None and form[1] == 0 and form[0] and form[0] & (form[0] - 1) == 0 else []
                if not nm or nm[0][0] != "loc":
                    R.why = "output byte %d bit %d is not a copy of one state bit" % (byte, bit)
                    return R
                loc = nm[0][1]
                canon[loc] = coord
                src = in_of.get(loc)
                want = ("in", byte, bit)
                if src != want and lay_bad is None:
                    lay_bad = (byte, bit, src, want)
        if not canon:
            R.why = "nothing is written to the output block after the round loop"
            return R
        nblocks = max(c[0] for c in canon.values()) + 1
        if len(canon) != nblocks * block_bytes * 8 or nout != len(canon):
            R.why = "output is written from %d distinct state bits (%d output bits), expected %d blocks x %d" % (len(canon), nout, nblocks, block_bytes * 8)
            return R
        R.layout_ok = lay_bad is None
        R.layout_detail = lay_bad
        R.blocks = nblocks
        satom = {}          # state location -> form (atom)
        sname = {}          # variable index -> (block, t)
        for loc, coord in canon.items():
            a = V.atom(("s",) + coord)
            satom[loc] = a
            sname[a[0]] = coord

        def mem_state(obj, byte, bit):
            if obj[0] == "elem":
                return V.atom(("k", byte, bit))
            a = satom.get(("m", obj, byte, bit))
            return a if a is not None else TOP
        # ---- one round
        I2 = Interp(prog, V, mem_state)
        fr2 = Frame(f, args, 0)
        for k2, v2 in fr.vals.items():
            if v2 is not None and v2[0] == "p":
                fr2.vals[k2] = v2           # allocas and parameter-derived pointers of the prologue
        for ph in hphis:
            sh = shape(ph["type"])
            if sh:
                n = sh[0] * sh[1]
                I2.phi_vals[ph["id"]] = ("b", [satom.get(("phi", ph["id"], bit), TOP) for bit in range(n)])
            elif ph["type"].endswith("*"):
                I2.phi_vals[ph["id"]] = ("p", ("elem", ks_k), 0)
        I2.run_blocks(fr2, [h] + chain, prev=None)
        R.ncuts = len(I2.cuts)
        nxt = {}
        for loc in canon:
            if loc[0] == "phi":
                ph = f.insts[loc[1]]
                v = None
                for x, pb in zip(ph["ops"], ph["inblocks"]):
                    if pb in body:
                        v = I2.val(fr2, x)
                nxt[loc] = v[1][loc[2]] if v is not None and v[0] == "b" and loc[2] < len(v[1]) else TOP
            else:
                cell = I2.mem.get((loc[1], loc[2]))
                nxt[loc] = cell[loc[3]] if cell is not None else satom[loc]
    except NotAffine as e:
        R.why = str(e)
        return R
    # ---- classify and build the canonical map
    cuts = I2.cuts
    if not cuts:
        R.why = "no non-linear call (S-box) in the round body"
        return R
    cut_in = {}         # variable index of a cut output atom -> input form at the same position
    for c in cuts:
        ins = dict(c["ins"])
        for (slot, fresh) in c["outs"]:
            src = ins.get(slot if slot != "ret" else (c["ins"][0][0] if c["ins"] else None))
            if src is None or len(src) != len(fresh):
                continue
            for p, a in enumerate(fresh):
                cut_in[a[0]] = src[p]

    def split(form):
        """(state coords, cut var indices, key atoms, const) of an affine form"""
        ss, cs, ks = set(), set(), set()
        for nm in V.names_of(form[0]):
            if nm[0] == "s":
                ss.add((nm[1], nm[2]))
            elif nm[0] == "cut":
                cs.add(1 << V.idx[nm])
            elif nm[0] == "k":
                ks.add((nm[1], nm[2]))
            else:
                return None
        return ss, cs, ks, form[1]
    pure_in = all(src is not None and src[1] == 0 and src[0] in sname for src in cut_in.values())
    if pure_in and cut_in:
        R.kind = "enc"
        uname = {vi: sname[src[0]] for vi, src in cut_in.items()}
        for loc, coord in canon.items():
            form = nxt[loc]
            if form is None:
                R.why = "next state bit %s is not an affine function of the S-box outputs and the round key" % (coord,)
                return R
            sp = split(form)
            if sp is None or sp[0]:
                R.why = "next state bit %s depends on state bits that bypass the S-box" % (coord,)
                return R
            R.map[coord] = (frozenset(uname[c] for c in sp[1] if c in uname), frozenset(sp[2]), sp[3])
            if any(c not in uname for c in sp[1]):
                R.why = "next state bit %s uses an S-box output that is not tied to a state position" % (coord,)
                return R
    else:
        R.kind = "dec"
        for loc, coord in canon.items():
            form = nxt[loc]
            if form is None or form[1] != 0 or form[0] not in cut_in:
                R.why = "next state bit %s is not directly an inverse-S-box output" % (coord,)
                return R
            src = cut_in[form[0]]
            if src is None:
                R.why = "the inverse S-box input for state bit %s is not affine" % (coord,)
                return R
            sp = split(src)
            if sp is None or sp[1]:
                R.why = "the inverse S-box input for state bit %s is not an affine function of the state" % (coord,)
                return R
            R.map[coord] = (frozenset(sp[0]), frozenset(sp[2]), sp[3])
    return R


def compose_dec_enc(dec, enc):
    """for every (block, t): dec.map applied to enc.map; returns the first position where the result is not the
    identity {(block, t)} with empty key and constant parts, or None."""
    for coord, (ss, ks, c) in sorted(dec.map.items()):
        acc_u, acc_k, acc_c = set(), set(ks), c
        for s in ss:
            e = enc.map.get(s)
            if e is None:
                return coord, "encrypt has no map for state bit %s" % (s,)
            acc_u ^= set(e[0])
            acc_k ^= set(e[1])
            acc_c ^= e[2]
        if acc_u != {coord} or acc_k or acc_c:
            return coord, (sorted(acc_u), sorted(acc_k), acc_c)
    return None


# ---------------------------------------------------------------------------------------------------------------
def pname(ph):
    return re.sub(r"(\.i\d*)+$", "", ph.get("name", str(ph["id"])))


def iter_eval(prog, f, header, path, names=None):
    """interpret one iteration (the blocks of `path`, starting at the loop header) from a symbolic state.
    Returns (V, I, fr, hphis): atoms are ('L', local name, byte, bit), ('E', param, byte, bit) for elements of
    parameter arrays, ('G', byte mod 8, bit) for elements of a constant global table walked by a pointer,
    ('P', name, bit) for integer loop-carried values, ('A', k, bit) for integer parameters."""
    from .mem import AddrMap
    am = AddrMap(f)
    if names is None:
        names = {}
        for i in f.all_insts():
            if i["op"] == "alloca":
                names[i["id"]] = re.sub(r"(\.i\d*)+$", "", i.get("name") or ("#%d" % i["id"]))
    V = Vars()

    def mem_default(obj, byte, bit):
        if obj[0] == "al":
            return V.atom(("L", names.get(obj[2], obj[2]), byte, bit))
        if obj[0] == "elem":
            return V.atom(("E", obj[1], byte, bit))
        if obj[0] == "gelem":
            return V.atom(("G", byte % 8, bit))
        if obj[0] == "arg":
            return V.atom(("M", obj[1], byte, bit))
        return TOP
    I = Interp(prog, V, mem_default)
    I.arg_mem = True
    I.free_atoms = True
    fr = Frame(f, [("p", ("arg", k), 0) for k in range(len(f.params))], 0)
    for k, p in enumerate(f.params):
        if not p["type"].endswith("*"):
            sh = shape(p["type"])
            fr.args[k] = ("b", [V.atom(("A", k, b)) for b in range(sh[0] * sh[1])]) if sh else None
    hphis = [i for i in f.bbmap[header]["insts"] if i["op"] == "phi"]
    for ph in hphis:
        sh = shape(ph["type"])
        if sh:
            I.phi_vals[ph["id"]] = ("b", [V.atom(("P", pname(ph), b)) for b in range(sh[0] * sh[1])])
        elif ph["type"].endswith("*"):
            a = am.of(["i", ph["id"]])
            if a is not None and a.root[0] == "global":
                I.phi_vals[ph["id"]] = ("p", ("gelem", a.root[1]), 0)
            else:
                I.phi_vals[ph["id"]] = ("p", ("elem", a.root[1] if a is not None and a.root[0] == "arg" else -1), 0)
    prev = None
    for b in path:
        I.run_blocks(fr, [b], prev)
        prev = b
    return V, I, fr, hphis, names


def mantis_round_inverse(prog, f, loop_paths):
    """Mantis block functions run forward rounds in one loop and backward rounds in a second one, on the same
    locals (state, tweak, k1, round-constant cursor).  Decides that one backward round undoes one forward round on
    (state, tweak): with F: state' = A(S(state)) + B(tweak', key, rc), tweak' = h(tweak) and the backward round
    feeding v = A'(state) + ... into the (involutive) S-box, v after F must be exactly S(state), and the tweak
    must come back.  Returns None when it holds, a message when it does not, ('skip', why) when not applicable."""
    loops = sorted(f.loops().items(), key=lambda kv: f.rpo().index(kv[0]))
    rounds = []
    for h, body in loops:
        ps = [p for (p, kind, tgt) in loop_paths(f, h, body) if kind == "latch"]
        if len(ps) != 1:
            continue
        try:
            V, I, fr, hphis, names = iter_eval(prog, f, h, ps[0])
        except NotAffine as e:
            continue
        if not I.cuts:
            continue
        rounds.append((h, ps[0], V, I, fr, hphis))
    if len(rounds) != 2:
        return ("skip", "%d round loops with an S-box cut" % len(rounds))

    def enc(V, form):
        if form is None:
            return None
        return (frozenset(V.names_of(form[0])), form[1])

    def final_state(V, I):
        out = {}
        for (obj, byte), cell in I.mem.items():
            if obj[0] == "al" and obj[1] == 0:
                for bit, form in enumerate(cell):
                    out[("L", re.sub(r"(\.i\d*)+$", "", str(I_names.get(obj[2], obj[2]))), byte, bit)] = enc(V, form)
            elif obj[0] == "arg":
                for bit, form in enumerate(cell):
                    out[("M", obj[1], byte, bit)] = enc(V, form)
        return out
    (h1, p1, V1, I1, fr1, ph1), (h2, p2, V2, I2, fr2, ph2) = rounds
    I_names = {}
    for i in f.all_insts():
        if i["op"] == "alloca":
            I_names[i["id"]] = i.get("name") or ("#%d" % i["id"])
    F = final_state(V1, I1)
    B = final_state(V2, I2)
    # forward cuts: inputs must be single state locations; name each output atom by that location
    u_of = {}          # forward cut output atom name -> location it stands for
    for c in I1.cuts:
        ins = dict(c["ins"])
        for (slot, fresh) in c["outs"]:
            src = ins.get(slot if slot != "ret" else (c["ins"][0][0] if c["ins"] else None))
            if src is None or len(src) != len(fresh):
                return ("skip", "forward S-box call shape not recognised")
            for p, a in enumerate(fresh):
                e = enc(V1, src[p])
                if e is None or e[1] != 0 or len(e[0]) != 1 or next(iter(e[0]))[0] not in ("L", "M"):
                    return ("skip", "forward round does not apply the S-box to the plain state")
                u_of[V1.names_of(a[0])[0]] = next(iter(e[0]))
    loc_u = {loc: nm for nm, loc in u_of.items()}
    # backward cuts: input forms per output atom
    vin = {}
    for c in I2.cuts:
        ins = dict(c["ins"])
        for (slot, fresh) in c["outs"]:
            src = ins.get(slot if slot != "ret" else (c["ins"][0][0] if c["ins"] else None))
            if src is None or len(src) != len(fresh):
                return ("skip", "backward S-box call shape not recognised")
            for p, a in enumerate(fresh):
                vin[V2.names_of(a[0])[0]] = enc(V2, src[p])

    def subst(form):
        """apply the forward round to the locations a backward form reads"""
        acc, c = set(), form[1]
        for nm in form[0]:
            rep_ = F.get(nm) if nm[0] in ("L", "M") else None
            if rep_ is None:
                acc ^= {nm}
            else:
                acc ^= set(rep_[0])
                c ^= rep_[1]
        return frozenset(acc), c
    nstate = 0
    for loc, e in sorted(B.items(), key=repr):
        if e is None:
            return "backward round: %s is not an affine function" % (loc,)
        if e[1] == 0 and len(e[0]) == 1 and next(iter(e[0]))[0] == "cut":
            v = vin.get(next(iter(e[0])))
            if v is None:
                return "the S-box input that produces %s in the backward round is not affine" % (loc,)
            got = subst(v)
            want = loc_u.get(loc)
            nstate += 1
            if want is None or got != (frozenset([want]), 0):
                return "state byte %d bit %d (`%s`): the backward round feeds %s into the S-box where the forward round's S-box output for that position is expected" % (
                    loc[2], loc[3], loc[1], sorted(got[0], key=repr)[:4] + (["^1"] if got[1] else []))
        else:
            got = subst(e)
            if got != (frozenset([loc]), 0):
                return "`%s` byte %d bit %d does not come back after a forward and a backward round (%s)" % (loc[1], loc[2], loc[3], sorted(got[0], key=repr)[:3])
    if nstate == 0:
        return ("skip", "no state location receives an S-box output in the backward round")
    return None


def loop_transfer(prog, f, header, body, loop_paths):
    """per acyclic path through one iteration of the loop: {target location: (frozenset of source atoms, const)}
    over byte-addressed locals ('L', name, byte, bit), elements of parameter arrays ('E', param, byte, bit) and the
    integer loop-carried values ('P', name, bit).  'T' marks a non-affine bit."""
    from .mem import AddrMap
    am = AddrMap(f)
    out = {}
    names = {}
    for i in f.all_insts():
        if i["op"] == "alloca":
            # inlined copies are called tk.i, tk.i12 ...: the source-level name is what is comparable
            names[i["id"]] = re.sub(r"(\.i\d*)+$", "", i.get("name") or ("#%d" % i["id"]))
    for (path, kind, tgt) in loop_paths(f, header, body):
        if kind != "latch":
            continue
        V = Vars()

        def mem_default(obj, byte, bit):
            if obj[0] == "al":
                return V.atom(("L", names.get(obj[2], obj[2]), byte, bit))
            if obj[0] == "elem":
                return V.atom(("E", obj[1], byte, bit))
            return TOP
        I = Interp(prog, V, mem_default)
        I.free_atoms = True     # loop-invariant operands computed before the loop (a hoisted constant) are symbols
        fr = Frame(f, [("p", ("arg", k), 0) for k in range(len(f.params))], 0)
        # parameters that are plain integers stay symbolic-free (TOP); pointer parameters are objects
        for k, p in enumerate(f.params):
            if not p["type"].endswith("*"):
                sh = shape(p["type"])
                fr.args[k] = ("b", [V.atom(("A", k, b)) for b in range(sh[0] * sh[1])]) if sh else None
        hphis = [i for i in f.bbmap[header]["insts"] if i["op"] == "phi"]
        for ph in hphis:
            sh = shape(ph["type"])
            if sh:
                I.phi_vals[ph["id"]] = ("b", [V.atom(("P", pname(ph), b)) for b in range(sh[0] * sh[1])])
            elif ph["type"].endswith("*"):
                a = am.of(["i", ph["id"]])
                I.phi_vals[ph["id"]] = ("p", ("elem", a.root[1] if a is not None and a.root[0] == "arg" else -1), 0)
        try:
            prev = None
            for b in path:
                I.run_blocks(fr, [b], prev)
                prev = b
        except NotAffine as e:
            out[tuple(path)] = {"error": str(e)}
            continue
        res = {}

        def enc(form):
            if form is None:
                return "T"
            # instruction ids of loop-invariant operands are not comparable between functions / configurations
            return (frozenset(("X",) if nm[0] == "X" else nm for nm in V.names_of(form[0])), form[1])
        for (obj, byte), cell in I.mem.items():
            if obj[0] == "al" and obj[1] == 0:
                for bit, form in enumerate(cell):
                    loc = ("L", names.get(obj[2], obj[2]), byte, bit)
                    e = enc(form)
                    if e != (frozenset([loc]), 0):
                        res[loc] = e
            elif obj[0] == "elem":
                for bit, form in enumerate(cell):
                    loc = ("E", obj[1], byte, bit)
                    e = enc(form)
                    if e != (frozenset([loc]), 0):
                        res[loc] = e
        for ph in hphis:
            sh = shape(ph["type"])
            if not sh:
                continue
            v = None
            for x, pb in zip(ph["ops"], ph["inblocks"]):
                if pb == path[-1]:
                    v = I.val(fr, x)
            for b in range(sh[0] * sh[1]):
                loc = ("P", pname(ph), b)
                form = v[1][b] if v is not None and v[0] == "b" and b < len(v[1]) else TOP
                res[loc] = enc(form)
        res["cuts"] = len(I.cuts)
        out[tuple(path[1:])] = res
    return out
