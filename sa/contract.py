"""Contract table (DESIGN appendix A): the oracle for C14.R2/R4, C10.R1, C09.R1.

Parameter classes
  OBJ   null -> return 0 (or no-op for void)          KEY  null -> 0
  NZ    null means all-zero (documented)              CHK  null -> 0 (CTR data pointers)
  BUF   caller buffer, no null contract               LEN(lo,hi) accepted range, else 0
  EQ(n) only n accepted                               MOD(b) must be a multiple of b, else 0
  RO    object only read (pointer-to-const in the header)
State guards: fields of the object that must be tested non-null before use.
Every entry was confirmed against the doc comment of the function in include/*.h
(`\\return Zero if ...` clauses); a header function missing here makes every run
INCONCLUSIVE so a new API function cannot slip past unclassified.
"""


def OBJ(): return ("OBJ",)
def KEY(): return ("KEY",)
def NZ(): return ("NZ",)
def CHK(): return ("CHK",)
def BUF(n=None): return ("BUF", n)
def LEN(lo, hi): return ("LEN", lo, hi)
def EQ(n): return ("LEN", n, n)
def MOD(b): return ("MOD", b)
def ANY(): return ("ANY",)
def RO(): return ("RO",)


def _skinny(fam, B):
    p = fam + "_"
    return {
        # "Zero if ks or key is NULL, or size is not between B and 3B"
        p + "set_key": dict(kind="key", params={"ks": OBJ(), "key": KEY(), "size": LEN(B, 3 * B)}, state=[], ret={0, 1}),
        # "Zero if ks or key is NULL, or key_size is not between B and 2B"
        p + "set_tweaked_key": dict(kind="key", params={"ks": OBJ(), "key": KEY(), "key_size": LEN(B, 2 * B)}, state=[], ret={0, 1}),
        # "tweak ... or NULL for a zero tweak"; "Zero if ks is NULL or tweak_size is not between 1 and B"
        p + "set_tweak": dict(kind="tweak", params={"ks": OBJ(), "tweak": NZ(), "tweak_size": LEN(1, B)}, state=[], ret={0, 1}),
        # "output and input can overlap"
        p + "ecb_encrypt": dict(kind="process", params={"output": BUF(B), "input": BUF(B), "ks": RO()}, state=[], ret=None),
        p + "ecb_decrypt": dict(kind="process", params={"output": BUF(B), "input": BUF(B), "ks": RO()}, state=[], ret=None),
        # "Zero if ctr is NULL or insufficient memory"
        p + "ctr_init": dict(kind="init", params={"ctr": OBJ()}, state=[], ret={0, 1}),
        p + "ctr_cleanup": dict(kind="cleanup", params={"ctr": OBJ()}, state=["vtable"], ret=None),
        p + "ctr_set_key": dict(kind="key", params={"ctr": OBJ(), "key": KEY(), "size": LEN(B, 3 * B)}, state=["vtable", "ctx"], ret={0, 1}),
        p + "ctr_set_tweaked_key": dict(kind="key", params={"ctr": OBJ(), "key": KEY(), "key_size": LEN(B, 2 * B)}, state=["vtable", "ctx"], ret={0, 1}),
        p + "ctr_set_tweak": dict(kind="tweak", params={"ctr": OBJ(), "tweak": NZ(), "tweak_size": LEN(1, B)}, state=["vtable", "ctx"], ret={0, 1}),
        # "counter ... NULL for all-zeroes"; "size is greater than B" -> 0
        p + "ctr_set_counter": dict(kind="counter", params={"ctr": OBJ(), "counter": NZ(), "size": LEN(0, B)}, state=["vtable", "ctx"], ret={0, 1}),
        # "Zero if ctr, output or input is NULL"
        p + "ctr_encrypt": dict(kind="process", params={"output": CHK(), "input": CHK(), "size": ANY(), "ctr": OBJ()}, state=["vtable", "ctx"], ret={0, 1}),
        # "Zero if ecb is NULL or insufficient memory"
        p + "parallel_ecb_init": dict(kind="init", params={"ecb": OBJ()}, state=[], ret={0, 1}),
        p + "parallel_ecb_cleanup": dict(kind="cleanup", params={"ecb": OBJ()}, state=["ctx"], ret=None),
        p + "parallel_ecb_set_key": dict(kind="key", params={"ecb": OBJ(), "key": KEY(), "size": LEN(B, 3 * B)}, state=["ctx"], ret={0, 1}),
        # "Zero if ecb is NULL or size is not a multiple of the block size"
        p + "parallel_ecb_encrypt": dict(kind="process", params={"output": BUF(), "input": BUF(), "size": MOD(B), "ecb": OBJ()}, state=["ctx"], ret={0, 1}, ro=["ecb"]),
        p + "parallel_ecb_decrypt": dict(kind="process", params={"output": BUF(), "input": BUF(), "size": MOD(B), "ecb": OBJ()}, state=["ctx"], ret={0, 1}, ro=["ecb"]),
    }


CONTRACT = {}
CONTRACT.update(_skinny("skinny128", 16))
CONTRACT.update(_skinny("skinny64", 8))
CONTRACT.update({
    # "Zero if ks or key is NULL, size is not 16, or rounds is not between 5 and 8"
    "mantis_set_key": dict(kind="key", params={"ks": OBJ(), "key": KEY(), "size": EQ(16), "rounds": LEN(5, 8), "mode": ANY()}, state=[], ret={0, 1}),
    # "tweak ... NULL if the tweak is all-zeroes"; "Zero if ks is NULL or size is not 8"
    "mantis_set_tweak": dict(kind="tweak", params={"ks": OBJ(), "tweak": NZ(), "size": EQ(8)}, state=[], ret={0, 1}),
    "mantis_swap_modes": dict(kind="mode", params={"ks": BUF()}, state=[], ret=None),
    "mantis_ecb_crypt": dict(kind="process", params={"output": BUF(8), "input": BUF(8), "ks": RO()}, state=[], ret=None),
    "mantis_ecb_crypt_tweaked": dict(kind="process", params={"output": BUF(8), "input": BUF(8), "tweak": BUF(8), "ks": RO()}, state=[], ret=None),
    "mantis_ctr_init": dict(kind="init", params={"ctr": OBJ()}, state=[], ret={0, 1}),
    "mantis_ctr_cleanup": dict(kind="cleanup", params={"ctr": OBJ()}, state=["vtable"], ret=None),
    "mantis_ctr_set_key": dict(kind="key", params={"ctr": OBJ(), "key": KEY(), "size": EQ(16), "rounds": LEN(5, 8)}, state=["vtable", "ctx"], ret={0, 1}),
    "mantis_ctr_set_tweak": dict(kind="tweak", params={"ctr": OBJ(), "tweak": NZ(), "tweak_size": EQ(8)}, state=["vtable", "ctx"], ret={0, 1}),
    "mantis_ctr_set_counter": dict(kind="counter", params={"ctr": OBJ(), "counter": NZ(), "size": LEN(0, 8)}, state=["vtable", "ctx"], ret={0, 1}),
    "mantis_ctr_encrypt": dict(kind="process", params={"output": CHK(), "input": CHK(), "size": ANY(), "ctr": OBJ()}, state=["vtable", "ctx"], ret={0, 1}),
    "mantis_parallel_ecb_init": dict(kind="init", params={"ecb": OBJ()}, state=[], ret={0, 1}),
    "mantis_parallel_ecb_cleanup": dict(kind="cleanup", params={"ecb": OBJ()}, state=["ctx"], ret=None),
    "mantis_parallel_ecb_set_key": dict(kind="key", params={"ecb": OBJ(), "key": KEY(), "size": EQ(16), "rounds": LEN(5, 8), "mode": ANY()}, state=["ctx"], ret={0, 1}),
    "mantis_parallel_ecb_swap_modes": dict(kind="mode", params={"ecb": OBJ()}, state=["ctx"], ret=None),
    "mantis_parallel_ecb_crypt": dict(kind="process", params={"output": BUF(), "input": BUF(), "tweak": BUF(), "size": MOD(8), "ecb": OBJ()}, state=["ctx"], ret={0, 1}, ro=["ecb"]),
})


def block_size(fn):
    if fn.startswith("skinny128"):
        return 16
    return 8


def family(fn):
    for p in ("skinny128", "skinny64", "mantis"):
        if fn.startswith(p) or fn.startswith("_" + p):
            return p
    return None
