"""E4: information-flow (security type) check on LLVM IR for constant-time behaviour.

Levels: L (public) / H (secret).  Flow-sensitive on SSA values, class-based on memory:
  * pointer values are L (no pointer in this library is computed from data; a GEP with an
    H index is reported where it is used as an address);
  * a load yields L only if its address resolves to a field of the explicit L table, to a
    constant global, or to a local object into which only L values are ever stored;
    every other load is H (key, tweak, counter, data, schedules, cell unions, vectors);
  * by-value parameters start L and are raised by call sites (context-insensitive join),
    return values likewise.
Sinks (each reported with a def-use witness back to the secret load):
  R1 branch/switch condition, R2 load/store address and vector lane index, R3 select
  condition, R4 indirect callee, R5 length of memcpy/memset/calloc, R6 div/rem operands
  (shift amounts are noted, not failed), R7 H stored into an L field, R8 returned status.
"""
import re
from collections import defaultdict

from .ir import CASTS
from .mem import AddrMap, addr_str

L_FIELDS = {"rounds", "offset", "parallel_size"}     # non-pointer public fields (pointer fields are L by type)
PURE = ("llvm.fshl", "llvm.fshr", "llvm.bswap", "llvm.umin", "llvm.umax", "llvm.smin", "llvm.smax",
        "llvm.ctpop", "llvm.abs", "llvm.vector.reduce", "llvm.x86.", "llvm.ssub.sat", "llvm.usub.sat",
        "llvm.uadd.sat", "llvm.sadd.sat")
IGNORE = ("llvm.lifetime", "llvm.dbg", "llvm.assume", "llvm.experimental.noalias", "llvm.stacksave", "llvm.stackrestore")
MEM = {"llvm.memcpy", "llvm.memmove", "llvm.memset", "memcpy", "memmove", "memset"}
ALLOC = {"calloc", "malloc", "realloc", "free"}
VARTIME_CMP = {"memcmp", "bcmp", "strcmp", "strncmp", "memchr", "strlen", "strchr"}


class Taint:
    def __init__(self, prog, resolve_slots, type_hints=None, public_fields=None):
        self.prog = prog
        self.public_fields = public_fields or set()     # {(struct type, offset, size)}: fields public by role
        self.type_hints = type_hints or {}      # func key -> {(root, prefix offsets): type} from the unoptimised shape
        self.resolve_slots = resolve_slots        # (func, call inst) -> [Func]
        self.funcs = sorted(prog.defined(), key=lambda f: f.key)
        self.am = {f.key: AddrMap(f) for f in self.funcs}
        self.H = {f.key: {} for f in self.funcs}            # inst id -> reason (operand / note)
        self.param = {f.key: {} for f in self.funcs}        # param idx -> reason
        self.retH = {}                                      # func key -> reason
        self.localH = {f.key: {} for f in self.funcs}       # alloca id -> reason
        self.unknown = []                                   # unmodelled callee / shape
        self.findings = []
        self.counts = defaultdict(int)
        self.public_loads = defaultdict(int)      # audit trail: what was treated as public
        self.cmp_sites = []
        # scalar integer struct fields whose every store in the library stores a public value and whose address
        # never escapes are public (inferred; replaces a name list for fields a refactor may add or rename)
        self.fieldH = {}            # canonical field -> reason
        self.field_ok = set()       # canonical fields that qualify for inference
        self._field_prepass()
        self._run()

    # ---------------------------------------------------------------- levels
    def level(self, f, op):
        k = op[0]
        if k == "i":
            return self.H[f.key].get(op[1])
        if k == "a":
            return self.param[f.key].get(op[1])
        if k == "ce":
            for o in op[2]:
                r = self.level(f, o)
                if r:
                    return r
        return None

    def load_level(self, f, inst):
        """reason if the loaded value is H, else None."""
        if self.level(f, inst["ops"][0]):
            return ("val", inst["ops"][0], inst["id"])      # loaded through a secret-dependent address
        if inst["type"].endswith("*"):
            self.public_loads["<pointer-typed load>"] += 1
            return None
        a = self.am[f.key].of(inst["ops"][0])
        if a is None:
            return ("mem", "load through an untracked pointer")
        r = a.root
        if len(a.segs) == 1 and r[0] == "alloca":
            return self.localH[f.key].get(r[1])
        if len(a.segs) == 1 and r[0] == "global":
            g = self.prog.global_def(f.unit, r[1])
            if g and g[1]["constant"]:
                self.public_loads["constant table @" + r[1]] += 1
                return None
            return ("mem", "load from mutable global @%s" % r[1])
        seg = a.segs[-1]
        if not seg.ty:
            seg = seg._replace(ty=self._infer_ty(f, a))
        if seg.ty:
            off = seg.off if seg.off is not None else (seg.rng[0] if seg.rng else None)
            if off is not None:
                path = self.prog.describe(seg.ty, off, inst.get("size"))
                names = [p for p in path if not p.startswith("[") and not p.startswith("<")]
                if names and names[-1] in L_FIELDS and seg.off is not None and not any(p.startswith("<") for p in path):
                    self.public_loads["field " + names[-1]] += 1
                    return None
                if seg.off is not None and any(t == seg.ty and o <= seg.off and seg.off + (inst.get("size") or 1) <= o + z for (t, o, z) in self.public_fields):
                    self.public_loads["field by role (keystream position)"] += 1
                    return None
                known, why = self.field_level(f, inst["ops"][0], inst.get("size"))
                if known:
                    if why is None:
                        self.public_loads["scalar field only ever assigned public values: " + ".".join(names[-2:])] += 1
                        return None
                    return ("mem", "field %s, which receives a secret value at %s" % (".".join(names[-2:]), why))
                return ("mem", "secret memory %s" % addr_str(a, self.prog))
        return ("mem", "secret memory %s" % addr_str(a, self.prog))

    def _mem_secret(self, f, ptr):
        """reason when the memory behind pointer operand `ptr` is secret."""
        a = self.am[f.key].of(ptr) if ptr[0] in ("i", "a", "g", "ce") else None
        if a is None:
            return ("mem", "untracked memory")
        if a.root[0] == "alloca" and len(a.segs) == 1:
            return self.localH[f.key].get(a.root[1])
        if a.root[0] == "global" and len(a.segs) == 1:
            g = self.prog.global_def(f.unit, a.root[1])
            return None if g and g[1]["constant"] else ("mem", "mutable global")
        return ("mem", "secret memory %s" % addr_str(a, self.prog))

    def _infer_ty(self, f, a):
        """type of the object behind the last dereference of `a` when this access is untyped (an i8 GEP after
        optimisation): the type every other access to the same object in this function agrees on."""
        cache = self.__dict__.setdefault("_tycache", {})
        if f.key not in cache:
            m = {}
            am = self.am[f.key]
            for i in f.all_insts():
                ps = []
                if i["op"] == "load":
                    ps = [i["ops"][0]]
                elif i["op"] == "store":
                    ps = [i["ops"][1]]
                elif i["op"] == "getelementptr":
                    ps = [["i", i["id"]]]
                for p in ps:
                    b = am.of(p)
                    if b is None or not b.segs[-1].ty:
                        continue
                    k = (b.root, tuple(x.off for x in b.segs[:-1]))
                    m.setdefault(k, set()).add(b.segs[-1].ty)
            cache[f.key] = m
        k = (a.root, tuple(x.off for x in a.segs[:-1]))
        tys = cache[f.key].get(k, ())
        if not tys:
            tys = self.type_hints.get(f.key, {}).get(k, ())
        return next(iter(tys)) if len(tys) == 1 else None


    def store_class_is_L(self, f, inst):
        a = self.am[f.key].of(inst["ops"][1])
        if a is not None and a.segs[-1].off is not None and not a.segs[-1].ty and len(a.segs) > 1:
            a = a._replace(segs=a.segs[:-1] + (a.segs[-1]._replace(ty=self._infer_ty(f, a)),))
        if a is None or a.segs[-1].off is None or not a.segs[-1].ty:
            return None
        if len(a.segs) == 1 and a.root[0] == "alloca":
            return None
        path = self.prog.describe(a.segs[-1].ty, a.segs[-1].off, inst.get("size"))
        names = [p for p in path if not p.startswith("[") and not p.startswith("<")]
        if names and names[-1] in L_FIELDS and not any(p.startswith("<") for p in path):
            return addr_str(a, self.prog)
        sg = a.segs[-1]
        if any(t == sg.ty and o <= sg.off and sg.off + (inst.get("size") or 1) <= o + z for (t, o, z) in self.public_fields):
            return addr_str(a, self.prog)
        return None

    # ---------------------------------------------------------------- inferred public fields
    SCALARS = ("unsigned int", "int", "unsigned", "size_t", "unsigned long", "long", "unsigned char", "uint8_t", "uint16_t",
               "uint32_t", "uint64_t", "unsigned short", "short", "char", "unsigned long long", "long long")

    def canon_field(self, ty, off, size):
        """(innermost struct type, member offset, member size) when [off, off+size) lies inside ONE integer scalar
        member (descending through nested struct members); None otherwise."""
        for _ in range(6):
            t = self.prog.ditypes.get(ty)
            if not t or t.get("kind") != "struct":
                return None
            hit = None
            for m in t["members"]:
                if m["off"] <= off and off + (size or 1) <= m["off"] + m["size"]:
                    hit = m
            if hit is None:
                return None
            mt = hit["type"].replace("const ", "").replace("volatile ", "").strip()
            if mt in self.SCALARS:
                return (ty, hit["off"], hit["size"])
            if mt in self.prog.ditypes and self.prog.ditypes[mt].get("kind") == "struct":
                ty, off = mt, off - hit["off"]
                continue
            return None
        return None

    def _field_of(self, f, ptr_op, size):
        a = self.am[f.key].of(ptr_op) if ptr_op[0] in ("i", "a", "ce", "g") else None
        if a is None or len(a.segs) < 1 or a.root[0] == "alloca" and len(a.segs) == 1:
            return None
        seg = a.segs[-1]
        ty = seg.ty or (self._infer_ty(f, a) if len(a.segs) > 1 else None)
        if not ty or seg.off is None:
            return None
        return self.canon_field(ty, seg.off, size)

    def _field_prepass(self):
        stored, escaped = set(), set()
        for f in self.funcs:
            uses = f.uses()
            for i in f.all_insts():
                if i["op"] == "store":
                    k = self._field_of(f, i["ops"][1], i.get("size"))
                    if k:
                        stored.add(k)
                    # a pointer to a field stored somewhere: escapes
                    kv = self._field_of(f, i["ops"][0], 1) if i["ops"][0][0] in ("i", "a") and str(f.insts.get(i["ops"][0][1], {}).get("type", "")).endswith("*") else None
                    if kv:
                        escaped.add(kv)
                elif i["op"] == "call":
                    for o in i["ops"]:
                        if o[0] in ("i", "a"):
                            t = f.insts[o[1]]["type"] if o[0] == "i" else f.params[o[1]]["type"]
                            if str(t).endswith("*"):
                                k = self._field_of(f, o, 1)
                                if k:
                                    escaped.add(k)
                                # a pointer to an enclosing object handed to a callee is fine: the callee's own
                                # typed accesses are seen when that callee is analysed
        self.field_ok = stored - escaped

    def field_level(self, f, inst_ptr, size):
        """(known, reason): known=True when the accessed field is an inferred-level scalar field."""
        k = self._field_of(f, inst_ptr, size)
        if k is None or k not in self.field_ok:
            return False, None
        return True, self.fieldH.get(k)

    # ---------------------------------------------------------------- fixpoint
    def _run(self):
        changed = True
        rounds = 0
        while changed:
            rounds += 1
            self.public_loads.clear()
            if rounds > 40:
                self.unknown.append(("", "taint fixpoint did not converge"))
                break
            changed = False
            for f in self.funcs:
                if self._func(f):
                    changed = True
        for f in self.funcs:
            self._sinks(f)
        seen = set()
        for (f, i, name, r) in self.cmp_sites:
            if (f.key, i["id"]) in seen:
                continue
            seen.add((f.key, i["id"]))
            self.findings.append({"rule": "R1", "func": f, "inst": i,
                                  "what": "%s() over %s: the library routine exits at the first differing byte, so its running time depends on secret data" % (name, r[1]),
                                  "witness": ["%s: call to %s" % (f.loc(i), name)]})

    def _raise(self, table, key, reason):
        if key not in table:
            table[key] = reason
            return True
        return False

    def _func(self, f):
        ch = False
        Hf = self.H[f.key]
        inner = True
        while inner:
            inner = False
            for i in f.all_insts():
                op = i["op"]
                iid = i["id"]
                r = None
                if op == "load":
                    r = self.load_level(f, i)
                elif op == "store":
                    # raise local object level
                    a = self.am[f.key].of(i["ops"][1])
                    vr = self.level(f, i["ops"][0])
                    if vr and a is not None and a.root[0] == "alloca" and len(a.segs) == 1:
                        if self._raise(self.localH[f.key], a.root[1], ("val", i["ops"][0], iid)):
                            inner = ch = True
                    elif vr:
                        k = self._field_of(f, i["ops"][1], i.get("size"))
                        if k is not None and k in self.field_ok and k not in self.fieldH:
                            self.fieldH[k] = f.loc(i)
                            inner = ch = True
                    continue
                elif op == "call":
                    r = self._call(f, i)
                    if r == "changed":
                        inner = ch = True
                        r = None
                    if i["type"] == "void":
                        continue
                elif op in ("alloca", "br", "switch", "ret", "unreachable", "fence"):
                    if op == "ret" and i["ops"]:
                        vr = self.level(f, i["ops"][0])
                        if vr and f.key not in self.retH:
                            self.retH[f.key] = ("val", i["ops"][0], iid)
                            ch = True
                    continue
                elif op == "getelementptr":
                    for o in i["ops"]:
                        vr = self.level(f, o)
                        if vr:
                            r = ("val", o, iid)
                            break
                elif op == "phi" or op == "select" or True:
                    if i["type"].endswith("*") and op in ("load",):
                        r = None
                    else:
                        for o in i["ops"]:
                            if o[0] in ("i", "a", "ce"):
                                vr = self.level(f, o)
                                if vr:
                                    r = ("val", o, iid)
                                    break
                if r and iid not in Hf:
                    Hf[iid] = r
                    inner = ch = True
        return ch

    def _targets(self, f, i):
        c = i["callee"]
        if c[0] == "f":
            g = self.prog.resolve(f.unit, c[1])
            return [g] if g else None
        if c[0] in ("i", "a"):
            return self.resolve_slots(f, i) or None
        return None

    def _call(self, f, i):
        c = i["callee"]
        if c[0] == "asm":
            txt = c[1].lower()
            if "cpuid" in txt or "xgetbv" in txt:
                return None
            if not txt.strip() and i["type"] == "void":
                return None     # empty template without outputs: a compiler barrier, computes nothing
            self.unknown.append((f.loc(i), "inline asm not modelled: %s" % c[1][:40]))
            return None
        name = c[1] if c[0] == "f" else None
        base = i.get("intrinsic") or name
        if base and base.startswith(IGNORE):
            return None
        if base and base.startswith(PURE):
            for o in i["ops"]:
                vr = self.level(f, o)
                if vr:
                    return ("val", o, i["id"])
            return None
        if base in MEM:
            # propagate into local destination objects
            a = self.am[f.key].of(i["ops"][0])
            src_r = None
            if base.endswith("memset"):
                src_r = self.level(f, i["ops"][1])
                if src_r:
                    src_r = ("val", i["ops"][1], i["id"])
            else:
                sa = self.am[f.key].of(i["ops"][1])
                if sa is None:
                    src_r = ("mem", "copy from untracked memory")
                elif sa.root[0] == "alloca" and len(sa.segs) == 1:
                    src_r = self.localH[f.key].get(sa.root[1])
                elif sa.root[0] == "global" and len(sa.segs) == 1:
                    src_r = None
                else:
                    src_r = ("mem", "secret memory %s" % addr_str(sa, self.prog))
            if src_r and a is not None and a.root[0] == "alloca" and len(a.segs) == 1:
                if self._raise(self.localH[f.key], a.root[1], src_r):
                    return "changed"
            return None
        if name in ALLOC:
            return None
        if name in VARTIME_CMP:
            # variable-time library comparison: its running time (and result) depend on the buffers' contents
            for k in (0, 1):
                if k >= len(i["ops"]):
                    continue
                r = self._mem_secret(f, i["ops"][k])
                if r:
                    self.cmp_sites.append((f, i, name, r))
                    return ("mem", "result of %s over %s" % (name, r[1]))
            return None
        ts = self._targets(f, i)
        if ts is None:
            if name is not None:
                self.unknown.append((f.loc(i), "call to %s is not modelled" % name))
            else:
                self.unknown.append((f.loc(i), "indirect call with no resolvable target"))
            return None
        ch = False
        r = None
        for g in ts:
            for k, o in enumerate(i["ops"]):
                if k >= len(g.params):
                    break
                vr = self.level(f, o)
                if vr and k not in self.param[g.key]:
                    self.param[g.key][k] = ("arg", f.key, i["id"], o)
                    ch = True
            if g.key in self.retH:
                r = ("ret", g.key, i["id"])
        if ch and r is None:
            return "changed"
        if ch:
            self.H[f.key].setdefault(i["id"], r)
            return "changed"
        return r

    # ---------------------------------------------------------------- sinks
    def witness(self, f, op, depth=0, seen=None):
        """def-use chain from op back to a secret source: list of 'file:line description'."""
        out = []
        seen = seen or set()
        cur_f, cur = f, op
        while depth < 12:
            depth += 1
            if cur[0] == "a":
                r = self.param[cur_f.key].get(cur[1])
                out.append("%s: parameter %s of %s" % (cur_f.loc(cur_f.d), cur_f.params[cur[1]]["name"], cur_f.name))
                if not r:
                    break
                g = self.prog.funcs[r[1]]
                out.append("%s: passed by %s" % (g.loc(r[2]), g.name))
                cur_f, cur = g, r[3]
                continue
            if cur[0] == "ce":
                nxt = None
                for o in cur[2]:
                    if self.level(cur_f, o):
                        nxt = o
                        break
                if nxt is None:
                    break
                cur = nxt
                continue
            if cur[0] != "i":
                break
            if (cur_f.key, cur[1]) in seen:
                break
            seen.add((cur_f.key, cur[1]))
            inst = cur_f.insts[cur[1]]
            r = self.H[cur_f.key].get(cur[1])
            if r is None:
                break
            if r[0] == "mem":
                out.append("%s: %s loads %s" % (cur_f.loc(inst), inst.get("name", "%" + str(inst["id"])), r[1]))
                break
            if r[0] == "val":
                out.append("%s: %s %s" % (cur_f.loc(inst), inst["op"], inst.get("name", "")))
                cur = r[1]
                # local object?
                continue
            if r[0] == "ret":
                g = self.prog.funcs[r[1]]
                out.append("%s: result of %s" % (cur_f.loc(inst), g.name))
                rr = self.retH.get(g.key)
                if not rr:
                    break
                cur_f, cur = g, rr[1]
                continue
            if r[0] == "arg":
                break
            break
        return out

    def _report(self, rule, f, inst, what, op):
        self.findings.append({"rule": rule, "func": f, "inst": inst, "what": what,
                              "witness": self.witness(f, op)})

    def _sinks(self, f):
        for i in f.all_insts():
            op = i["op"]
            if op == "br" and len(i.get("succs", [])) == 2 and i["ops"] and i["ops"][0][0] in ("i", "a"):
                self.counts["R1"] += 1
                if self.level(f, i["ops"][0]):
                    self._report("R1", f, i, "conditional branch on a secret-dependent value", i["ops"][0])
            elif op == "switch":
                self.counts["R1"] += 1
                if self.level(f, i["ops"][0]):
                    self._report("R1", f, i, "switch on a secret-dependent value", i["ops"][0])
            elif op == "load":
                self.counts["R2"] += 1
                if self.level(f, i["ops"][0]):
                    self._report("R2", f, i, "load address depends on a secret (table lookup / data-dependent index)", i["ops"][0])
            elif op == "store":
                self.counts["R2"] += 1
                if self.level(f, i["ops"][1]):
                    self._report("R2", f, i, "store address depends on a secret", i["ops"][1])
                self.counts["R7"] += 1
                lf = self.store_class_is_L(f, i)
                if lf and self.level(f, i["ops"][0]):
                    self._report("R7", f, i, "secret value stored into the public field %s (it later steers branches and addresses)" % lf, i["ops"][0])
            elif op in ("extractelement", "insertelement"):
                idx = i["ops"][1] if op == "extractelement" else i["ops"][2]
                self.counts["R2"] += 1
                if idx[0] in ("i", "a") and self.level(f, idx):
                    self._report("R2", f, i, "vector lane index depends on a secret", idx)
            elif op == "select":
                self.counts["R3"] += 1
                if self.level(f, i["ops"][0]):
                    self._report("R3", f, i, "select on a secret-dependent condition (may be lowered to a branch)", i["ops"][0])
            elif op in ("udiv", "sdiv", "urem", "srem"):
                if i["ops"][1][0] != "c" or i["ops"][0][0] != "c":
                    self.counts["R6"] += 1
                    for o in i["ops"]:
                        if o[0] in ("i", "a") and self.level(f, o):
                            self._report("R6", f, i, "division with a secret operand (variable latency)", o)
                            break
            elif op == "call":
                c = i["callee"]
                if c[0] in ("i", "a"):
                    self.counts["R4"] += 1
                    if self.level(f, c):
                        self._report("R4", f, i, "indirect call target depends on a secret", c)
                base = i.get("intrinsic") or (c[1] if c[0] == "f" else None)
                if base in MEM:
                    self.counts["R5"] += 1
                    if self.level(f, i["ops"][2]):
                        self._report("R5", f, i, "length of %s depends on a secret" % base, i["ops"][2])
                    for k in (0, 1):
                        if k == 1 and base.endswith("memset"):
                            continue
                        if self.level(f, i["ops"][k]):
                            self._report("R2", f, i, "address passed to %s depends on a secret" % base, i["ops"][k])
                elif base in ("calloc", "malloc"):
                    self.counts["R5"] += 1
                    for o in i["ops"]:
                        if o[0] in ("i", "a") and self.level(f, o):
                            self._report("R5", f, i, "allocation size depends on a secret", o)
            elif op == "ret" and i["ops"] and not f.internal and f.ret in ("i32", "i1", "i64", "i8"):
                self.counts["R8"] += 1
                if self.level(f, i["ops"][0]):
                    self._report("R8", f, i, "returned status depends on a secret", i["ops"][0])


def type_hints(prog):
    """{func key: {(root, offsets of the dereferenced fields): {type}}} from a shape that still has typed accesses."""
    out = {}
    for f in prog.defined():
        am = AddrMap(f)
        m = {}
        for i in f.all_insts():
            ps = []
            if i["op"] == "load":
                ps = [i["ops"][0]]
            elif i["op"] == "store":
                ps = [i["ops"][1]]
            elif i["op"] == "getelementptr":
                ps = [["i", i["id"]]]
            for p in ps:
                b = am.of(p)
                if b is None or not b.segs[-1].ty or len(b.segs) < 2:
                    continue
                m.setdefault((b.root, tuple(x.off for x in b.segs[:-1])), set()).add(b.segs[-1].ty)
        if m:
            out[f.key] = m
    return out
