#!/usr/bin/env python3
"""E9c sensitivity run: apply one-edit variants to a scratch copy of /repo (never /repo
itself), check that the variant still compiles, and run the named property checks on
the copy.  Reports which rule flagged which variant.

  tools/seedtest.py [--only N[,N..]] [--props C14,C17] [--tests]

--tests additionally builds the variant with the repo's Makefile and runs the 30 tests
(confirms the edit is invisible to the suite)."""
import argparse
import json
import os
import re
import shutil
import subprocess
import sys
import tempfile

sys.path.insert(0, os.path.dirname(os.path.dirname(os.path.abspath(__file__))))
from sa.seeds import SEEDS  # noqa


def run_check(pid, repo, tier="quick"):
    env = dict(os.environ, VERIF_REPO=repo, VERIF_EVIDENCE_DIR=os.path.join(repo, "_evidence"))
    p = subprocess.run([sys.executable, "-m", "sa.check", pid, "--tier", tier], capture_output=True, text=True,
                       cwd=os.path.dirname(os.path.dirname(os.path.abspath(__file__))), env=env)
    rules = set(re.findall(r"rule=(C\d+\.R\d+[a-z]?)", "\n".join(l for l in p.stdout.splitlines() if l.startswith("  rule="))))
    broken = [l for l in p.stdout.splitlines() if l.startswith(("ANALYSIS-BROKEN", "INCONCLUSIVE"))]
    return p.returncode, rules, broken, p.stdout


def main():
    ap = argparse.ArgumentParser()
    ap.add_argument("--only")
    ap.add_argument("--props")
    ap.add_argument("--tests", action="store_true")
    ap.add_argument("--json")
    ap.add_argument("-v", action="store_true")
    a = ap.parse_args()
    only = set(int(x) for x in a.only.split(",")) if a.only else None
    props = set(a.props.split(",")) if a.props else None
    base = tempfile.mkdtemp(prefix="skv-seed-")
    results = []
    try:
        for sd in SEEDS:
            if only and sd["n"] not in only:
                continue
            want_props = sorted({r.split(".")[0] for r in sd["rules"]})
            if props:
                want_props = [p for p in want_props if p in props]
                if not want_props:
                    continue
            repo = os.path.join(base, "r%d" % sd["n"])
            subprocess.run(["rsync", "-a", "--exclude", ".git", "--exclude", "*.o", "--exclude", "*.a", "/repo/", repo + "/"], check=True)
            ok = True
            for (fn, old, new) in sd["edits"]:
                path = os.path.join(repo, fn)
                s = open(path).read()
                if s.count(old) < 1:
                    print("#%d %s: EDIT DOES NOT APPLY (%s)" % (sd["n"], sd["name"], fn))
                    ok = False
                    break
                s = s.replace(old, new, 1)
                open(path, "w").write(s)
            if not ok:
                results.append({"n": sd["n"], "name": sd["name"], "applied": False})
                shutil.rmtree(repo, ignore_errors=True)
                continue
            tests = None
            if a.tests:
                p = subprocess.run("make -s -C %s clean >/dev/null 2>&1; make -s -C %s check 2>&1" % (repo, repo), shell=True, capture_output=True, text=True)
                npass = len(re.findall(r": ok", p.stdout))
                tests = (p.returncode == 0 and npass >= 30)
                subprocess.run("make -s -C %s clean >/dev/null 2>&1" % repo, shell=True)
            detected = {}
            for pid in want_props:
                rc, rules, broken, out = run_check(pid, repo)
                detected[pid] = {"exit": rc, "rules": sorted(rules), "broken": broken[:3]}
                if a.v:
                    print(out)
            exp = set(sd["rules"])
            got = set()
            for d in detected.values():
                got |= set(d["rules"])
            hit = bool(exp & got) or any(d["exit"] == 1 for d in detected.values())
            status = "DETECTED" if hit else ("BROKEN" if any(d["exit"] == 2 for d in detected.values()) else "MISSED")
            print("#%-3d %-8s %-60s expected %s got %s%s" % (sd["n"], status, sd["name"][:60], sorted(exp), sorted(got),
                                                           "" if tests is None else (" tests=%s" % ("pass" if tests else "FAIL"))))
            results.append({"n": sd["n"], "name": sd["name"], "applied": True, "status": status, "expected": sorted(exp),
                            "got": sorted(got), "tests_pass": tests, "detail": detected})
            shutil.rmtree(repo, ignore_errors=True)
    finally:
        shutil.rmtree(base, ignore_errors=True)
    if a.json:
        json.dump(results, open(a.json, "w"), indent=1)
    nd = sum(1 for r in results if r.get("status") == "DETECTED")
    print("%d/%d variants detected" % (nd, sum(1 for r in results if r.get("applied"))))


if __name__ == "__main__":
    main()
