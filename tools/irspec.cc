// irspec: semantics-preserving specialisation of one -O0 LLVM-14 module before fact extraction.
//
//   irspec in.ll out.ll        (decisions are printed to stderr, one per line: "inline <callee> <reason>")
//
// The analyses in /verif/sa summarise callees; three kinds of internal (static) helper defeat summaries and are
// therefore inlined into their callers, exactly as the C semantics allow:
//   (P) pointer-returning, loop-free, small helpers ("give me the back end of this object, or NULL"): the caller's
//       null test on the result is a test on the object, which a summary by return class cannot express as aliasing;
//   (H) helpers that contain an indirect call (shared drivers that take the function to run as a parameter, or pick
//       it from a flag): the dispatch is only decidable once the caller's constant arguments are visible;
//   (W) helpers whose only callers are trivial public wrappers (a public function that does nothing but forward its
//       arguments plus constants to the helper): encrypt()/decrypt() pairs merged into one driver with a mode flag.
// After inlining, ONLY the functions that received a body are cleaned up: mem2reg, instruction simplification
// (folding, never creating instructions), folding of constant terminators and removal of unreachable blocks.
// Every other function is left byte-for-byte as clang -O0 produced it, so on a tree without such helpers the
// output equals the input.

#include "llvm/Analysis/InstructionSimplify.h"
#include "llvm/IR/CFG.h"
#include "llvm/IR/Dominators.h"
#include "llvm/IR/Function.h"
#include "llvm/IR/InstIterator.h"
#include "llvm/IR/Instructions.h"
#include "llvm/IR/IntrinsicInst.h"
#include "llvm/IR/LLVMContext.h"
#include "llvm/IR/Module.h"
#include "llvm/IR/PassManager.h"
#include "llvm/IR/Verifier.h"
#include "llvm/IRReader/IRReader.h"
#include "llvm/Passes/PassBuilder.h"
#include "llvm/Support/FileSystem.h"
#include "llvm/Support/SourceMgr.h"
#include "llvm/Support/raw_ostream.h"
#include "llvm/Transforms/IPO/AlwaysInliner.h"
#include "llvm/Transforms/Scalar/InstSimplifyPass.h"
#include "llvm/Transforms/Scalar/SCCP.h"
#include "llvm/Transforms/Scalar/JumpThreading.h"
#include "llvm/Transforms/Scalar/SROA.h"
#include "llvm/Transforms/Utils/Local.h"
#include "llvm/Transforms/Utils/Mem2Reg.h"
#include "llvm/Transforms/Utils/UnrollLoop.h"
#include "llvm/Transforms/Utils/LoopSimplify.h"
#include "llvm/Transforms/Utils/LCSSA.h"
#include "llvm/Analysis/LoopInfo.h"
#include "llvm/Analysis/ScalarEvolution.h"
#include "llvm/Analysis/ScalarEvolutionExpressions.h"
#include "llvm/Analysis/AssumptionCache.h"
#include "llvm/Analysis/TargetTransformInfo.h"
#include "llvm/Analysis/OptimizationRemarkEmitter.h"

#include <map>
#include <set>
#include <string>
#include <vector>

using namespace llvm;

static bool hasLoop(Function &F) {
  // back edge detection by DFS colouring
  std::map<BasicBlock *, int> col;
  std::vector<std::pair<BasicBlock *, unsigned>> st;
  if (F.empty()) return false;
  st.push_back({&F.getEntryBlock(), 0});
  col[&F.getEntryBlock()] = 1;
  while (!st.empty()) {
    auto &top = st.back();
    BasicBlock *B = top.first;
    Instruction *T = B->getTerminator();
    if (top.second < T->getNumSuccessors()) {
      BasicBlock *S = T->getSuccessor(top.second++);
      int c = col[S];
      if (c == 1) return true;
      if (c == 0) {
        col[S] = 1;
        st.push_back({S, 0});
      }
    } else {
      col[B] = 2;
      st.pop_back();
    }
  }
  return false;
}

static unsigned realInsts(Function &F) {
  unsigned n = 0;
  for (Instruction &I : instructions(F)) {
    if (isa<DbgInfoIntrinsic>(I) || isa<AllocaInst>(I)) continue;
    ++n;
  }
  return n;
}

static bool isRealCall(Instruction &I) {
  auto *CB = dyn_cast<CallBase>(&I);
  if (!CB) return false;
  if (isa<IntrinsicInst>(CB)) return false;
  return true;
}

static bool hasIndirectCall(Function &F) {
  for (Instruction &I : instructions(F)) {
    auto *CB = dyn_cast<CallBase>(&I);
    if (!CB || CB->isInlineAsm()) continue;
    if (!CB->getCalledFunction() && !isa<Function>(CB->getCalledOperand()->stripPointerCasts()))
      return true;
  }
  return false;
}

// a public function that only forwards: one real call, no branches, no other memory effects than its own slots
static bool trivialWrapper(Function &F, Function *&callee) {
  callee = nullptr;
  if (F.isDeclaration() || F.hasLocalLinkage()) return false;
  if (F.size() != 1) return false;
  unsigned calls = 0;
  for (Instruction &I : instructions(F)) {
    if (isRealCall(I)) {
      auto *CB = cast<CallBase>(&I);
      Function *C = CB->getCalledFunction();
      if (!C) return false;
      callee = C;
      ++calls;
      continue;
    }
    if (isa<DbgInfoIntrinsic>(I) || isa<AllocaInst>(I) || isa<ReturnInst>(I) || isa<CastInst>(I)) continue;
    if (auto *S = dyn_cast<StoreInst>(&I)) {
      if (isa<AllocaInst>(S->getPointerOperand())) continue;
      return false;
    }
    if (auto *L = dyn_cast<LoadInst>(&I)) {
      if (isa<AllocaInst>(L->getPointerOperand())) continue;
      return false;
    }
    return false;
  }
  return calls == 1 && callee;
}

// a variable-length memcpy / memset / memmove whose destination is derived from a pointer parameter: whether it
// stays inside the destination can only be decided where the buffer and the length guards are (the caller)
static bool varLenMemOnParam(Function &F) {
  for (Instruction &I : instructions(F)) {
    auto *MI = dyn_cast<MemIntrinsic>(&I);
    if (!MI || isa<ConstantInt>(MI->getLength())) continue;
    Value *D = MI->getRawDest()->stripInBoundsOffsets();
    // at -O0 the parameter lives in an alloca: look through one load of a parameter slot
    for (int k = 0; k < 6 && D; ++k) {
      if (isa<Argument>(D)) return true;
      if (auto *L = dyn_cast<LoadInst>(D)) {
        if (auto *A = dyn_cast<AllocaInst>(L->getPointerOperand())) {
          Value *stored = nullptr;
          for (User *U : A->users())
            if (auto *S = dyn_cast<StoreInst>(U))
              if (S->getPointerOperand() == A) stored = S->getValueOperand();
          if (stored && isa<Argument>(stored)) return true;
          D = stored ? stored->stripInBoundsOffsets() : nullptr;
          continue;
        }
        return false;
      }
      if (auto *G = dyn_cast<GetElementPtrInst>(D)) { D = G->getPointerOperand()->stripInBoundsOffsets(); continue; }
      if (auto *C = dyn_cast<CastInst>(D)) { D = C->getOperand(0)->stripInBoundsOffsets(); continue; }
      break;
    }
  }
  return false;
}

// "is this length acceptable"-style helpers: small, loop-free, call-free, integer result that is a comparison (or
// 0 / 1) on every path, no stores to anything but their own locals.  The facts a caller learns from testing the
// result depend on the constants it passes, so the helper is inlined rather than summarised.
static bool boolLike(Value *V, int depth = 0) {
  if (depth > 6) return false;
  if (isa<ConstantInt>(V)) return true;      // 0 / 1, or one of a few literal answers (a round count)
  if (isa<ICmpInst>(V)) return true;
  if (auto *Z = dyn_cast<ZExtInst>(V)) return Z->getOperand(0)->getType()->isIntegerTy(1);
  if (auto *P = dyn_cast<PHINode>(V)) {
    for (Value *I : P->incoming_values())
      if (!boolLike(I, depth + 1)) return false;
    return true;
  }
  if (auto *L = dyn_cast<LoadInst>(V)) {
    // -O0: the return value travels through an alloca slot
    if (auto *A = dyn_cast<AllocaInst>(L->getPointerOperand())) {
      bool any = false;
      for (User *U : A->users())
        if (auto *S = dyn_cast<StoreInst>(U))
          if (S->getPointerOperand() == A) {
            any = true;
            if (!boolLike(S->getValueOperand(), depth + 1)) return false;
          }
      return any;
    }
  }
  if (auto *B = dyn_cast<BinaryOperator>(V))
    if (B->getOpcode() == Instruction::And || B->getOpcode() == Instruction::Or)
      return boolLike(B->getOperand(0), depth + 1) && boolLike(B->getOperand(1), depth + 1);
  return false;
}

static bool booleanPredicate(Function &F) {
  if (!F.getReturnType()->isIntegerTy() || hasLoop(F) || realInsts(F) > 60) return false;
  bool anyRet = false;
  for (Instruction &I : instructions(F)) {
    if (isRealCall(I)) return false;
    if (auto *S = dyn_cast<StoreInst>(&I))
      if (!isa<AllocaInst>(S->getPointerOperand())) return false;
    if (auto *R = dyn_cast<ReturnInst>(&I)) {
      anyRet = true;
      if (!R->getReturnValue() || !boolLike(R->getReturnValue())) return false;
    }
  }
  return anyRet;
}

// READ_WORD32-style accessors written as functions: (pointer, offset) -> value, or (pointer, offset, value) ->
// void.  Small, loop-free, call-free; every memory access goes through a pointer parameter at an index that depends
// on an integer parameter.  Inlined, so that the access appears at the call site with its constant offset.
static Value *throughSlot(Value *V, int depth = 0) {
  // -O0: parameters are spilled to allocas; look through one load of such a slot and through casts / adds
  while (V && depth++ < 8) {
    if (auto *C = dyn_cast<CastInst>(V)) { V = C->getOperand(0); continue; }
    if (auto *L = dyn_cast<LoadInst>(V)) {
      if (auto *A = dyn_cast<AllocaInst>(L->getPointerOperand())) {
        Value *stored = nullptr;
        unsigned n = 0;
        for (User *U : A->users())
          if (auto *S = dyn_cast<StoreInst>(U))
            if (S->getPointerOperand() == A) { stored = S->getValueOperand(); ++n; }
        if (n == 1) { V = stored; continue; }
      }
      return V;
    }
    if (auto *B = dyn_cast<BinaryOperator>(V)) {
      if (isa<ConstantInt>(B->getOperand(1))) { V = B->getOperand(0); continue; }
      if (isa<ConstantInt>(B->getOperand(0))) { V = B->getOperand(1); continue; }
      return V;
    }
    if (auto *G = dyn_cast<GetElementPtrInst>(V)) { V = G->getPointerOperand(); continue; }
    return V;
  }
  return V;
}

static bool accessorHelper(Function &F) {
  if (hasLoop(F) || realInsts(F) > 90) return false;
  bool ptrParam = false, intParam = false;
  for (Argument &A : F.args()) {
    if (A.getType()->isPointerTy()) ptrParam = true;
    if (A.getType()->isIntegerTy()) intParam = true;
  }
  if (!ptrParam || !intParam) return false;
  bool indexed = false;
  for (Instruction &I : instructions(F)) {
    if (isRealCall(I)) return false;
    Value *P = nullptr;
    if (auto *L = dyn_cast<LoadInst>(&I)) P = L->getPointerOperand();
    if (auto *S = dyn_cast<StoreInst>(&I)) P = S->getPointerOperand();
    if (!P || isa<AllocaInst>(P)) continue;
    // every access to non-local memory: base must come from a pointer parameter
    // walk the address chain (GEPs, casts, -O0 slots) down to its base, noting parameter-dependent indices
    Value *V = P;
    bool idx = false;
    for (int depth = 0; V && depth < 16; ++depth) {
      V = V->stripPointerCasts();
      if (auto *G = dyn_cast<GetElementPtrInst>(V)) {
        for (Value *Ix : G->indices())
          if (auto *IA = dyn_cast_or_null<Argument>(throughSlot(Ix)))
            if (IA->getType()->isIntegerTy()) idx = true;
        V = G->getPointerOperand();
        continue;
      }
      if (auto *L = dyn_cast<LoadInst>(V)) {
        auto *A = dyn_cast<AllocaInst>(L->getPointerOperand());
        if (!A) return false;
        Value *stored = nullptr;
        unsigned n = 0;
        for (User *U : A->users())
          if (auto *S = dyn_cast<StoreInst>(U))
            if (S->getPointerOperand() == A) { stored = S->getValueOperand(); ++n; }
        if (n != 1) return false;
        V = stored;
        continue;
      }
      break;
    }
    if (!V || !isa<Argument>(V)) return false;
    if (idx) indexed = true;
  }
  return indexed;
}

// (E) element helpers: a small loop-free call-free helper that some caller hands the address of an ARRAY ELEMENT of
// aggregate type selected by a run-time index (`helper(&ks->schedule[index], ...)`): the access to the walked array
// happens in the helper.  Inlined so that the walk (which element, in which order) is visible in the walking loop.
static bool elementHelper(Function &F) {
  if (hasLoop(F) || realInsts(F) > 60) return false;
  for (Instruction &I : instructions(F))
    if (isRealCall(I)) return false;
  for (User *U : F.users()) {
    auto *CB = dyn_cast<CallBase>(U);
    if (!CB || CB->getCalledFunction() != &F) continue;
    for (Value *A : CB->args()) {
      if (!A->getType()->isPointerTy()) continue;
      Value *V = A->stripPointerCasts();
      auto *G = dyn_cast<GetElementPtrInst>(V);
      if (!G || !G->getResultElementType()->isAggregateType()) continue;
      if (!G->getSourceElementType()->isArrayTy() && G->getNumIndices() != 1) continue;
      bool var = false;
      for (Value *Ix : G->indices())
        if (!isa<ConstantInt>(Ix)) var = true;
      if (var) return true;
    }
  }
  return false;
}

static bool selfRecursive(Function &F) {
  for (Instruction &I : instructions(F))
    if (auto *CB = dyn_cast<CallBase>(&I))
      if (CB->getCalledFunction() == &F) return true;
  return false;
}

int main(int argc, char **argv) {
  if (argc < 3) {
    errs() << "usage: irspec in.ll out.ll [-nounroll]\n";
    return 2;
  }
  LLVMContext Context;
  SMDiagnostic Err;
  std::unique_ptr<Module> M = parseIRFile(argv[1], Err, Context);
  if (!M) {
    Err.print(argv[0], errs());
    return 2;
  }
  std::map<Function *, std::string> chosen;
  // (W) callee -> are all its uses calls from trivial wrappers?
  std::map<Function *, bool> onlyWrappers;
  for (Function &F : *M) {
    if (F.isDeclaration() || !F.hasLocalLinkage()) continue;
    bool all = !F.use_empty();
    for (User *U : F.users()) {
      auto *CB = dyn_cast<CallBase>(U);
      if (!CB || CB->getCalledFunction() != &F) { all = false; break; }
      Function *W = CB->getFunction(), *C = nullptr;
      if (!trivialWrapper(*W, C) || C != &F) { all = false; break; }
    }
    onlyWrappers[&F] = all;
  }
  for (Function &F : *M) {
    if (F.isDeclaration() || !F.hasLocalLinkage() || selfRecursive(F)) continue;
    if (F.hasFnAttribute(Attribute::NoInline) && F.hasFnAttribute(Attribute::OptimizeNone)) continue;
    bool direct_use = false;
    for (User *U : F.users())
      if (auto *CB = dyn_cast<CallBase>(U))
        if (CB->getCalledFunction() == &F) direct_use = true;
    if (!direct_use) continue;
    if (F.getReturnType()->isPointerTy() && !hasLoop(F) && realInsts(F) <= 60)
      chosen[&F] = "P pointer-returning loop-free helper";
    else if (hasIndirectCall(F))
      chosen[&F] = "H helper containing an indirect call";
    else if (onlyWrappers[&F])
      chosen[&F] = "W helper called only from trivial public wrappers";
    else if (booleanPredicate(F))
      chosen[&F] = "B loop-free call-free predicate / selector helper (returns comparison results or literals)";
    else if (accessorHelper(F))
      chosen[&F] = "L loop-free call-free accessor helper (loads / stores at pointer parameter + offset parameter)";
    else if (!hasLoop(F) && varLenMemOnParam(F))
      chosen[&F] = "M loop-free helper with a variable-length memcpy/memset on a parameter";
    else if (elementHelper(F))
      chosen[&F] = "E loop-free call-free helper handed the address of a run-time-indexed array element";
  }
  // (A) hardware probes: internal helpers that contain inline assembly (CPUID / XGETBV wrappers), and internal
  // helpers that call such a helper, are inlined so that the probe is one function again
  {
    bool grewA = true;
    while (grewA) {
      grewA = false;
      for (Function &F : *M) {
        if (F.isDeclaration() || !F.hasLocalLinkage() || selfRecursive(F) || chosen.count(&F)) continue;
        bool direct_use = false;
        for (User *U : F.users())
          if (auto *CB = dyn_cast<CallBase>(U))
            if (CB->getCalledFunction() == &F) direct_use = true;
        if (!direct_use) continue;
        bool hit = false;
        for (Instruction &I : instructions(F))
          if (auto *CB = dyn_cast<CallBase>(&I)) {
            if (CB->isInlineAsm()) hit = true;
            else if (Function *C = CB->getCalledFunction())
              if (chosen.count(C) && chosen[C][0] == 'A') hit = true;
          }
        if (hit) {
          chosen[&F] = "A helper of a hardware probe (inline assembly inside)";
          grewA = true;
        }
      }
    }
  }
  std::set<Function *> receivers;
  std::set<std::string> chosenNames;
  for (auto &kv : chosen) chosenNames.insert(std::string(kv.first->getName()));
  for (auto &kv : chosen) {
    Function *F = kv.first;
    errs() << "inline " << F->getName() << " " << kv.second << "\n";
    F->removeFnAttr(Attribute::NoInline);
    F->removeFnAttr(Attribute::OptimizeNone);
    F->addFnAttr(Attribute::AlwaysInline);
    for (User *U : F->users())
      if (auto *CB = dyn_cast<CallBase>(U))
        if (CB->getCalledFunction() == F) receivers.insert(CB->getFunction());
  }
  std::set<std::string> recvNames;
  LoopAnalysisManager LAM;
  FunctionAnalysisManager FAM;
  CGSCCAnalysisManager CGAM;
  ModuleAnalysisManager MAM;
  PassBuilder PB;
  PB.registerModuleAnalyses(MAM);
  PB.registerCGSCCAnalyses(CGAM);
  PB.registerFunctionAnalyses(FAM);
  PB.registerLoopAnalyses(LAM);
  PB.crossRegisterProxies(LAM, FAM, CGAM, MAM);
  if (!chosen.empty()) {
    // receivers of receivers (a chosen helper inlined into another chosen helper)
    bool grew = true;
    while (grew) {
      grew = false;
      for (Function *R : std::set<Function *>(receivers))
        if (chosen.count(R))
          for (User *U : R->users())
            if (auto *CB = dyn_cast<CallBase>(U))
              if (CB->getCalledFunction() == R && receivers.insert(CB->getFunction()).second) grew = true;
    }
    for (Function *R : receivers) recvNames.insert(std::string(R->getName()));
    for (int round = 0; round < 4; ++round) {
      ModulePassManager MPM;
      MPM.addPass(AlwaysInlinerPass(/*InsertLifetime=*/false));
      MPM.run(*M, MAM);      // also deletes always-inline internal functions that became dead
      MAM.clear();
      FAM.clear();
    }
    for (const std::string &N : chosenNames)
      if (Function *F = M->getFunction(N))
        if (F->use_empty()) {
          recvNames.erase(N);
          F->eraseFromParent();
        }
  }
  // SSA form for every function (the O0 shape of the analyses is clang -O0 + mem2reg)
  for (Function &F : *M) {
    if (F.isDeclaration()) continue;
    FunctionPassManager FPM;
    FPM.addPass(PromotePass());
    FPM.run(F, FAM);
    FAM.invalidate(F, PreservedAnalyses::none());
  }
  // (T) a conditional branch on a comparison of a phi that has constant incoming values ("v = obj ? obj->f : 0;
  // if (!v) return 0;") hides which predecessor was taken: such functions get LLVM's jump threading, which
  // redirects the constant predecessors straight to their successor
  for (Function &F : *M) {
    if (F.isDeclaration()) continue;
    bool trig = false;
    for (BasicBlock &B : F) {
      auto *BI = dyn_cast<BranchInst>(B.getTerminator());
      if (!BI || !BI->isConditional()) continue;
      auto *IC = dyn_cast<ICmpInst>(BI->getCondition());
      if (!IC || !IC->isEquality()) continue;
      for (unsigned k = 0; k < 2 && !trig; ++k) {
        auto *PN = dyn_cast<PHINode>(IC->getOperand(k));
        if (!PN || !isa<Constant>(IC->getOperand(1 - k))) continue;
        if (PN->getParent() != &B) continue;
        bool anyConst = false, anyVar = false;
        for (Value *V : PN->incoming_values()) (isa<Constant>(V) ? anyConst : anyVar) = true;
        if (anyConst && anyVar) trig = true;
      }
    }
    if (trig && !recvNames.count(std::string(F.getName()))) {
      errs() << "thread " << F.getName() << " T branch on a phi with constant incoming values\n";
      recvNames.insert(std::string(F.getName()));
    }
    // (R) `return p != NULL;` (or == NULL) after the same pointer was already tested by a branch: the two outcomes
    // are merged before the return, so success and failure share one tail.  The return is split into a branch with
    // two constant returns; jump threading (below) then separates the tails again.
    std::vector<ReturnInst *> rets;
    for (BasicBlock &B : F)
      if (auto *RI = dyn_cast<ReturnInst>(B.getTerminator()))
        if (RI->getReturnValue()) rets.push_back(RI);
    // the same through the usual -O0 shape "br label %return; return: ret (phi ...)": split the incoming edge
    for (ReturnInst *RI : rets) {
      auto *PN = dyn_cast<PHINode>(RI->getReturnValue());
      if (!PN || PN->getParent() != RI->getParent()) continue;
      bool onlyPhis = true;
      for (Instruction &I : *RI->getParent())
        if (!isa<PHINode>(I) && !isa<DbgInfoIntrinsic>(I) && &I != RI) onlyPhis = false;
      if (!onlyPhis) continue;
      for (unsigned k = 0; k < PN->getNumIncomingValues();) {
        Value *V = PN->getIncomingValue(k);
        BasicBlock *Pred = PN->getIncomingBlock(k);
        ICmpInst *IC = nullptr;
        if (auto *Z = dyn_cast<ZExtInst>(V)) IC = dyn_cast<ICmpInst>(Z->getOperand(0));
        else IC = dyn_cast<ICmpInst>(V);
        auto *PB = dyn_cast<BranchInst>(Pred->getTerminator());
        bool ok = IC && IC->isEquality() && IC->getOperand(0)->getType()->isPointerTy() &&
                  isa<ConstantPointerNull>(IC->getOperand(1)) && PB && PB->isUnconditional() &&
                  PN->getNumIncomingValues() > 1;
        if (ok) {
          bool tested = false;
          for (User *U : IC->getOperand(0)->users())
            if (auto *C2 = dyn_cast<ICmpInst>(U))
              if (C2 != IC && C2->isEquality())
                for (User *UU : C2->users())
                  if (isa<BranchInst>(UU)) tested = true;
          ok = tested;
        }
        // every phi of the return block must be handled: only the returned one may exist
        unsigned nphi = 0;
        for (Instruction &I : *RI->getParent()) if (isa<PHINode>(I)) ++nphi;
        if (!ok || nphi != 1) { ++k; continue; }
        LLVMContext &Cx = F.getContext();
        BasicBlock *TB = BasicBlock::Create(Cx, Pred->getName() + ".ret.t", &F);
        BasicBlock *FB = BasicBlock::Create(Cx, Pred->getName() + ".ret.f", &F);
        Type *RT = F.getReturnType();
        ReturnInst::Create(Cx, ConstantInt::get(RT, 1), TB)->setDebugLoc(RI->getDebugLoc());
        ReturnInst::Create(Cx, ConstantInt::get(RT, 0), FB)->setDebugLoc(RI->getDebugLoc());
        BranchInst *BR = BranchInst::Create(TB, FB, IC, PB);
        BR->setDebugLoc(PB->getDebugLoc());
        PB->eraseFromParent();
        PN->removeIncomingValue(k, false);
        errs() << "thread " << F.getName() << " R return of a null test that a branch already made\n";
        recvNames.insert(std::string(F.getName()));
      }
    }
    for (ReturnInst *RI : rets) {
      Value *V = RI->getReturnValue();
      ICmpInst *IC = nullptr;
      if (auto *Z = dyn_cast<ZExtInst>(V)) IC = dyn_cast<ICmpInst>(Z->getOperand(0));
      else IC = dyn_cast<ICmpInst>(V);
      if (!IC || !IC->isEquality() || !IC->getOperand(0)->getType()->isPointerTy() ||
          !isa<ConstantPointerNull>(IC->getOperand(1)))
        continue;
      Value *P = IC->getOperand(0);
      bool tested = false;
      for (User *U : P->users())
        if (auto *C2 = dyn_cast<ICmpInst>(U))
          if (C2 != IC && C2->isEquality())
            for (User *UU : C2->users())
              if (isa<BranchInst>(UU)) tested = true;
      if (!tested) continue;
      BasicBlock *BB = RI->getParent();
      LLVMContext &Cx = F.getContext();
      BasicBlock *TB = BasicBlock::Create(Cx, BB->getName() + ".ret.t", &F);
      BasicBlock *FB = BasicBlock::Create(Cx, BB->getName() + ".ret.f", &F);
      Type *RT = F.getReturnType();
      ReturnInst::Create(Cx, ConstantInt::get(RT, 1), TB);
      ReturnInst::Create(Cx, ConstantInt::get(RT, 0), FB);
      BranchInst *BR = BranchInst::Create(TB, FB, IC, RI);
      BR->setDebugLoc(RI->getDebugLoc());
      TB->getTerminator()->setDebugLoc(RI->getDebugLoc());
      FB->getTerminator()->setDebugLoc(RI->getDebugLoc());
      RI->eraseFromParent();
      errs() << "thread " << F.getName() << " R return of a null test that a branch already made\n";
      recvNames.insert(std::string(F.getName()));
    }
  }
  for (const std::string &N : recvNames) {
    Function *R = M->getFunction(N);
    if (!R || R->isDeclaration()) continue;
    FunctionPassManager FPM;
    FPM.addPass(SROAPass());       // an inlined helper's struct out-parameter becomes scalars
    FPM.addPass(InstSimplifyPass());
    FPM.run(*R, FAM);
    bool changed = true;
    int guard = 0;
    while (changed && guard++ < 8) {
      changed = false;
      for (BasicBlock &B : *R) changed |= ConstantFoldTerminator(&B, true);
      changed |= removeUnreachableBlocks(*R);
      FAM.invalidate(*R, PreservedAnalyses::none());
      FunctionPassManager F2;
      F2.addPass(InstSimplifyPass());
      PreservedAnalyses PA = F2.run(*R, FAM);
      if (!PA.areAllPreserved()) changed = true;
      FAM.invalidate(*R, PreservedAnalyses::none());
    }
    FunctionPassManager F3;
    F3.addPass(JumpThreadingPass(false, 60));
    F3.run(*R, FAM);
    FAM.invalidate(*R, PreservedAnalyses::none());
    removeUnreachableBlocks(*R);
  }
  // (U) loops with a small constant trip count are unrolled completely: "statement repeated 8 times" and
  // "for (i = 0; i < 8; ++i) statement(i)" become the same straight-line code, with constant offsets and
  // constant call arguments.  Innermost loops first; a loop is left alone when its trip count is not a
  // compile-time constant, exceeds 64, or the unrolled body would exceed 6000 instructions.
  bool noUnroll = argc > 3 && std::string(argv[3]) == "-nounroll";
  for (Function &F : *M) {
    if (F.isDeclaration() || noUnroll) continue;
    bool again = true;
    int rounds = 0;
    while (again && rounds++ < 16) {
      again = false;
      FAM.invalidate(F, PreservedAnalyses::none());
      {
        FunctionPassManager FPM;
        FPM.addPass(LoopSimplifyPass());
        FPM.addPass(LCSSAPass());
        // only normalise functions that have a candidate loop: checked below on a scratch analysis
      }
      auto &LI0 = FAM.getResult<LoopAnalysis>(F);
      if (LI0.empty()) break;
      // candidates need simplified form for the trip-count computation; compute on the current form first
      auto &SE0 = FAM.getResult<ScalarEvolutionAnalysis>(F);
      bool cand = false;
      for (Loop *L : LI0.getLoopsInPreorder()) {
        if (!L->isInnermost()) continue;
        const SCEV *BT = SE0.getBackedgeTakenCount(L);
        if (auto *C = dyn_cast<SCEVConstant>(BT))
          if (C->getAPInt().ult(64)) cand = true;
      }
      if (!cand) break;
      {
        FunctionPassManager FPM;
        FPM.addPass(LoopSimplifyPass());
        FPM.addPass(LCSSAPass());
        FPM.run(F, FAM);
        FAM.invalidate(F, PreservedAnalyses::none());
      }
      auto &LI = FAM.getResult<LoopAnalysis>(F);
      auto &SE = FAM.getResult<ScalarEvolutionAnalysis>(F);
      auto &DT = FAM.getResult<DominatorTreeAnalysis>(F);
      auto &AC = FAM.getResult<AssumptionAnalysis>(F);
      auto &TTI = FAM.getResult<TargetIRAnalysis>(F);
      OptimizationRemarkEmitter ORE(&F);
      for (Loop *L : LI.getLoopsInPreorder()) {
        if (!L->isInnermost()) continue;
        unsigned TC = SE.getSmallConstantTripCount(L);
        if (TC == 0 || TC > 64) continue;
        unsigned sz = 0;
        for (BasicBlock *B : L->blocks()) sz += B->size();
        if (sz * TC > 6000) continue;
        UnrollLoopOptions ULO;
        ULO.Count = TC;
        ULO.Force = true;
        ULO.Runtime = false;
        ULO.AllowExpensiveTripCount = false;
        ULO.UnrollRemainder = false;
        ULO.ForgetAllSCEV = true;
        std::string hn = std::string(L->getHeader()->getName());
        LoopUnrollResult R = UnrollLoop(L, ULO, &LI, &SE, &DT, &AC, &TTI, &ORE, /*PreserveLCSSA=*/true);
        if (R == LoopUnrollResult::FullyUnrolled) {
          errs() << "unroll " << F.getName() << " U loop@" << hn << " x" << TC << "\n";
          again = true;
          break;      // analyses are stale: recompute and look for the next loop
        }
      }
    }
    if (rounds > 1) {
      FAM.invalidate(F, PreservedAnalyses::none());
      FunctionPassManager FPM;
      FPM.addPass(InstSimplifyPass());
      FPM.run(F, FAM);
      bool changed = true;
      int guard = 0;
      while (changed && guard++ < 8) {
        changed = false;
        for (BasicBlock &B : F) changed |= ConstantFoldTerminator(&B, true);
        changed |= removeUnreachableBlocks(F);
      }
      FAM.invalidate(F, PreservedAnalyses::none());
    }
  }
  if (verifyModule(*M, &errs())) {
    errs() << "irspec: module broken after specialisation\n";
    return 2;
  }
  std::error_code EC;
  raw_fd_ostream OS(argv[2], EC, sys::fs::OF_None);
  if (EC) {
    errs() << "cannot write " << argv[2] << "\n";
    return 2;
  }
  M->print(OS, nullptr);
  return 0;
}
