#!/bin/sh
# re-evaluate one stored independent seed against every claimed check (quick tier):
#   tools/regress_agentseed.sh <name under seeded/>      prints "<name> prop=<id> -> <check>:<exit> ..."
V=$(cd "$(dirname "$0")/.." && pwd)
cd "$V" || exit 2
d=$V/seeded/$1
[ -f "$d/patch.diff" ] || exit 0
tmp=$(mktemp -d /tmp/skv-rs-XXXXXX)
rsync -a --exclude .git --exclude '*.o' --exclude '*.a' /repo/ "$tmp/repo/"
(cd "$tmp/repo" && patch -p1 -s --no-backup-if-mismatch < "$d/patch.diff") || { echo "$1 PATCHFAIL"; rm -rf "$tmp"; exit 0; }
prop=$(python3 -c "import json;print(json.load(open('$d/meta.json'))['property'])")
out=""
for p in $(python3 -c "import json;print(' '.join(c['property_id'] for c in json.load(open('MANIFEST.json'))['checks']))"); do
  VERIF_REPO=$tmp/repo VERIF_EVIDENCE_DIR=$tmp/ev python3 -m sa.check "$p" --tier quick > "$tmp/out.txt" 2>&1; rc=$?
  [ $rc -ne 0 ] && out="$out $p:$rc"
done
case "$out" in *"$prop:1"*) v=OWN;; *":1"*) v=OTHER;; *) v=MISSED;; esac
echo "$1 prop=$prop $v ->$out"
rm -rf "$tmp"
