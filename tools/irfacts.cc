// irfacts: dump one LLVM-14 module (bitcode or .ll) as JSON facts for the
// Python analysis layer.  Uses the LLVM C++ API only (no text parsing).
//
//   irfacts <module.ll|bc>  > facts.json
//
// Output shape (all keys always present unless noted):
//  { "source": str, "triple": str,
//    "structs":  { irname: {"size":n,"align":n,"fields":[{"off":n,"size":n,"type":str}], "opaque":bool} },
//    "ditypes":  { cname: {"kind":"struct|union","size":n,"members":[{"name":str,"off":n,"size":n,"type":str}]} },
//    "globals":  [ {name,type,constant,linkage,decl,zeroinit,init,align,file,line} ],
//    "functions":[ {name,linkage,decl,ret,params:[{name,type,attrs}],file,line,varargs,
//                   blocks:[{name,insts:[...]}]} ] }
// Operand encoding (JSON arrays):
//   ["i",id] instruction result   ["a",k] argument k      ["c",value,type] integer constant
//   ["n",type] null pointer       ["g",name] global var   ["f",name] function
//   ["u",type] undef/poison       ["b",name] basic block  ["z",type] zeroinitializer
//   ["cv",[ops],type] constant vector / data vector / aggregate
//   ["ce",opcode,[ops],type,extra?] constant expression    ["fp",type] fp constant  ["m"] metadata
//   ["asm",str,constraints,sideeffect]

#include "llvm/IR/Constants.h"
#include "llvm/IR/DataLayout.h"
#include "llvm/IR/DebugInfo.h"
#include "llvm/IR/DebugInfoMetadata.h"
#include "llvm/IR/Function.h"
#include "llvm/IR/GetElementPtrTypeIterator.h"
#include "llvm/IR/InlineAsm.h"
#include "llvm/IR/Instructions.h"
#include "llvm/IR/IntrinsicInst.h"
#include "llvm/IR/LLVMContext.h"
#include "llvm/IR/Module.h"
#include "llvm/IR/Operator.h"
#include "llvm/IRReader/IRReader.h"
#include "llvm/Support/SourceMgr.h"
#include "llvm/Support/raw_ostream.h"

#include <map>
#include <set>
#include <string>

using namespace llvm;

static std::string esc(StringRef s) {
  std::string o;
  o.reserve(s.size() + 2);
  o.push_back('"');
  for (unsigned char c : s) {
    switch (c) {
    case '"': o += "\\\""; break;
    case '\\': o += "\\\\"; break;
    case '\n': o += "\\n"; break;
    case '\t': o += "\\t"; break;
    case '\r': o += "\\r"; break;
    default:
      if (c < 0x20 || c >= 0x7f) {
        char buf[8];
        snprintf(buf, sizeof buf, "\\u%04x", c);
        o += buf;
      } else
        o.push_back((char)c);
    }
  }
  o.push_back('"');
  return o;
}

static std::string tyStr(Type *T) {
  std::string s;
  raw_string_ostream os(s);
  T->print(os, false, true);
  return os.str();
}

struct Ctx {
  const DataLayout *DL;
  std::map<const Value *, unsigned> ids;
  std::map<const Argument *, unsigned> argidx;
};

static std::string opnd(const Value *V, Ctx &C, int depth = 0);

static std::string gepInfo(const GEPOperator *G, Ctx &C);

static std::string constExpr(const ConstantExpr *CE, Ctx &C, int depth) {
  std::string s = "[\"ce\"," + esc(CE->getOpcodeName()) + ",[";
  for (unsigned i = 0; i < CE->getNumOperands(); ++i) {
    if (i) s += ",";
    s += opnd(CE->getOperand(i), C, depth + 1);
  }
  s += "]," + esc(tyStr(CE->getType()));
  if (auto *G = dyn_cast<GEPOperator>(CE))
    s += "," + gepInfo(G, C);
  s += "]";
  return s;
}

static std::string opnd(const Value *V, Ctx &C, int depth) {
  if (depth > 8) return "[\"u\",\"deep\"]";
  if (auto *A = dyn_cast<Argument>(V))
    return "[\"a\"," + std::to_string(A->getArgNo()) + "]";
  if (auto *I = dyn_cast<Instruction>(V))
    return "[\"i\"," + std::to_string(C.ids[I]) + "]";
  if (auto *BB = dyn_cast<BasicBlock>(V))
    return "[\"b\"," + esc(BB->getName()) + "]";
  if (auto *F = dyn_cast<Function>(V))
    return "[\"f\"," + esc(F->getName()) + "]";
  if (auto *G = dyn_cast<GlobalVariable>(V))
    return "[\"g\"," + esc(G->getName()) + "]";
  if (auto *GA = dyn_cast<GlobalAlias>(V))
    return "[\"g\"," + esc(GA->getName()) + "]";
  if (auto *CI = dyn_cast<ConstantInt>(V)) {
    // print as unsigned decimal of the zero-extended value when <= 64 bits
    std::string v;
    if (CI->getBitWidth() <= 64)
      v = std::to_string(CI->getZExtValue());
    else {
      SmallString<40> S;
      CI->getValue().toStringUnsigned(S);
      v = "\"" + std::string(S.str()) + "\"";
    }
    return "[\"c\"," + v + "," + esc(tyStr(CI->getType())) + "]";
  }
  if (isa<ConstantPointerNull>(V))
    return "[\"n\"," + esc(tyStr(V->getType())) + "]";
  if (isa<PoisonValue>(V)) // result of folding an operation that is undefined for its constant operands
    return "[\"u\"," + esc(tyStr(V->getType())) + ",\"poison\"]";
  if (isa<UndefValue>(V))
    return "[\"u\"," + esc(tyStr(V->getType())) + "]";
  if (isa<ConstantAggregateZero>(V))
    return "[\"z\"," + esc(tyStr(V->getType())) + "]";
  if (isa<ConstantFP>(V))
    return "[\"fp\"," + esc(tyStr(V->getType())) + "]";
  if (auto *CE = dyn_cast<ConstantExpr>(V))
    return constExpr(CE, C, depth);
  if (auto *CA = dyn_cast<ConstantAggregate>(V)) {
    std::string s = "[\"cv\",[";
    for (unsigned i = 0; i < CA->getNumOperands(); ++i) {
      if (i) s += ",";
      s += opnd(CA->getOperand(i), C, depth + 1);
    }
    s += "]," + esc(tyStr(V->getType())) + "]";
    return s;
  }
  if (auto *CDS = dyn_cast<ConstantDataSequential>(V)) {
    std::string s = "[\"cv\",[";
    for (unsigned i = 0; i < CDS->getNumElements(); ++i) {
      if (i) s += ",";
      s += opnd(CDS->getElementAsConstant(i), C, depth + 1);
    }
    s += "]," + esc(tyStr(V->getType())) + "]";
    return s;
  }
  if (auto *IA = dyn_cast<InlineAsm>(V))
    return "[\"asm\"," + esc(IA->getAsmString()) + "," +
           esc(IA->getConstraintString()) + "," +
           (IA->hasSideEffects() ? "true" : "false") + "]";
  if (isa<MetadataAsValue>(V))
    return "[\"m\"]";
  return "[\"u\",\"unknown\"]";
}

// Decompose a GEP: constant byte offset, variable terms (operand x scale) and
// the step list (struct field selections / array indexing) with byte offsets.
static std::string gepInfo(const GEPOperator *G, Ctx &C) {
  const DataLayout &DL = *C.DL;
  int64_t coff = 0;
  std::string vars = "[";
  std::string steps = "[";
  bool firstv = true, firsts = true;
  Type *Cur = nullptr; // container type being indexed (null for the pointer level)
  for (gep_type_iterator GTI = gep_type_begin(G), E = gep_type_end(G);
       GTI != E; ++GTI) {
    const Value *Idx = GTI.getOperand();
    Type *Container = Cur;
    Cur = GTI.getIndexedType();
    if (StructType *ST = GTI.getStructTypeOrNull()) {
      unsigned fi = cast<ConstantInt>(Idx)->getZExtValue();
      const StructLayout *SL = DL.getStructLayout(ST);
      uint64_t off = SL->getElementOffset(fi);
      coff += off;
      if (!firsts) steps += ",";
      firsts = false;
      steps += "{\"k\":\"field\",\"struct\":" +
               esc(ST->hasName() ? ST->getName() : StringRef("")) +
               ",\"idx\":" + std::to_string(fi) + ",\"off\":" +
               std::to_string(off) + ",\"size\":" +
               std::to_string(DL.getTypeAllocSize(ST->getElementType(fi))) +
               ",\"type\":" + esc(tyStr(ST->getElementType(fi))) + "}";
    } else {
      Type *ET = GTI.getIndexedType();
      uint64_t sz = DL.getTypeAllocSize(ET);
      // number of elements if indexing into an array/vector, else 0 (pointer)
      uint64_t count = 0;
      // The container type is not directly exposed by the iterator in a
      // uniform way; recover it from isSequential/isBoundedSequential.
      if (Container) {
        if (auto *AT = dyn_cast<ArrayType>(Container)) count = AT->getNumElements();
        else if (auto *VT = dyn_cast<FixedVectorType>(Container)) count = VT->getNumElements();
      }
      if (!firsts) steps += ",";
      firsts = false;
      steps += "{\"k\":\"index\",\"elsize\":" + std::to_string(sz) +
               ",\"count\":" + std::to_string(count) + ",\"eltype\":" +
               esc(tyStr(ET)) + ",";
      if (auto *CI = dyn_cast<ConstantInt>(Idx)) {
        int64_t v = CI->getSExtValue();
        coff += v * (int64_t)sz;
        steps += "\"const\":" + std::to_string(v) + "}";
      } else {
        if (!firstv) vars += ",";
        firstv = false;
        vars += "[" + opnd(Idx, C) + "," + std::to_string(sz) + "]";
        steps += "\"var\":" + opnd(Idx, C) + "}";
      }
    }
  }
  vars += "]";
  steps += "]";
  return "{\"base\":" + opnd(G->getPointerOperand(), C) +
         ",\"srcty\":" + esc(tyStr(G->getSourceElementType())) +
         ",\"coff\":" + std::to_string(coff) + ",\"vars\":" + vars +
         ",\"steps\":" + steps +
         ",\"inbounds\":" + (G->isInBounds() ? "true" : "false") + "}";
}

static void locOf(const Instruction &I, std::string &out) {
  if (const DebugLoc &DLc = I.getDebugLoc()) {
    // walk to the outermost inlined-at to report the physical position too
    const DILocation *L = DLc.get();
    out += ",\"line\":" + std::to_string(L->getLine()) +
           ",\"col\":" + std::to_string(L->getColumn()) +
           ",\"file\":" + esc(L->getFilename());
    if (auto *SP = L->getScope()->getSubprogram())
      out += ",\"scope\":" + esc(SP->getName());
    if (const DILocation *IA = L->getInlinedAt()) {
      const DILocation *Outer = IA;
      while (Outer->getInlinedAt()) Outer = Outer->getInlinedAt();
      out += ",\"inl_line\":" + std::to_string(Outer->getLine()) +
             ",\"inl_file\":" + esc(Outer->getFilename());
    }
  }
}

static std::string diTypeName(const DIType *T) {
  int guard = 0;
  std::string suffix;
  while (T && guard++ < 16) {
    if (auto *D = dyn_cast<DIDerivedType>(T)) {
      unsigned tag = D->getTag();
      if (tag == dwarf::DW_TAG_typedef) return std::string(D->getName()) + suffix;
      if (tag == dwarf::DW_TAG_pointer_type) suffix = "*" + suffix;
      else if (tag == dwarf::DW_TAG_const_type) suffix = " const" + suffix;
      else if (tag == dwarf::DW_TAG_volatile_type) suffix = " volatile" + suffix;
      T = D->getBaseType();
      if (!T) return "void" + suffix;
      continue;
    }
    if (auto *CT = dyn_cast<DICompositeType>(T)) {
      if (CT->getTag() == dwarf::DW_TAG_array_type) {
        std::string dims;
        for (auto *El : CT->getElements())
          if (auto *SR = dyn_cast<DISubrange>(El)) {
            if (auto *CI = SR->getCount().dyn_cast<ConstantInt *>())
              dims += "[" + std::to_string(CI->getSExtValue()) + "]";
            else
              dims += "[]";
          }
        return diTypeName(CT->getBaseType()) + dims + suffix;
      }
      if (!CT->getName().empty()) return std::string(CT->getName()) + suffix;
      return "<anon>" + suffix;
    }
    if (auto *BT = dyn_cast<DIBasicType>(T)) return std::string(BT->getName()) + suffix;
    if (isa<DISubroutineType>(T)) return "<fn>" + suffix;
    break;
  }
  return "?" + suffix;
}

static void emitComposite(raw_ostream &OS, StringRef name,
                          const DICompositeType *CT, bool &first) {
  if (CT->getTag() != dwarf::DW_TAG_structure_type &&
      CT->getTag() != dwarf::DW_TAG_union_type)
    return;
  if (!first) OS << ",\n";
  first = false;
  OS << esc(name) << ":{\"kind\":"
     << (CT->getTag() == dwarf::DW_TAG_union_type ? "\"union\"" : "\"struct\"")
     << ",\"size\":" << CT->getSizeInBits() / 8 << ",\"members\":[";
  bool f2 = true;
  for (auto *El : CT->getElements()) {
    auto *M = dyn_cast<DIDerivedType>(El);
    if (!M || M->getTag() != dwarf::DW_TAG_member) continue;
    if (!f2) OS << ",";
    f2 = false;
    OS << "{\"name\":" << esc(M->getName())
       << ",\"off\":" << M->getOffsetInBits() / 8
       << ",\"size\":" << M->getSizeInBits() / 8
       << ",\"type\":" << esc(diTypeName(M->getBaseType())) << "}";
  }
  OS << "]}";
}

int main(int argc, char **argv) {
  if (argc < 2) {
    errs() << "usage: irfacts module.ll\n";
    return 2;
  }
  LLVMContext Context;
  SMDiagnostic Err;
  std::unique_ptr<Module> M = parseIRFile(argv[1], Err, Context);
  if (!M) {
    Err.print(argv[0], errs());
    return 2;
  }
  const DataLayout &DL = M->getDataLayout();
  raw_ostream &OS = outs();
  Ctx C;
  C.DL = &DL;

  OS << "{\"source\":" << esc(M->getSourceFileName())
     << ",\"triple\":" << esc(M->getTargetTriple()) << ",\n";

  // struct layouts
  OS << "\"structs\":{";
  {
    bool first = true;
    for (StructType *ST : M->getIdentifiedStructTypes()) {
      if (!first) OS << ",\n";
      first = false;
      OS << esc(ST->getName()) << ":{";
      if (ST->isOpaque()) {
        OS << "\"opaque\":true,\"size\":0,\"align\":0,\"fields\":[]}";
        continue;
      }
      const StructLayout *SL = DL.getStructLayout(ST);
      OS << "\"opaque\":false,\"size\":" << SL->getSizeInBytes()
         << ",\"align\":" << SL->getAlignment().value() << ",\"fields\":[";
      for (unsigned i = 0; i < ST->getNumElements(); ++i) {
        if (i) OS << ",";
        OS << "{\"off\":" << SL->getElementOffset(i) << ",\"size\":"
           << DL.getTypeAllocSize(ST->getElementType(i)) << ",\"type\":"
           << esc(tyStr(ST->getElementType(i))) << "}";
      }
      OS << "]}";
    }
  }
  OS << "},\n";

  // debug-info composite types (by typedef name or own name)
  OS << "\"ditypes\":{";
  {
    DebugInfoFinder F;
    F.processModule(*M);
    bool first = true;
    std::set<std::string> seen;
    for (DIType *T : F.types()) {
      if (auto *D = dyn_cast<DIDerivedType>(T)) {
        if (D->getTag() == dwarf::DW_TAG_typedef && D->getBaseType())
          if (auto *CT = dyn_cast<DICompositeType>(D->getBaseType()))
            if (seen.insert(std::string(D->getName())).second)
              emitComposite(OS, D->getName(), CT, first);
      } else if (auto *CT = dyn_cast<DICompositeType>(T)) {
        if (!CT->getName().empty() &&
            seen.insert(std::string(CT->getName())).second)
          emitComposite(OS, CT->getName(), CT, first);
      }
    }
  }
  OS << "},\n";

  // globals
  OS << "\"globals\":[";
  {
    bool first = true;
    for (GlobalVariable &G : M->globals()) {
      if (!first) OS << ",\n";
      first = false;
      OS << "{\"name\":" << esc(G.getName())
         << ",\"type\":" << esc(tyStr(G.getValueType()))
         << ",\"constant\":" << (G.isConstant() ? "true" : "false")
         << ",\"linkage\":" << (int)G.getLinkage()
         << ",\"internal\":" << (G.hasLocalLinkage() ? "true" : "false")
         << ",\"decl\":" << (G.isDeclaration() ? "true" : "false")
         << ",\"tls\":" << (G.isThreadLocal() ? "true" : "false")
         << ",\"align\":" << (G.getAlign() ? G.getAlign()->value() : 0)
         << ",\"size\":"
         << (G.getValueType()->isSized() ? DL.getTypeAllocSize(G.getValueType()).getFixedSize() : 0);
      if (G.hasInitializer()) {
        const Constant *I = G.getInitializer();
        OS << ",\"zeroinit\":" << (I->isNullValue() ? "true" : "false")
           << ",\"init\":" << opnd(I, C);
      } else
        OS << ",\"zeroinit\":false,\"init\":null";
      SmallVector<DIGlobalVariableExpression *, 1> GVs;
      G.getDebugInfo(GVs);
      if (!GVs.empty()) {
        auto *DGV = GVs[0]->getVariable();
        OS << ",\"file\":" << esc(DGV->getFilename())
           << ",\"line\":" << DGV->getLine()
           << ",\"cname\":" << esc(DGV->getName())
           << ",\"ctype\":" << esc(diTypeName(DGV->getType()));
        if (auto *Scope = dyn_cast_or_null<DISubprogram>(DGV->getScope()))
          OS << ",\"function_static\":" << esc(Scope->getName());
      }
      OS << "}";
    }
  }
  OS << "],\n";

  // functions
  OS << "\"functions\":[";
  bool firstF = true;
  for (Function &F : *M) {
    if (F.isIntrinsic() && F.isDeclaration()) {
      // still listed, as declarations, so callee names resolve
    }
    if (!firstF) OS << ",\n";
    firstF = false;
    OS << "{\"name\":" << esc(F.getName())
       << ",\"internal\":" << (F.hasLocalLinkage() ? "true" : "false")
       << ",\"decl\":" << (F.isDeclaration() ? "true" : "false")
       << ",\"intrinsic\":" << (F.isIntrinsic() ? "true" : "false")
       << ",\"varargs\":" << (F.isVarArg() ? "true" : "false")
       << ",\"ret\":" << esc(tyStr(F.getReturnType()));
    if (DISubprogram *SP = F.getSubprogram()) {
      OS << ",\"file\":" << esc(SP->getFilename()) << ",\"line\":" << SP->getLine();
      // C-level parameter types (for const qualifiers)
      if (auto *ST = SP->getType()) {
        OS << ",\"ctypes\":[";
        auto TA = ST->getTypeArray();
        for (unsigned i = 0; i < TA.size(); ++i) {
          if (i) OS << ",";
          OS << esc(TA[i] ? diTypeName(TA[i]) : std::string("void"));
        }
        OS << "]";
      }
    }
    OS << ",\"params\":[";
    for (Argument &A : F.args()) {
      if (A.getArgNo()) OS << ",";
      OS << "{\"name\":" << esc(A.getName()) << ",\"type\":" << esc(tyStr(A.getType())) << "}";
    }
    OS << "],\"blocks\":[";
    // number instructions
    unsigned n = 0;
    C.ids.clear();
    for (BasicBlock &BB : F)
      for (Instruction &I : BB) C.ids[&I] = n++;
    bool firstB = true;
    for (BasicBlock &BB : F) {
      if (!firstB) OS << ",\n";
      firstB = false;
      OS << "{\"name\":" << esc(BB.getName()) << ",\"insts\":[";
      bool firstI = true;
      for (Instruction &I : BB) {
        if (isa<DbgInfoIntrinsic>(I)) continue;
        if (!firstI) OS << ",\n";
        firstI = false;
        std::string s = "{\"id\":" + std::to_string(C.ids[&I]) +
                        ",\"op\":" + esc(I.getOpcodeName()) +
                        ",\"type\":" + esc(tyStr(I.getType()));
        if (I.hasName()) s += ",\"name\":" + esc(I.getName());
        s += ",\"ops\":[";
        if (auto *PN = dyn_cast<PHINode>(&I)) {
          for (unsigned i = 0; i < PN->getNumIncomingValues(); ++i) {
            if (i) s += ",";
            s += opnd(PN->getIncomingValue(i), C);
          }
          s += "],\"inblocks\":[";
          for (unsigned i = 0; i < PN->getNumIncomingValues(); ++i) {
            if (i) s += ",";
            s += esc(PN->getIncomingBlock(i)->getName());
          }
          s += "]";
        } else if (auto *CB = dyn_cast<CallBase>(&I)) {
          for (unsigned i = 0; i < CB->arg_size(); ++i) {
            if (i) s += ",";
            s += opnd(CB->getArgOperand(i), C);
          }
          s += "],\"callee\":" + opnd(CB->getCalledOperand()->stripPointerCasts(), C);
          s += ",\"fnty\":" + esc(tyStr(CB->getFunctionType()));
          if (auto *II = dyn_cast<IntrinsicInst>(CB))
            s += ",\"intrinsic\":" + esc(Intrinsic::getBaseName(II->getIntrinsicID()));
          if (auto *MI = dyn_cast<MemIntrinsic>(CB))
            s += std::string(",\"volatile\":") + (MI->isVolatile() ? "true" : "false");
        } else {
          for (unsigned i = 0; i < I.getNumOperands(); ++i) {
            if (i) s += ",";
            s += opnd(I.getOperand(i), C);
          }
          s += "]";
        }
        if (auto *G = dyn_cast<GetElementPtrInst>(&I))
          s += ",\"gep\":" + gepInfo(cast<GEPOperator>(G), C);
        if (auto *L = dyn_cast<LoadInst>(&I))
          s += std::string(",\"volatile\":") + (L->isVolatile() ? "true" : "false") +
               ",\"align\":" + std::to_string(L->getAlign().value()) +
               ",\"size\":" + std::to_string(DL.getTypeStoreSize(L->getType()).getFixedSize());
        if (auto *S = dyn_cast<StoreInst>(&I))
          s += std::string(",\"volatile\":") + (S->isVolatile() ? "true" : "false") +
               ",\"align\":" + std::to_string(S->getAlign().value()) +
               ",\"size\":" + std::to_string(DL.getTypeStoreSize(S->getValueOperand()->getType()).getFixedSize()) +
               ",\"vtype\":" + esc(tyStr(S->getValueOperand()->getType()));
        if (auto *A = dyn_cast<AllocaInst>(&I)) {
          s += ",\"alloc_type\":" + esc(tyStr(A->getAllocatedType())) +
               ",\"alloc_size\":" + std::to_string(DL.getTypeAllocSize(A->getAllocatedType()).getFixedSize()) +
               ",\"align\":" + std::to_string(A->getAlign().value());
        }
        if (auto *CI = dyn_cast<CmpInst>(&I))
          s += ",\"pred\":" + esc(CmpInst::getPredicateName(CI->getPredicate()));
        if (auto *SV = dyn_cast<ShuffleVectorInst>(&I)) {
          s += ",\"mask\":[";
          bool fm = true;
          for (int m : SV->getShuffleMask()) {
            if (!fm) s += ",";
            fm = false;
            s += std::to_string(m);
          }
          s += "]";
        }
        if (auto *EV = dyn_cast<ExtractValueInst>(&I)) {
          s += ",\"indices\":[";
          bool fm = true;
          for (unsigned m : EV->indices()) {
            if (!fm) s += ",";
            fm = false;
            s += std::to_string(m);
          }
          s += "]";
        }
        if (auto *SW = dyn_cast<SwitchInst>(&I)) {
          s += ",\"cases\":[";
          bool fm = true;
          for (auto &Cs : SW->cases()) {
            if (!fm) s += ",";
            fm = false;
            s += "[" + std::to_string(Cs.getCaseValue()->getZExtValue()) + "," +
                 esc(Cs.getCaseSuccessor()->getName()) + "]";
          }
          s += "],\"default\":" + esc(SW->getDefaultDest()->getName());
        }
        if (I.isTerminator()) {
          s += ",\"succs\":[";
          for (unsigned i = 0; i < I.getNumSuccessors(); ++i) {
            if (i) s += ",";
            s += esc(I.getSuccessor(i)->getName());
          }
          s += "]";
        }
        if (I.getType()->isSized() && !I.getType()->isVoidTy())
          s += ",\"bits\":" + std::to_string(DL.getTypeSizeInBits(I.getType()).getFixedSize());
        locOf(I, s);
        s += "}";
        OS << s;
      }
      OS << "]}";
    }
    OS << "]}";
  }
  OS << "]}\n";
  return 0;
}
