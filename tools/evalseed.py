#!/usr/bin/env python3
"""Evaluate an independently written seeded change: tools/evalseed.py <seed-dir> <name> <prop> [--keep]
 1. applies <seed-dir>/patch.diff to a scratch copy of /repo (never /repo itself)
 2. confirms it builds and the 30 tests pass
 3. confirms the demonstration fails with the change and passes on the unchanged /repo
 4. runs every claimed check (quick) on the copy and lists which rules fire
 5. with --keep copies patch, demo and meta.json to /verif/seeded/<name>/"""
import json, os, re, shutil, subprocess, sys, tempfile

VERIF = os.path.dirname(os.path.dirname(os.path.abspath(__file__)))

def sh(cmd, **kw):
    return subprocess.run(cmd, shell=True, capture_output=True, text=True, **kw)

def main():
    sd, name, prop = sys.argv[1], sys.argv[2], sys.argv[3]
    keep = "--keep" in sys.argv
    tmp = tempfile.mkdtemp(prefix="skv-ev-")
    repo = os.path.join(tmp, "repo")
    try:
        sh("rsync -a --exclude .git --exclude '*.o' --exclude '*.a' /repo/ %s/" % repo)
        p = sh("cd %s && patch -p1 --no-backup-if-mismatch < %s/patch.diff" % (repo, sd))
        if p.returncode:
            print("PATCH DOES NOT APPLY", p.stdout[-300:], p.stderr[-300:]); return 1
        b = sh("make -s -C %s clean >/dev/null 2>&1; make -C %s check 2>&1" % (repo, repo))
        npass = len(re.findall(r": ok", b.stdout))
        builds = b.returncode == 0
        print("build+tests: rc=%d, %d tests ok" % (b.returncode, npass))
        demo = os.path.join(sd, "run_demo.sh")
        d1 = sh("sh %s %s" % (demo, repo), timeout=1200)
        sh("make -s -C /repo all >/dev/null 2>&1")
        d0 = sh("sh %s /repo" % demo, timeout=1200)
        print("demo with change: exit %d ; on unchanged /repo: exit %d" % (d1.returncode, d0.returncode))
        sh("make -s -C %s clean >/dev/null 2>&1" % repo)
        m = json.load(open(os.path.join(VERIF, "MANIFEST.json")))
        res = {}
        for c in m["checks"]:
            pid = c["property_id"]
            env = dict(os.environ, VERIF_REPO=repo, VERIF_EVIDENCE_DIR=os.path.join(tmp, "ev"))
            r = subprocess.run([sys.executable, "-m", "sa.check", pid, "--tier", "quick"], capture_output=True, text=True, cwd=VERIF, env=env)
            rules = sorted(set(re.findall(r"rule=(C\d+\.[A-Za-z0-9]+)", r.stdout)))
            res[pid] = {"exit": r.returncode, "rules": rules}
            if r.returncode:
                print("  %s exit %d rules %s" % (pid, r.returncode, rules))
                for l in r.stdout.splitlines():
                    if l.startswith("  rule=") or l.startswith(("ANALYSIS", "INCONC")):
                        print("      " + l.strip()[:260])
        detected = [p for p, v in res.items() if v["exit"] == 1]
        print("DETECTED by %s" % detected if detected else "MISSED by all checks")
        if keep:
            dst = os.path.join(VERIF, "seeded", name)
            os.makedirs(dst, exist_ok=True)
            for fn in os.listdir(sd):
                if os.path.isfile(os.path.join(sd, fn)):
                    shutil.copy(os.path.join(sd, fn), dst)
            meta = {"property": prop, "source": "independent sub-agent given only the property text and a scratch worktree",
                    "builds_and_30_tests_pass": builds and npass >= 30, "demo_exit_with_change": d1.returncode, "demo_exit_unchanged": d0.returncode,
                    "needs_to_manifest": open(os.path.join(sd, "meta.txt")).read()[:3000] if os.path.exists(os.path.join(sd, "meta.txt")) else "",
                    "ran": ["patch -p1 on a scratch copy of /repo", "make check", "run_demo.sh <copy>", "run_demo.sh /repo", "every claimed check (quick) with VERIF_REPO=<copy>"],
                    "checks": res, "detected_by": detected}
            json.dump(meta, open(os.path.join(dst, "meta.json"), "w"), indent=1)
    finally:
        shutil.rmtree(tmp, ignore_errors=True)

if __name__ == "__main__":
    sys.exit(main())
