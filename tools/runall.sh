#!/bin/sh
# run every claimed check (quick by default) and print the summary lines
TIER=${1:-quick}
cd /verif
rc=0
for id in $(python3 -c "import json;print(' '.join(c['property_id'] for c in json.load(open('MANIFEST.json'))['checks']))"); do
  out=$(python3 -m sa.check $id --tier $TIER 2>&1); r=$?
  echo "$out" | grep -E "^(VIOLATION|ANALYSIS-BROKEN|INCONCLUSIVE|KNOWN-FINDING)" | head -20
  echo "$out" | tail -1 | sed "s/^/[exit $r] /"
  [ $r -ne 0 ] && rc=1
done
python3-vt - <<'PY'
import json, jsonschema, glob
m=json.load(open('/verif/MANIFEST.json'))
jsonschema.validate(m, json.load(open('/root/.vp/MANIFEST.schema.json')))
es=json.load(open('/root/.vp/EVIDENCE.schema.json'))
for c in m['checks']:
    jsonschema.validate(json.load(open(c['evidence_file'])), es)
ids={c['property_id'] for c in m['checks']}|{n['property_id'] for n in m.get('not_applicable',[])}
props=[json.loads(l)['id'] for l in open('/verif/properties.jsonl')]
assert set(props)==ids, (set(props)^ids)
print("manifest + %d evidence files valid; %d claimed, %d not applicable" % (len(m['checks']), len(m['checks']), len(m.get('not_applicable',[]))))
PY
exit $rc
