#!/usr/bin/env python3
"""Behaviour-preserving variants of /repo (refactorings a maintainer could make) must not raise any alarm:
applies each /verif/benign/*.diff to a scratch copy, confirms build + 30 tests, runs every claimed check (quick)
and reports checks that exit non-zero.   tools/benigntest.py [name-substring] [--props C04,C05] [--notests]"""
import glob, json, os, re, shutil, subprocess, sys, tempfile
VERIF = os.path.dirname(os.path.dirname(os.path.abspath(__file__)))

def main():
    args = sys.argv[1:]
    props = None; notests = False
    if "--props" in args:
        i = args.index("--props"); props = set(args[i + 1].split(",")); del args[i:i + 2]
    if "--notests" in args:
        args.remove("--notests"); notests = True
    pat = args[0] if args else ""
    m = json.load(open(os.path.join(VERIF, "MANIFEST.json")))
    bad = 0
    for d in sorted(glob.glob(os.path.join(VERIF, "benign", "*.diff"))):
        if pat not in d:
            continue
        tmp = tempfile.mkdtemp(prefix="skv-bn-")
        repo = os.path.join(tmp, "repo")
        try:
            subprocess.run("rsync -a --exclude .git --exclude '*.o' --exclude '*.a' /repo/ %s/" % repo, shell=True, check=True)
            p = subprocess.run("cd %s && patch -p1 -s < %s" % (repo, d), shell=True, capture_output=True, text=True)
            if p.returncode:
                print("%s: PATCH DOES NOT APPLY" % os.path.basename(d)); bad += 1; continue
            if notests:
                ok = True
            else:
                b = subprocess.run("make -s -C %s clean >/dev/null 2>&1; make -C %s check 2>&1" % (repo, repo), shell=True, capture_output=True, text=True)
                ok = b.returncode == 0 and len(re.findall(r": ok", b.stdout)) >= 30
            subprocess.run("make -s -C %s clean >/dev/null 2>&1" % repo, shell=True)
            alarms = []
            for c in m["checks"]:
                if props is not None and c["property_id"] not in props:
                    continue
                env = dict(os.environ, VERIF_REPO=repo, VERIF_EVIDENCE_DIR=os.path.join(tmp, "ev"))
                r = subprocess.run([sys.executable, "-m", "sa.check", c["property_id"], "--tier", "quick"], capture_output=True, text=True, cwd=VERIF, env=env)
                if r.returncode:
                    first = [l for l in r.stdout.splitlines() if l.startswith(("  rule=", "ANALYSIS", "INCONC"))][:2]
                    alarms.append("%s exit %d %s" % (c["property_id"], r.returncode, " | ".join(x.strip()[:160] for x in first)))
            print("%s: tests %s; %s" % (os.path.basename(d), "pass" if ok else "FAIL", "no alarm" if not alarms else "ALARMS:\n   " + "\n   ".join(alarms)))
            bad += 1 if alarms or not ok else 0
        finally:
            shutil.rmtree(tmp, ignore_errors=True)
    return 1 if bad else 0

if __name__ == "__main__":
    sys.exit(main())
