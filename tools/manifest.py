#!/usr/bin/env python3
"""Regenerates /verif/MANIFEST.json from the table below (single source of truth)."""
import json

NOTE = ("Trusted: clang 14 front end, the LLVM-14 utilities bin/irspec calls on the -O0 IR (always-inliner for four kinds of static helper, mem2reg, instruction simplification, jump threading, complete unrolling of constant-trip loops), bin/irfacts, sa/contract.py tables, the assumption that distinct "
        "caller-owned objects do not overlap. IR-level, path facts from branch conditions only; not a machine-checked proof.")

NA = {
    "C01": "value property: equality with the SKINNY specification over 2^128..2^512 inputs lives in S-box/LFSR/round-constant values, which no static argument in this family can bound without evaluating the cipher (concretely or symbolically)",
    "C02": "value property: equality with the MANTIS specification over all keys/tweaks/blocks; same reason as C01",
    "C19": "equivalence of two independent implementations over all inputs and call sequences is a value property; the AVR assembly path cannot be compiled here and text/AST similarity of the duplicated helpers would fire on behaviour-preserving edits",
    "C20": "run-time behaviour of the example tools' main() against the file system (file contents, lengths, chunked I/O, exit status) is not decidable from the shape of the code",
}
PENDING = "check not built yet in this session (work in progress; see DESIGN.md §4 for the planned rules)"

CHECKS = {
    "C03": dict(
        technique="semantic classification of schedule walkers + vtable-resolved dispatch check + bit-routing tables of permutation helper pairs + GF(2) affine abstract interpretation of one round of every SKINNY encrypt/decrypt pair (decrypt's linear layer composed with encrypt's must be the identity, key and constant terms included) + may-write frame of the Mantis mode switch",
        text="Decides structural necessary conditions of 'decrypt inverts encrypt', not the algebra: every *_encrypt entry point and vtable slot 0 reaches only functions that walk the key schedule forward from entry 0, every *_decrypt entry point and slot 1 only functions that walk it backward from rounds-1 (including the scalar tails the 128-block test never executes); each walk starts at the right end and visits exactly `rounds` entries of the same object's rounds field; by bit-granular copy propagation (bits are moved, never combined) every helper pair X / X_inverse (Mantis tweak permutation h and cell permutation P, scalar and vector copies) composes to the identity routing; every site that XORs the reflection constant into k1 applies the same eight constant bytes; mantis_swap_modes writes exactly k0, k0prime and k1 (tweak and rounds preserved) and the parallel wrapper applies it to the object's own context. NOT decided: that the inverse S-boxes, inverse rounds and the alpha/k0' algebra are inverses (value facts).",
        note=NOTE),
    "C04": dict(
        technique="byte-range XOR algebra over every path of set_tweak (what the schedule passes are handed must sum to old tweak ^ zero-padded new tweak) + linearity check of the pass routine under the call's constants + GF(2) affine comparison of the pass with the TK1 setter + byte-range definite-initialisation of the stored tweak + must-store summaries + call-argument identity along enumerated paths",
        text="Decides necessary structural conditions of history independence, not the algebra: in both set_tweak functions the old tweak is saved (all bytes) before the field is overwritten, the field is then fully rewritten as argument bytes followed by zeros (NULL never dereferenced, zero-filled), the xor-out pass takes the saved copy and the xor-in pass the rewritten field, both through the same routine on the same schedule, which steps the tweakey permutation once per round under the rounds bound like the TK1 setter; a fresh tweaked schedule zero-fills the stored tweak and passes that field as TK1 with domain flag 1 (untweaked: key, flag 0); the CTR tweak entry points of every back end hand the caller's arguments unchanged to the core functions on their own schedule and invalidate the buffered keystream; tweaked round counts are 48/56 (36/40). NOT decided: linearity of the TK1 schedule (that xor-out/xor-in equals a fresh schedule).",
        note=NOTE + " Recognised protocol shape: copy old; rewrite field; xor(old copy); xor(field); another shape is reported as not modelled (exit 2), never as a violation."),
    "C05": dict(
        technique="must-store summaries for the invalidation protocol + path-sensitive abstract interpretation of every CTR encrypt function with ghost state (first unused keystream byte, data bytes produced; linear forms, path facts, first iteration + generic iteration under an inferred invariant) + call-site constant sets for lane advance/stagger + definite-initialisation of the counter load",
        text="Decides the buffering protocol that makes the output independent of how the data is cut into calls, for all 7 back ends, with BATCH taken from sizeof(ecounter): every setter and init leaves the buffer exhausted on all success paths; each refill encrypts counter->ecounter under the context's own schedule, guarded by offset >= BATCH, and advances every lane exactly once by BATCH/BLOCK; set_counter defines all counter bytes, places the caller's bytes at the end of the block (left zero padding) and staggers lane i by i; on every path through the encrypt loop the keystream bytes [a,a+n) used are followed by offset := a+n with n bounded by the bytes left, a whole batch is only consumed under size >= BATCH, out/in/size cursors move by exactly the bytes consumed, out and in share the same offset; increment helpers walk all block bytes with a fixed trip count. NOT decided: that the buffered bytes equal E(c+i) (value fact).",
        note=NOTE + " Member-extent assumption: a helper handed the address of a struct member writes only inside that member (its own accesses are bounded by C09)."),
    "C06": dict(
        technique="sibling comparison of canonical effect/guard summaries across back ends + GF(2) affine abstract interpretation of the round loop of every block function (scalar, parallel vector, CTR batch): same linear layer block by block + bit-routing tables of vector permutation helpers + lane colour analysis of the CTR batch encryptors on -O3 IR + batch-discard reconciliation rule",
        text="Value equality of the independently written vector round functions is not decided. Decided for every vtable slot of every cipher: the vector back ends' success-path guards, return constants, reject-before-write behaviour and written context fields agree with their generic sibling (a guard present in one and missing in another is reported at the deviant); every CTR batch encryptor writes keystream block b from counter lane b only; vector siblings of one parallel table read the same key-schedule fields; scalar and vector copies of each permutation helper realise the same bit-routing table. One genuine divergence is reported as known findings (D6, 11 functions): in the 4-/8-lane back ends set_key / set_tweaked_key / set_tweak discard the pre-computed batch without rewinding the lane counters, so after a mid-stream key or tweak change the next block is E(c+L) where the generic back end gives E(c+1) (replay findings/D6_ctr_rekey.c).",
        note=NOTE + " No run-time probe override hook is needed: all back ends are analysed from source regardless of the host CPU."),
    "C07": dict(
        technique="consumed-bytes ghost model of the parallel data loops (every loop-carried value = start +/- bytes consumed; buffer arguments = parameter + consumed; guard size - consumed >= amount) + byte/lane-granular may-dependency analysis of the vector ECB functions on -O3 IR + GF(2) affine linear layer and input/output layout agreement with the scalar function + extent/parallel_size agreement",
        text="Decides structural necessary conditions of 'parallel == block by block', not the values: in every loop of the six public parallel functions all data cursors (output, input, Mantis tweak) are advanced in that loop by exactly what size decreases by, which is what the callee consumes (ecb->parallel_size for the vtable slot, the block size for the scalar tail), the callee receives the current cursors and the loop guard keeps that many bytes available; parallel_size equals the bytes the selected slot target writes; in the -O3 IR of each of the 7 vector ECB functions every output byte of block b may depend only on input (and tweak) block b and the whole batch is written; encrypt/decrypt dispatch only to forward/backward walkers; non-multiples of the block are rejected and the empty call succeeds without touching memory. NOT decided: equality of the vector and scalar round functions.",
        note=NOTE + " Lane analysis is a may-dependency over-approximation on clang's -O3 IR."),
    "C08": dict(
        technique="interprocedural information-flow (security-type / taint) analysis over LLVM IR, source-shaped and -O3, with vtable-resolved calls and def-use witnesses",
        text="Every function of the library is typed with public/secret levels: all memory is secret except an explicit table of public fields (rounds, offset, parallel_size, pointer fields), constant tables and locals that only receive public values. No conditional branch, switch, select, load/store address, vector lane index, indirect callee, memcpy/memset/calloc length, div/rem operand or returned status depends on a secret, and no secret is stored into a public field - in the source-shaped IR and in the IR at the shipped optimisation level (and in all 32 switch configurations in the thorough tier). This is a proof-style argument over all secret values at once; tests observe bytes only and cannot see timing.",
        note="Trusted: clang 14 front end/mem2reg/-O3, bin/irfacts, the public-field table (audited list of what was treated as public is written to the evidence). IR-level: back-end lowering of straight-line IR is trusted, gcc's optimiser is not inspected; x86 shifts/multiplies assumed constant-time."),
    "C09": dict(
        technique="extent checks on effect summaries + linear-form bound analysis of variable-length copies under dominating guard facts + alignment/type lint of accesses through caller byte pointers + read-before-write reachability + allocation-alignment agreement",
        text="For every back end: single-block and vector batch functions touch only constant offsets inside [0, extent) of each buffer parameter (block size / advertised batch); every variable-length memcpy/memset stays inside its fixed-size destination under the dominating length guards (no unsigned wrap) and the partial key loaders' byte reads are dominated by a guard placing them below the key length; the bulk loops obey the cursor discipline (from C05/C07); vector accesses through caller byte pointers carry align 1 and configurations without unaligned access use byte accesses only (so results cannot depend on alignment); in every single-block and vector batch function no input/tweak byte is read after an output byte was written (any overlap is fine); context types needing more than calloc's alignment are allocated through the aligning wrapper with sufficient slack.",
        note=NOTE + " Callers' buffers are assumed to have the sizes the contract states. x86 alignment rules."),
    "C10": dict(
        technique="guard-interval analysis on return-class summaries + argument-identity check at delegating calls + byte-granular definite-initialisation and packed-word narrowing analysis of the tweakey loaders + path enumeration of the round-count selector",
        text="Decides the length-acceptance and padding clauses for all key lengths and all 13 key-setting entry points in every back end: the guards on every success path imply exactly the documented range and every rejecting path crosses a violated clause; CTR/parallel entry points pass the caller's key and length unchanged to the core validator; rejection writes nothing; on partial-length paths every byte of the local tweakey is defined as key bytes or zeros before use and no packed key word is narrowed on its way into the tweakey; the stored round count per key-length class matches the specification's table. NOT decided: that the zero-padded schedule yields the specification's ciphertexts (a value property, see C01).",
        note=NOTE + " The round-count table is transcribed from the property statements."),
    "C11": dict(
        technique="byte-granular definite-initialisation dataflow with symbolic range ends and loop-fill recognition (E5) over mem2reg IR, scalar store-before-load dataflow on unoptimised IR, must-write/read-set comparison from effect summaries, loop-bound provenance",
        text="For every function of the library on every path: no byte of a stack object is read before it is written (unions as byte ranges, memset/memcpy with symbolic adjacent lengths, loop-filled arrays, reads and writes by callees through summaries); no scalar local is loaded before a store; all allocations are calloc; every init success path must-writes every handle field; every key-schedule field that any function reads is must-written (arrays: written under the shared rounds bound) by every keying function; schedule loops in writers and readers are bounded by the rounds field of the same object; init reads nothing from the caller's object. A value that depends on leftover memory compares equal to itself in a test; here the dependence itself is excluded.",
        note=NOTE + " 'Bit-identical under another optimisation level' is claimed only in the sense that uninitialised reads are excluded."),
    "C12": dict(
        technique="compile witnesses over the configuration matrix (clang + gcc, override hook) + cross-configuration comparison of canonical effect/guard summaries, bit-routing tables of permutation helpers, and GF(2) affine maps of the round functions and of one round of every tweakey schedule loop",
        text="Equality of values across the alternative implementations is NOT decided. Decided: every combination of the five platform switches compiles for all 18 units with clang and gcc (quick: shipped + a pairwise covering array; thorough: all 32); for every function that does not dispatch through a back-end table, its caller-visible summary - success-path guards, return constants, and per object the exact bytes written and the bytes read that it does not write itself - is identical to the shipped configuration's in every configuration where it exists, so a word-size-, alignment- or endian-specific branch that forgets part of an update, loops over the wrong extent, validates differently or calls a different existing helper is reported; every pure bit-permutation helper has the same routing table in every configuration; and every other property's rules run in each of those configurations (thorough: all 32).",
        note=NOTE + " Uses the guarded hook in src/skinny-internal.h (RWEATHER_SKINNY_C_VERIF)."),
    "C13": dict(
        technique="CFG path enumeration of the init cascades over probe outcomes + dataflow from CPUID/XGETBV inline-asm outputs to the probe result checked against the architecture manual + mnemonic scan of the objects the repo's Makefile builds",
        text="For every outcome of the CPU probes, each of the six init functions stores a table whose vector width does not exceed what the probes reported and is the widest compiled-in candidate (widths and byte extents are computed from the back ends' IR, not from names); the AVX2 probe binds sub-leaf 0, tests the maximum leaf and the OS-enabled YMM state on every positive path; stubbed tables imply constant-0 probes and compiled-in tables a probe that can report their width; VEX/EVEX encodings appear only in objects reachable solely through AVX2-gated tables; probes are stateless with constant asm inputs; parallel_size equals the extent the selected back end processes. Decides selection for all calling contexts and CPU models, which the suite never inspects.",
        note=NOTE + " x86 only; the OS-state clause is justified by the Intel SDM rule, not by a replay (no kernel without AVX state here). Objects are compiled by the host cc and disassembled, never run."),
    "C14": dict(
        technique="return-class-partitioned effect/guard dataflow (must-facts, must-stores, may-writes) composed through the vtable-resolved call graph, checked against a contract table",
        text="For all 50 public functions and the 30+ vtable slot functions, on every CFG path: the returns-0 class has an empty may-write set (reject before write), every guard the contract requires holds on all success paths (composed through vtable dispatch as the intersection over slot targets), status constants are within {0,1}, no checked / null-means-zero pointer is dereferenced (directly, via memcpy or via callees) without a dominating non-null test, and every returns-0 path crosses a failing contract clause (valid calls are not rejected). This covers every class of invalid argument and every object state at once, which the suite (no invalid call, no return value read) cannot.",
        note=NOTE),
    "C15": dict(
        technique="ownership typestate over init/cleanup pairs: must-store summaries, allocation-base provenance, post-dominance of ctx := NULL after free(), guard facts at free() sites",
        text="For every allocating function and every free() site of the library (all 10 back-end / parallel pairs): one allocation per init stored into obj->ctx on all success paths; free() receives the exact allocation base (obj->ctx for calloc contexts, the base_ptr written by the paired init for aligned contexts); obj->ctx := NULL post-dominates free() and nothing touches the freed block; the public CTR cleanup clears vtable; every other entry point dereferences ctx/vtable only under the non-null test of the field cleanup clears; every free() is guarded by that test (null-safe, idempotent); init reads nothing from the stale object. Holds for every interleaving of init/use/cleanup because each clause is a per-function invariant over all paths.",
        note=NOTE + " Pairing of init and cleanup is by translation unit and handle type."),
    "C16": dict(
        technique="per-exit must-store analysis of init failure paths, composed through the vtable over all back-end inits (class-conditional kill/restore at call sites)",
        text="For each of the six public init functions and every returns-0 exit with a non-null object: obj->ctx := NULL (or obj->vtable := NULL for CTR objects) is definitely stored whatever the object held, the exit carries the fact 'allocation result == NULL' (nothing allocated is live), and the status is the constant 0. This decides the property for failure of each allocation request of each back end, which the suite never injects.",
        note=NOTE + " Allocation failure is modelled as calloc returning NULL."),
    "C17": dict(
        technique="dominance/typestate check at every free() site + wipe-primitive shape recogniser + size agreement from DataLayout; repeated on -O3 IR",
        text="At every free() in the library: the freed block is the wiped object (or the base pointer stored inside it and loaded before the wipe), the wipe dominates the free with no intervening write, wipe length = allocation request of the paired init = DataLayout size of the context type, the wipe primitive is a volatile zero-store loop over exactly its length argument, and in the -O3 IR of the shipped flags the volatile stores survive with the same extent before free(). Decides the property for every back end's context layout; freed memory is invisible to tests.",
        note="Trusted: clang 14 front end/mem2reg/-O3 pipeline, LLVM back end not eliding volatile stores, bin/irfacts. gcc's optimiser is not inspected. One allocation per object is C15.R1."),
    "C18": dict(
        technique="interprocedural effect analysis (may-write/may-read summaries over LLVM IR with vtable resolution) + global constness lint",
        text="Sound-under-assumptions static effect analysis of every function of the library (all units of the Makefile): no mutable global or function-local static exists, no function's may-write set contains a global, nothing is called from outside the library but calloc/free/memcpy/memset, no pointer-to-const object parameter is written directly or through callees, the CPU probes touch no memory, allocation results are stored only into caller-owned objects. This decides the property's 'no hidden shared state' and 'read-only objects may be shared' clauses for all schedules at once, which is what a race detector on sampled interleavings cannot do.",
        note="Trusted: clang 14 front end + mem2reg, bin/irfacts, the assumption that distinct caller-owned objects do not overlap, libc thread-safety. IR-level; not a machine-checked proof."),
}


def title_of(pid):
    import importlib, sys
    sys.path.insert(0, '/verif')
    try:
        return getattr(importlib.import_module('sa.rules.' + pid.lower()), 'TITLE', None)
    except Exception:
        return None


def main():
    props = [json.loads(l) for l in open('/verif/properties.jsonl')]
    checks = []
    for pid in sorted(CHECKS):
        c = CHECKS[pid]
        checks.append({
            "property_id": pid,
            "quick_cmd": "cd /verif && python3 -m sa.check %s --tier quick" % pid,
            "thorough_cmd": "cd /verif && python3 -m sa.check %s --tier thorough" % pid,
            "evidence_file": "/verif/evidence/%s.json" % pid,
            "replay_cmd_template": "cd /verif && python3 -m sa.replay {path}",
            "engine": "sa (irfacts + dataflow over LLVM IR)",
            "technique": c["technique"],
            "level_claimed": {"category": "other", "text": title_of(pid) or c["text"], "design_ref": "DESIGN.md §4 " + pid},
            "level_note": c["note"],
        })
    na = [{"property_id": p["id"], "reason": NA.get(p["id"], PENDING)} for p in props if p["id"] not in CHECKS]
    commits = []
    try:
        commits = [l.strip() for l in open('/verif/HOOK_COMMITS.txt') if l.strip() and not l.startswith('#')]
    except OSError:
        pass
    m = {
        "version": 1,
        "setup_cmd": "make -C /verif",
        "hooks": {"guard": "RWEATHER_SKINNY_C_VERIF",
                  "enable": "checks compile /repo/src units to LLVM IR with -DRWEATHER_SKINNY_C_VERIF -DSKINNY_VERIF_<SWITCH>=0|1 to override the five platform switches (quick tier: shipped build + a pairwise covering array of 6 configurations; thorough tier: all 32); nothing is executed",
                  "baseline_off_cmd": "make -C /repo clean all check",
                  "source_commits": commits, "add_only": True},
        "engines": [{"name": "sa", "path": "/verif/sa", "serves_properties": sorted(CHECKS),
                     "kind_free_text": "custom static analyser: LLVM-14 API helper specialiser (tools/irspec.cc) and fact extractor (tools/irfacts.cc) + Python analyses over the IR facts (pointer provenance, effect/guard summaries with return-class partition, vtable-resolved call graph, taint, definite initialisation, extents, lane colours, bit routing, GF(2) affine abstract interpretation of round functions and key-schedule loops, path-sensitive abstract interpretation of the CTR keystream protocol, linear arithmetic)"}],
        "checks": checks,
        "not_applicable": na,
        "notes": "Technique family: static analysis only; nothing of the library is executed. Exit 2 = analysis broken (anchor vanished / instance floor / fixture not flagged), never a verdict. Known findings: KNOWN_FINDINGS.txt.",
    }
    json.dump(m, open('/verif/MANIFEST.json', 'w'), indent=1)
    print("MANIFEST: %d checks, %d not applicable" % (len(checks), len(na)))


if __name__ == "__main__":
    main()
