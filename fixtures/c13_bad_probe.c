/* Positive fixture for C13.R2: leaf 7 without sub-leaf, max-leaf or OS-state tests. */
#include <stdint.h>
#include <cpuid.h>

int fx_has_avx2_nosubleaf(void)
{
    uint32_t eax = 0, ebx = 0, ecx = 0, edx = 0;
    __cpuid(7, eax, ebx, ecx, edx);
    return (ebx & (1 << 5)) != 0;
}

int fx_has_cached(void)
{
    static int cached = -1;
    uint32_t eax = 0, ebx = 0, ecx = 0, edx = 0;
    if (cached >= 0)
        return cached;
    __cpuid(1, eax, ebx, ecx, edx);
    cached = (edx & (1 << 26)) != 0;
    return cached;
}
