/* Positive fixture for C14: each function breaks one rule and must be flagged. */
#include "skinny128-cipher.h"
#include <string.h>

/* R1: state changed before the argument is rejected */
int fx_write_then_reject(Skinny128Key_t *ks, const void *key, unsigned size)
{
    if (!ks || !key)
        return 0;
    ks->rounds = 40;
    if (size < 16 || size > 48)
        return 0;
    return 1;
}

/* R2 (+R4): key never tested, upper bound missing */
int fx_no_null_check(Skinny128Key_t *ks, const void *key, unsigned size)
{
    if (!ks || size < 16)
        return 0;
    ks->rounds = ((const unsigned char *)key)[0];
    return 1;
}

/* R3: status outside {0,1} */
int fx_return_two(Skinny128Key_t *ks, const void *key, unsigned size)
{
    if (!ks || !key || size < 16 || size > 48)
        return 0;
    return 2;
}

/* R4: NULL documented as zero tweak but dereferenced */
int fx_null_tweak(Skinny128TweakedKey_t *ks, const void *tweak, unsigned size)
{
    if (!ks || size < 1 || size > 16)
        return 0;
    memcpy(ks->tweak, tweak, size);
    return 1;
}

/* R5: a valid length is rejected */
int fx_reject_valid(Skinny128Key_t *ks, const void *key, unsigned size)
{
    if (!ks || !key || size < 16 || size > 48)
        return 0;
    if (size == 17)
        return 0;
    ks->rounds = 40;
    return 1;
}
