/* positive fixture for C12.R8: a rotate helper reached with count 0 after the loop is unrolled -
   `x << (16 - 0)` on a 16-bit lane is undefined (gcc keeps the value, clang -O2 folds it to poison) */
#include <stdint.h>
typedef uint16_t v8 __attribute__((vector_size(16)));
static inline v8 fx_rotr(v8 x, unsigned count)
{
    return (x >> count) | (x << (16 - count));
}
void fx_shift_rows(v8 *row)
{
    unsigned r;
    for (r = 0; r < 4; ++r)
        row[r] = fx_rotr(row[r], 4 * r);
}
