/* Positive fixture for C10.R4: the two D1 shapes (rows left unassigned, 32-bit word narrowed to 16 bits). */
#include "skinny128-cipher.h"
#include "skinny-internal.h"

void fx_set_tk(Skinny128Key_t *ks, const void *key, unsigned key_size)
{
    Skinny128Cells_t tk;
    unsigned index;
    uint16_t word;
    if (key_size >= 16) {
        tk.row[0] = READ_WORD32(key, 0);
        tk.row[1] = READ_WORD32(key, 4);
        tk.row[2] = READ_WORD32(key, 8);
        tk.row[3] = READ_WORD32(key, 12);
    } else {
        for (index = 0; index < key_size; index += 4) {
            word = READ_WORD32(key, index);
            tk.row[index / 4] = word;
        }
    }
    ks->schedule[0].lrow = tk.lrow[0];
    ks->schedule[1].lrow = tk.lrow[1];
}
