/* Positive fixture for C15: each pair breaks one rule and must be flagged. */
#include "skinny128-cipher.h"
#include "skinny-internal.h"
#include <stdlib.h>

typedef struct { Skinny128TweakedKey_t kt; unsigned offset; void *base_ptr; } FxCtx_t;
typedef struct { const void *vtable; void *ctx; } FxA_t;
typedef struct { const void *vtable; void *ctx; } FxB_t;
typedef struct { const void *vtable; void *ctx; } FxC_t;
typedef struct { const void *vtable; void *ctx; } FxD_t;
typedef struct { const void *vtable; void *ctx; } FxE_t;

/* R1: allocation not stored on one success path */
int fx_a_init(FxA_t *o, int flag)
{
    FxCtx_t *c = calloc(1, sizeof(FxCtx_t));
    if (!c) return 0;
    if (flag) o->ctx = c;
    return 1;
}
void fx_a_cleanup(FxA_t *o) { if (o->ctx) { skinny_cleanse(o->ctx, sizeof(FxCtx_t)); free(o->ctx); o->ctx = 0; } }

/* R2: aligned interior pointer handed to free */
int fx_b_init(FxB_t *o)
{
    void *bp; FxCtx_t *c = skinny_calloc(sizeof(FxCtx_t), &bp);
    if (!c) return 0;
    c->base_ptr = bp; o->ctx = c; return 1;
}
void fx_b_cleanup(FxB_t *o) { if (o->ctx) { skinny_cleanse(o->ctx, sizeof(FxCtx_t)); free(o->ctx); o->ctx = 0; } }

/* R3: ctx left dangling after free */
int fx_c_init(FxC_t *o) { FxCtx_t *c = calloc(1, sizeof(FxCtx_t)); if (!c) return 0; o->ctx = c; return 1; }
void fx_c_cleanup(FxC_t *o) { if (o->ctx) { skinny_cleanse(o->ctx, sizeof(FxCtx_t)); free(o->ctx); } }

/* R5: free not guarded by the field it clears */
int fx_d_init(FxD_t *o) { FxCtx_t *c = calloc(1, sizeof(FxCtx_t)); if (!c) return 0; o->ctx = c; return 1; }
void fx_d_cleanup(FxD_t *o) { skinny_cleanse(o->ctx, sizeof(FxCtx_t)); free(o->ctx); o->ctx = 0; }

/* R6: init consults the stale object */
int fx_e_init(FxE_t *o)
{
    FxCtx_t *c;
    if (o->ctx) return 1;
    c = calloc(1, sizeof(FxCtx_t)); if (!c) return 0; o->ctx = c; return 1;
}
void fx_e_cleanup(FxE_t *o) { if (o->ctx) { skinny_cleanse(o->ctx, sizeof(FxCtx_t)); free(o->ctx); o->ctx = 0; } }

void *skinny_calloc(size_t size, void **base_ptr)
{
    void *ptr = calloc(1, size + 31);
    if (ptr) { *base_ptr = ptr; ptr = (void *)((((uintptr_t)ptr) + 31) & ~((uintptr_t)31)); }
    return ptr;
}
