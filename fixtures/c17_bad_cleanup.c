/* Positive fixture for C17: each function breaks one rule and must be flagged. */
#include "skinny128-cipher.h"
#include "skinny-internal.h"
#include <stdlib.h>

typedef struct { Skinny128TweakedKey_t kt; unsigned char counter[16]; unsigned offset; void *base_ptr; } FxCtx_t;
typedef struct { const void *vtable; void *ctx; } FxA_t;
typedef struct { const void *vtable; void *ctx; } FxB_t;
typedef struct { const void *vtable; void *ctx; } FxC_t;
typedef struct { const void *vtable; void *ctx; } FxD_t;
typedef struct { const void *vtable; void *ctx; } FxE_t;

/* R1: no wipe at all */
int fx_a_init(FxA_t *o) { o->ctx = calloc(1, sizeof(FxCtx_t)); return o->ctx != 0; }
void fx_a_cleanup(FxA_t *o) { if (o->ctx) { free(o->ctx); o->ctx = 0; } }

/* R2: wipe shorter than the allocation */
int fx_b_init(FxB_t *o) { FxCtx_t *c = calloc(1, sizeof(FxCtx_t)); o->ctx = c; return c != 0; }
void fx_b_cleanup(FxB_t *o)
{
    if (o->ctx) { skinny_cleanse(o->ctx, sizeof(Skinny128TweakedKey_t)); free(o->ctx); o->ctx = 0; }
}

/* R3: the "wipe" is an ordinary (removable) store loop */
static void fx_plain_zero(void *ptr, size_t size)
{
    unsigned char *p = (unsigned char *)ptr;
    while (size > 0) { *p++ = 0; --size; }
}
int fx_c_init(FxC_t *o) { FxCtx_t *c = calloc(1, sizeof(FxCtx_t)); o->ctx = c; return c != 0; }
void fx_c_cleanup(FxC_t *o) { if (o->ctx) { fx_plain_zero(o->ctx, sizeof(FxCtx_t)); free(o->ctx); o->ctx = 0; } }

/* R4: base pointer fetched from the object after it was zeroed */
int fx_d_init(FxD_t *o)
{
    void *bp; FxCtx_t *c = skinny_calloc(sizeof(FxCtx_t), &bp);
    if (!c) return 0;
    c->base_ptr = bp; o->ctx = c; return 1;
}
void fx_d_cleanup(FxD_t *o)
{
    if (o->ctx) { FxCtx_t *c = o->ctx; skinny_cleanse(c, sizeof(FxCtx_t)); free(c->base_ptr); o->ctx = 0; }
}

/* R5: optimised code zeroes fewer bytes than the context has (expected 512 is injected by the harness) */
void fx_o3_short(FxE_t *o) { if (o->ctx) { skinny_cleanse(o->ctx, 256); free(o->ctx); o->ctx = 0; } }

void *skinny_calloc(size_t size, void **base_ptr)
{
    void *ptr = calloc(1, size + 31);
    if (ptr) { *base_ptr = ptr; ptr = (void *)((((uintptr_t)ptr) + 31) & ~((uintptr_t)31)); }
    return ptr;
}

/* R3 (multi-loop wipes): a word loop plus a byte tail; the first forgets bytes when size % 8 >= 4, the second is right
   and must be accepted */
typedef struct { const void *vtable; void *ctx; } FxF_t;
typedef struct { const void *vtable; void *ctx; } FxG_t;
static void fx_word_zero_bad(void *ptr, size_t size)
{
    uint8_t volatile *p = (uint8_t volatile *)ptr;
    if ((((uintptr_t)ptr) & 7) == 0) {
        uint64_t volatile *w = (uint64_t volatile *)ptr;
        size_t words = size / 8;
        while (words > 0) { *w++ = 0; --words; }
        p = (uint8_t volatile *)w;
        size &= 3;
    }
    while (size > 0) { *p++ = 0; --size; }
}
static void fx_word_zero_good(void *ptr, size_t size)
{
    uint8_t volatile *p = (uint8_t volatile *)ptr;
    if ((((uintptr_t)ptr) & 7) == 0) {
        uint64_t volatile *w = (uint64_t volatile *)ptr;
        size_t words = size >> 3;
        while (words > 0) { *w++ = 0; --words; }
        p = (uint8_t volatile *)w;
        size &= 7;
    }
    while (size > 0) { *p++ = 0; --size; }
}
int fx_f_init(FxF_t *o) { FxCtx_t *c = calloc(1, sizeof(FxCtx_t)); o->ctx = c; return c != 0; }
void fx_f_cleanup(FxF_t *o) { if (o->ctx) { fx_word_zero_bad(o->ctx, sizeof(FxCtx_t)); free(o->ctx); o->ctx = 0; } }
int fx_g_init(FxG_t *o) { FxCtx_t *c = calloc(1, sizeof(FxCtx_t)); o->ctx = c; return c != 0; }
void fx_g_cleanup(FxG_t *o) { if (o->ctx) { fx_word_zero_good(o->ctx, sizeof(FxCtx_t)); free(o->ctx); o->ctx = 0; } }
