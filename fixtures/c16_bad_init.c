/* Positive fixture for C16. */
#include "skinny128-parallel.h"
#include <stdlib.h>

/* R1: failure leaves ctx as found */
int fx_init_garbage(Skinny128ParallelECB_t *ecb)
{
    Skinny128Key_t *ctx;
    if (!ecb) return 0;
    if ((ctx = calloc(1, sizeof(Skinny128Key_t))) == NULL)
        return 0;
    ecb->vtable = 0; ecb->ctx = ctx; ecb->parallel_size = 64;
    return 1;
}

/* R2: returns 0 with the block still allocated */
int fx_init_leak(Skinny128ParallelECB_t *ecb, int later)
{
    Skinny128Key_t *ctx;
    if (!ecb) return 0;
    ecb->ctx = 0;
    if ((ctx = calloc(1, sizeof(Skinny128Key_t))) == NULL)
        return 0;
    if (later)
        return 0;
    ecb->vtable = 0; ecb->ctx = ctx; ecb->parallel_size = 64;
    return 1;
}
