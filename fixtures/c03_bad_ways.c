/* positive fixture for C03.R8: a two-way interleaved non-linear helper where one step of way 2 reads way 1 */
#include <stdint.h>
void fx_sbox_two(uint32_t *u, uint32_t *v)
{
    uint32_t x1 = *u;
    uint32_t x2 = *v;
    x1 ^= ((~((x1 >> 2) | (x1 >> 3))) & 0x11111111U);
    x2 ^= ((~((x2 >> 2) | (x1 >> 3))) & 0x11111111U);   /* x1 should be x2 */
    *u = x1;
    *v = x2;
}
void fx_sbox_two_ok(uint32_t *u, uint32_t *v)
{
    uint32_t x1 = *u;
    uint32_t x2 = *v;
    x1 ^= ((~((x1 >> 2) | (x1 >> 3))) & 0x11111111U);
    x2 ^= ((~((x2 >> 2) | (x2 >> 3))) & 0x11111111U);
    *u = x1;
    *v = x2;
}
