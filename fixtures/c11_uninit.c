/* Positive fixture for C11. */
#include "skinny128-cipher.h"
#include "skinny-internal.h"
#include <stdlib.h>

/* R1: rows beyond the key never assigned (the D1 shape) */
void fx_partial(Skinny128Key_t *ks, const void *key, unsigned key_size)
{
    Skinny128Cells_t tk;
    unsigned index;
    for (index = 0; index < key_size; index += 4)
        tk.row[index / 4] = READ_WORD32(key, index);
    ks->schedule[0].lrow = tk.lrow[0];
    ks->schedule[1].lrow = tk.lrow[1];
}

/* R1: short memset before a full read */
void fx_short_fill(unsigned char *out, const unsigned char *in, unsigned n)
{
    unsigned char block[16];
    memset(block, 0, 8);
    memcpy(block + 8, in, 4);
    memcpy(out, block, 16);
}

/* R2: scalar read before assignment on one path */
unsigned fx_scalar(unsigned flag)
{
    unsigned x;
    if (flag)
        x = 1;
    return x + 1;
}

/* R3: uninitialised allocation */
void *fx_alloc(void)
{
    return malloc(sizeof(Skinny128Key_t));
}
