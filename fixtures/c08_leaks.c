/* Positive fixture for C08: every function leaks through a different channel. */
#include "skinny128-cipher.h"
#include "skinny-internal.h"
#include <string.h>
#include <stdlib.h>

static const unsigned char sbox_table[256] = {1, 2, 3};

/* R2: table lookup indexed by data */
void fx_table_sbox(void *output, const void *input, const Skinny128Key_t *ks)
{
    unsigned i;
    for (i = 0; i < 16; ++i)
        ((unsigned char *)output)[i] = sbox_table[((const unsigned char *)input)[i] ^ (unsigned char)ks->schedule[0].row[0]];
}

/* R1: early exit on a data byte */
int fx_early_exit(unsigned char *counter)
{
    unsigned posn;
    for (posn = 16; posn > 0; ) {
        --posn;
        if (++counter[posn] != 0)
            break;
    }
    return 1;
}

/* R3: select on secret (compiled at -O3 into select, at -O0 into a branch) */
unsigned fx_select(const unsigned char *key, unsigned a, unsigned b)
{
    return key[0] & 1 ? a : b;
}

/* R5: copy length from data */
void fx_len(unsigned char *out, const unsigned char *in)
{
    memcpy(out, in + 1, in[0]);
}

/* R6: division by a key byte */
unsigned fx_div(const unsigned char *key, unsigned x)
{
    return x / (key[0] | 1);
}

/* R7: secret parked in a public field */
typedef struct { Skinny128TweakedKey_t kt; unsigned char ecounter[16]; unsigned offset; } FxCtx_t;
void fx_offset(FxCtx_t *ctx, const unsigned char *key)
{
    ctx->offset = key[0];
}

/* R8: status reveals data */
int fx_status(const unsigned char *key)
{
    unsigned char acc = 0; unsigned i;
    for (i = 0; i < 16; ++i) acc |= key[i];
    return acc != 0;
}

/* R4: dispatch on data */
typedef void (*fx_fn)(void);
void fx_dispatch(const unsigned char *key, fx_fn const *table)
{
    table[key[0] & 3]();
}
