/* Positive fixture for C18: every construct here must be flagged on every run. */
#include "skinny128-cipher.h"
#include <stdlib.h>

static int cached = -1;                 /* R1: mutable global */
static const int table[4] = {1, 2, 3, 4};

int fx_probe(void)                      /* R2/R4: zero-argument function with state */
{
    static int calls;                   /* R1: function-local static */
    ++calls;
    if (cached < 0)
        cached = table[calls & 3];
    return cached;
}

void fx_touch_const(const Skinny128Key_t *ks)   /* R3: writes through pointer-to-const */
{
    ((Skinny128Key_t *)ks)->rounds = 0;
}

static void *registry;
int fx_register(Skinny128CTR_t *ctr)    /* R2/R5: heap state parked in a global */
{
    registry = calloc(1, 16);
    ctr->ctx = registry;
    return registry != 0;
}

int fx_time(void)                       /* R2: foreign callee */
{
    return rand();
}
