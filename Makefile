# setup: build the LLVM fact extractor (offline; LLVM 14 C++ API from /usr/lib/llvm-14)
LLVM_CXXFLAGS := $(shell llvm-config-14 --cxxflags)
all: bin/irfacts bin/irspec
bin/irfacts: tools/irfacts.cc
	mkdir -p bin
	clang++ $(LLVM_CXXFLAGS) -std=c++17 -fno-rtti -O1 tools/irfacts.cc -o bin/irfacts /usr/lib/llvm-14/lib/libLLVM-14.so
bin/irspec: tools/irspec.cc
	mkdir -p bin
	clang++ $(LLVM_CXXFLAGS) -std=c++17 -fno-rtti -O1 tools/irspec.cc -o bin/irspec /usr/lib/llvm-14/lib/libLLVM-14.so
clean:
	rm -rf bin
