/* D4: when calloc fails inside *_init the caller's object keeps whatever it held (ctx = garbage,
   CTR vtable = live), so the documented-safe cleanup() frees a wild pointer.
   Link with -Wl,--wrap=calloc.  Expected after the fix: init returns 0, every later call returns 0, cleanup is a no-op. */
#include "skinny128-cipher.h"
#include "skinny128-parallel.h"
#include "skinny64-cipher.h"
#include "skinny64-parallel.h"
#include "mantis-cipher.h"
#include "mantis-parallel.h"
#include <stdio.h>
#include <string.h>
#include <stdlib.h>
void *__real_calloc(size_t, size_t);
static int fail;
void *__wrap_calloc(size_t n, size_t s) { return fail ? NULL : __real_calloc(n, s); }
int main(void)
{
    unsigned char key[16] = {0}, buf[16] = {0};
    Skinny128CTR_t a; Skinny64CTR_t b; MantisCTR_t c;
    Skinny128ParallelECB_t d; Skinny64ParallelECB_t e; MantisParallelECB_t f;
    int ok = 1;
    memset(&a, 0x41, sizeof a); memset(&b, 0x41, sizeof b); memset(&c, 0x41, sizeof c);
    memset(&d, 0x41, sizeof d); memset(&e, 0x41, sizeof e); memset(&f, 0x41, sizeof f);
    fail = 1;
    ok &= skinny128_ctr_init(&a) == 0; ok &= skinny64_ctr_init(&b) == 0; ok &= mantis_ctr_init(&c) == 0;
    ok &= skinny128_parallel_ecb_init(&d) == 0; ok &= skinny64_parallel_ecb_init(&e) == 0; ok &= mantis_parallel_ecb_init(&f) == 0;
    fail = 0;
    ok &= a.ctx == 0 || a.vtable == 0; ok &= b.ctx == 0 || b.vtable == 0; ok &= c.ctx == 0 || c.vtable == 0;
    ok &= d.ctx == 0; ok &= e.ctx == 0; ok &= f.ctx == 0;
    if (!ok) { printf("FAIL (object not inert after failed init)\n"); return 1; }
    ok &= skinny128_ctr_set_key(&a, key, 16) == 0; ok &= skinny128_ctr_encrypt(buf, buf, 16, &a) == 0;
    ok &= skinny128_parallel_ecb_set_key(&d, key, 16) == 0; ok &= mantis_parallel_ecb_crypt(buf, buf, buf, 8, &f) == 0;
    skinny128_ctr_cleanup(&a); skinny64_ctr_cleanup(&b); mantis_ctr_cleanup(&c);
    skinny128_parallel_ecb_cleanup(&d); skinny64_parallel_ecb_cleanup(&e); mantis_parallel_ecb_cleanup(&f);
    printf("%s\n", ok ? "PASS" : "FAIL");
    return !ok;
}
