/* D1: key lengths strictly between the primary sizes are documented to behave as the same bytes
   padded with zeros, but the partial tweakey loaders truncate 32-bit words to 16 bits (Skinny-128)
   and never assign the rows beyond the key (both ciphers: stack garbage enters the schedule).
   Expected after the fix: every in-between length encrypts like its zero-padded key. */
#include "skinny128-cipher.h"
#include "skinny64-cipher.h"
#include <stdio.h>
#include <string.h>
static void dirty_stack(void) { volatile unsigned char junk[4096]; unsigned i; for (i = 0; i < sizeof junk; ++i) junk[i] = (unsigned char)(0xA5 ^ i); }
int main(void)
{
    unsigned char key[48], pad[48], pt[16], a[16], b[16];
    unsigned n, i, bad = 0, total = 0;
    for (i = 0; i < 48; ++i) key[i] = (unsigned char)(0x11 * (i + 1) + 3);
    for (i = 0; i < 16; ++i) pt[i] = (unsigned char)i;
    for (n = 16; n <= 48; ++n) {
        Skinny128Key_t k1, k2; unsigned full = n <= 16 ? 16 : (n <= 32 ? 32 : 48);
        memset(pad, 0, sizeof pad); memcpy(pad, key, n);
        dirty_stack(); if (!skinny128_set_key(&k1, key, n)) { ++bad; continue; }
        dirty_stack(); skinny128_set_key(&k2, pad, full);
        skinny128_ecb_encrypt(a, pt, &k1); skinny128_ecb_encrypt(b, pt, &k2);
        ++total; if (memcmp(a, b, 16)) { ++bad; printf("skinny128 key length %u differs from zero-padded %u\n", n, full); }
    }
    for (n = 8; n <= 24; ++n) {
        Skinny64Key_t k1, k2; unsigned full = n <= 8 ? 8 : (n <= 16 ? 16 : 24);
        memset(pad, 0, sizeof pad); memcpy(pad, key, n);
        dirty_stack(); if (!skinny64_set_key(&k1, key, n)) { ++bad; continue; }
        dirty_stack(); skinny64_set_key(&k2, pad, full);
        skinny64_ecb_encrypt(a, pt, &k1); skinny64_ecb_encrypt(b, pt, &k2);
        ++total; if (memcmp(a, b, 8)) { ++bad; printf("skinny64 key length %u differs from zero-padded %u\n", n, full); }
    }
    printf("%u lengths, %u differ -> %s\n", total, bad, bad ? "FAIL" : "PASS");
    return bad != 0;
}
