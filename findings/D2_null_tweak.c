/* D2: header says "tweak ... or NULL for a zero tweak" but set_tweak memcpy()s from it.
   Expected after the fix: both calls return 1 and the schedule equals the one for an explicit zero tweak. */
#include "skinny128-cipher.h"
#include "skinny64-cipher.h"
#include <stdio.h>
#include <string.h>
int main(void)
{
    static const unsigned char key[16] = {1,2,3,4,5,6,7,8,9,10,11,12,13,14,15,16};
    static const unsigned char t1[16] = {9,9,9};
    static const unsigned char zero[16] = {0};
    Skinny128TweakedKey_t a, b; Skinny64TweakedKey_t c, d;
    skinny128_set_tweaked_key(&a, key, 16); skinny128_set_tweaked_key(&b, key, 16);
    skinny128_set_tweak(&a, t1, 16); skinny128_set_tweak(&b, t1, 16);
    int r1 = skinny128_set_tweak(&a, NULL, 16);
    int r2 = skinny128_set_tweak(&b, zero, 16);
    skinny64_set_tweaked_key(&c, key, 8); skinny64_set_tweaked_key(&d, key, 8);
    skinny64_set_tweak(&c, t1, 8); skinny64_set_tweak(&d, t1, 8);
    int r3 = skinny64_set_tweak(&c, NULL, 8);
    int r4 = skinny64_set_tweak(&d, zero, 8);
    unsigned char o1[16], o2[16], o3[8], o4[8];
    skinny128_ecb_encrypt(o1, key, &a.ks); skinny128_ecb_encrypt(o2, key, &b.ks);
    skinny64_ecb_encrypt(o3, key, &c.ks); skinny64_ecb_encrypt(o4, key, &d.ks);
    int ok = r1 == 1 && r2 == 1 && r3 == 1 && r4 == 1 && !memcmp(o1, o2, 16) && !memcmp(o3, o4, 8) &&
             !memcmp(a.tweak, zero, 16) && !memcmp(c.tweak, zero, 8);
    printf("%s\n", ok ? "PASS" : "FAIL");
    return !ok;
}
