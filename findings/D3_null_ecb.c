/* D3: "Zero if ecb is NULL" but *_parallel_ecb_init dereferences it. */
#include "skinny128-parallel.h"
#include "skinny64-parallel.h"
#include "mantis-parallel.h"
#include <stdio.h>
int main(void)
{
    int r = skinny128_parallel_ecb_init(NULL) | skinny64_parallel_ecb_init(NULL) | mantis_parallel_ecb_init(NULL);
    printf("%s\n", r == 0 ? "PASS" : "FAIL");
    return r != 0;
}
