/* D7: C05 says the counter is all-zero after initialisation, so without set_counter the stream is
   E(0), E(1), E(2)...  The generic back ends do that; the SIMD back ends leave every lane of the
   row-sliced counter at 0 after init (calloc), so the first batch is E(0),E(0),E(0),E(0) and later
   batches E(L),E(L),...   Link with -Wl,--wrap=_skinny_has_vec128 -Wl,--wrap=_skinny_has_vec256. */
#include "skinny128-cipher.h"
#include "skinny64-cipher.h"
#include "mantis-cipher.h"
#include <stdio.h>
#include <string.h>
int __real__skinny_has_vec128(void);
int __real__skinny_has_vec256(void);
static int allow128, allow256;
int __wrap__skinny_has_vec128(void) { return allow128 && __real__skinny_has_vec128(); }
int __wrap__skinny_has_vec256(void) { return allow256 && __real__skinny_has_vec256(); }
static const unsigned char key[16] = {1, 2, 3};
static void r128(unsigned char *o) { static const unsigned char z[256] = {0}; Skinny128CTR_t c; skinny128_ctr_init(&c); skinny128_ctr_set_key(&c, key, 16); skinny128_ctr_encrypt(o, z, 256, &c); skinny128_ctr_cleanup(&c); }
static void r64(unsigned char *o) { static const unsigned char z[256] = {0}; Skinny64CTR_t c; skinny64_ctr_init(&c); skinny64_ctr_set_key(&c, key, 16); skinny64_ctr_encrypt(o, z, 256, &c); skinny64_ctr_cleanup(&c); }
static void rm(unsigned char *o) { static const unsigned char z[256] = {0}; MantisCTR_t c; mantis_ctr_init(&c); mantis_ctr_set_key(&c, key, 16, 7); mantis_ctr_encrypt(o, z, 256, &c); mantis_ctr_cleanup(&c); }
int main(void)
{
    unsigned char g[256], v[256]; int bad = 0;
    allow128 = allow256 = 0; r128(g); allow128 = 1; r128(v); if (memcmp(g, v, 256)) { printf("skinny128: 128-bit back end differs from generic without set_counter (blocks 0,1 %s)\n", memcmp(v, v + 16, 16) ? "differ" : "are identical: counter lanes not staggered"); bad = 1; }
    allow256 = 1; r128(v); if (memcmp(g, v, 256)) { printf("skinny128: 256-bit back end differs from generic without set_counter\n"); bad = 1; }
    allow128 = allow256 = 0; r64(g); allow128 = 1; r64(v); if (memcmp(g, v, 256)) { printf("skinny64: 128-bit back end differs from generic without set_counter\n"); bad = 1; }
    allow128 = 0; rm(g); allow128 = 1; rm(v); if (memcmp(g, v, 256)) { printf("mantis: 128-bit back end differs from generic without set_counter\n"); bad = 1; }
    printf("%s\n", bad ? "FAIL" : "PASS");
    return bad;
}
