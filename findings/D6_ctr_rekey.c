/* D6: the vector CTR back ends discard the whole pre-computed batch when the key or tweak is changed
   mid-stream without rewinding the lane counters, so the next keystream block is E(c+4) / E(c+8)
   where the generic back end uses E(c+1).  The same API history therefore produces different bytes
   depending on the CPU.  Link with -Wl,--wrap=_skinny_has_vec128 -Wl,--wrap=_skinny_has_vec256.
   Expected if the back ends agreed: PASS. */
#include "skinny128-cipher.h"
#include "skinny64-cipher.h"
#include "mantis-cipher.h"
#include <stdio.h>
#include <string.h>
int __real__skinny_has_vec128(void);
int __real__skinny_has_vec256(void);
static int allow128, allow256;
int __wrap__skinny_has_vec128(void) { return allow128 && __real__skinny_has_vec128(); }
int __wrap__skinny_has_vec256(void) { return allow256 && __real__skinny_has_vec256(); }
static void run128(unsigned char *out)
{
    static const unsigned char key1[16] = {1}, key2[16] = {2}, zero[32] = {0};
    Skinny128CTR_t c;
    skinny128_ctr_init(&c); skinny128_ctr_set_key(&c, key1, 16); skinny128_ctr_set_counter(&c, NULL, 0);
    skinny128_ctr_encrypt(out, zero, 16, &c);          /* uses E_k1(0) */
    skinny128_ctr_set_key(&c, key2, 16);               /* key change in the middle of the stream */
    skinny128_ctr_encrypt(out + 16, zero, 16, &c);     /* generic: E_k2(1) */
    skinny128_ctr_cleanup(&c);
}
static void run64(unsigned char *out)
{
    static const unsigned char key1[16] = {1}, key2[16] = {2}, zero[32] = {0};
    Skinny64CTR_t c;
    skinny64_ctr_init(&c); skinny64_ctr_set_key(&c, key1, 16); skinny64_ctr_set_counter(&c, NULL, 0);
    skinny64_ctr_encrypt(out, zero, 8, &c);
    skinny64_ctr_set_key(&c, key2, 16);
    skinny64_ctr_encrypt(out + 8, zero, 8, &c);
    skinny64_ctr_cleanup(&c);
}
static void runm(unsigned char *out)
{
    static const unsigned char key1[16] = {1}, tw[8] = {7}, zero[32] = {0};
    MantisCTR_t c;
    mantis_ctr_init(&c); mantis_ctr_set_key(&c, key1, 16, 7); mantis_ctr_set_counter(&c, NULL, 0);
    mantis_ctr_encrypt(out, zero, 8, &c);
    mantis_ctr_set_tweak(&c, tw, 8);
    mantis_ctr_encrypt(out + 8, zero, 8, &c);
    mantis_ctr_cleanup(&c);
}
int main(void)
{
    unsigned char g[32], v[32], w[32]; int bad = 0;
    allow128 = allow256 = 0; run128(g); allow128 = 1; run128(v); allow256 = 1; run128(w);
    if (memcmp(g, v, 32)) { printf("skinny128 CTR: generic and 128-bit back ends differ after a mid-stream set_key\n"); bad = 1; }
    if (memcmp(g, w, 32)) { printf("skinny128 CTR: generic and 256-bit back ends differ after a mid-stream set_key\n"); bad = 1; }
    allow128 = allow256 = 0; run64(g); allow128 = 1; run64(v);
    if (memcmp(g, v, 16)) { printf("skinny64 CTR: generic and 128-bit back ends differ after a mid-stream set_key\n"); bad = 1; }
    allow128 = 0; runm(g); allow128 = 1; runm(v);
    if (memcmp(g, v, 16)) { printf("mantis CTR: generic and 128-bit back ends differ after a mid-stream set_tweak\n"); bad = 1; }
    printf("%s\n", bad ? "FAIL" : "PASS");
    return bad;
}
