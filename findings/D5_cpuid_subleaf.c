/* D5: _skinny_has_vec256 executes CPUID leaf 7 without setting ECX (the sub-leaf input), so its
   answer depends on whatever the caller left in ECX.  We call it with ECX preset to 0..3.
   Expected after the fix: the same answer for every ECX. */
#include <stdio.h>
int _skinny_has_vec256(void);
static int call_with_ecx(unsigned v)
{
    int r;
    __asm__ __volatile__ ("call _skinny_has_vec256" : "=a"(r) : "c"(v) : "rdx", "rsi", "rdi", "r8", "r9", "r10", "r11", "memory", "cc");
    return r;
}
int main(void)
{
    int r0 = call_with_ecx(0), r1 = call_with_ecx(1), r2 = call_with_ecx(2), r3 = call_with_ecx(3);
    printf("ecx=0:%d ecx=1:%d ecx=2:%d ecx=3:%d -> %s\n", r0, r1, r2, r3, (r0 == r1 && r1 == r2 && r2 == r3) ? "PASS" : "FAIL");
    return !(r0 == r1 && r1 == r2 && r2 == r3);
}
