#!/bin/sh
# usage: findings/run.sh <file.c> [repo]   -- builds the replay against <repo>/src/libskinny.a and runs it
R=${2:-/repo}
T=$(mktemp -d)
make -s -C $R/src all >/dev/null 2>&1
cc -O1 -I$R/include -I$R/src "$1" $3 $R/src/libskinny.a -o $T/replay && $T/replay; rc=$?
rm -rf $T
echo "exit=$rc"
